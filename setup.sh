#!/bin/bash
# Build the overlay venv used by every check: /venv's site-packages + /repo on the path,
# plus z3-solver / cvc5 / crosshair-tool / jsonschema from the offline wheelhouse.
set -e
cd "$(dirname "$0")"
V=.venv
if [ -x "$V/bin/python" ] && "$V/bin/python" -c "import z3, xdsl" 2>/dev/null; then
  exit 0
fi
rm -rf "$V"
/venv/bin/python -m venv "$V"
printf "import site; site.addsitedir('/venv/lib/python3.12/site-packages')\n/repo\n" > "$V/lib/python3.12/site-packages/overlay.pth"
PIP_NO_INDEX=1 "$V/bin/pip" install -q --no-index --find-links /opt/veriftools/wheels z3-solver cvc5 crosshair-tool jsonschema >/dev/null 2>&1 || \
PIP_NO_INDEX=1 "$V/bin/pip" install -q --no-index --find-links /opt/veriftools/wheels z3-solver jsonschema
"$V/bin/python" -c "import z3, xdsl; print('setup ok: z3', z3.get_version_string())"
