import math
import struct

import z3

from .symfloat import F16, F32, F64, RNE


def float_from_input(v):
    """model value of an FP input -> python float"""
    if isinstance(v, dict):
        bits, w = v["fp_bits"], v["w"]
        if w == 64:
            return struct.unpack("<d", struct.pack("<Q", bits))[0]
        if w == 32:
            return struct.unpack("<f", struct.pack("<I", bits))[0]
        if w == 16:
            return struct.unpack("<e", struct.pack("<H", bits))[0]
    if isinstance(v, str):
        return float(v.replace("oo", "inf"))
    return float(v)


def bits_of_float(x: float, w=64) -> int:
    if w == 64:
        return struct.unpack("<Q", struct.pack("<d", x))[0]
    if w == 32:
        return struct.unpack("<I", struct.pack("<f", x))[0]
    return struct.unpack("<H", struct.pack("<e", x))[0]


def fp_const(x: float, sort):
    """exact z3 constant of a python float that is representable in sort"""
    from .symfloat import fpval

    return fpval(x, sort)


def z3_to_py(v):
    v = z3.simplify(v)
    if z3.is_bv_value(v):
        return v.as_long()
    if z3.is_true(v):
        return True
    if z3.is_false(v):
        return False
    if z3.is_fp(v):
        if z3.is_fprm_value(v):
            return str(v)
        s = z3.simplify(z3.fpIsNaN(v))
        if z3.is_true(s):
            return math.nan
        bv = z3.simplify(z3.fpToIEEEBV(v))
        if z3.is_bv_value(bv):
            w = bv.size()
            return float_from_input({"fp_bits": bv.as_long(), "w": w})
    raise ValueError(f"not a value: {v}")


def same_float(a: float, b: float) -> bool:
    if math.isnan(a) or math.isnan(b):
        return math.isnan(a) and math.isnan(b)
    return struct.pack("<d", a) == struct.pack("<d", b)
