"""CLI: python -m vx.run <ID> [--tier quick|thorough] [--only pattern] [--replay path] [--procs N]"""
from __future__ import annotations

import argparse
import fnmatch
import json
import os
import random
import sys
import time


def main():
    ap = argparse.ArgumentParser()
    ap.add_argument("prop")
    ap.add_argument("--tier", default=os.environ.get("VERIF_TIER", "quick"))
    ap.add_argument("--only", default=None)
    ap.add_argument("--replay", default=None)
    ap.add_argument("--procs", type=int, default=int(os.environ.get("VERIF_PROCS", "16")))
    ap.add_argument("--no-evidence", action="store_true")
    ap.add_argument("-v", action="store_true")
    a = ap.parse_args()
    tier = a.tier if a.tier in ("quick", "thorough") else "quick"
    seed = int(os.environ.get("VERIF_SEED", "0") or 0)
    root = os.path.dirname(os.path.dirname(os.path.abspath(__file__)))
    from vx.checks import CHECKS

    if a.prop not in CHECKS:
        print(f"unknown property {a.prop}")
        sys.exit(3)
    info = CHECKS[a.prop]
    if a.replay:
        import subprocess

        env = {k: v for k, v in os.environ.items() if k != "XDSL_VERIF_SYMX"}
        r = subprocess.run([sys.executable, "-m", "vx.replay", a.replay], cwd=root, env=env)
        if r.returncode == 1:
            print(f"VIOLATION property={a.prop} replay={a.replay}")
        sys.exit(r.returncode)

    t0 = time.time()
    from vx import hook

    hook.install(info.get("instrument", {}))
    import importlib

    from vx import framework

    mod = importlib.import_module(info["module"])
    obs = mod.obligations(tier)
    if a.only:
        obs = [o for o in obs if fnmatch.fnmatch(o["id"], a.only)]
    random.Random(seed).shuffle(obs)
    # heavy obligations first
    obs.sort(key=lambda o: -o.get("weight", 1))
    results = run_workers(a.prop, tier, obs, max(1, min(a.procs, len(obs))), info, a.v, root)
    results.sort(key=lambda r: r["id"])
    wall = time.time() - t0

    viol = [r for r in results if r["status"] == "violated"]
    herr = [r for r in results if r["status"] == "harness_error"]
    inc = [r for r in results if r["status"] == "inconclusive"]
    held = [r for r in results if r["status"] == "held"]
    known = {}
    for r in results:
        for k in r["known"]:
            known.setdefault(k["what"], []).append(r["id"])
    for what, ids in sorted(known.items()):
        print(f"KNOWN-FINDING: property={a.prop} {what} [obligations: {', '.join(sorted(ids)[:6])}{' ...' if len(ids) > 6 else ''}]")
    for r in inc:
        print(f"INCONCLUSIVE {a.prop} {r['id']}: {'; '.join(str(x)[:160] for x in r['reasons'][:3])}")
    for r in herr:
        print(f"HARNESS-ERROR {a.prop} {r['id']}: {'; '.join(str(x)[-700:] for x in r['reasons'][:2])}")
    for r in viol:
        print(f"VIOLATION property={a.prop} replay={r['violation']['replay']}")
        print(f"   obligation={r['id']} inputs={json.dumps(r['violation']['inputs'], default=repr)[:300]} :: {str(r['violation']['detail'])[:300]}")
    print(f"{a.prop} tier={tier}: obligations={len(results)} held={len(held)} known-finding-obligations={sum(1 for r in results if r['known'])} "
          f"inconclusive={len(inc)} violated={len(viol)} harness_errors={len(herr)} paths={sum(r['paths'] for r in results)} "
          f"queries={sum(r['queries'] for r in results)} solver_s={sum(r['solver_s'] for r in results):.1f} wall_s={wall:.1f}")

    if not a.no_evidence and not a.only:
        write_evidence(root, a.prop, tier, seed, mod, info, obs, results, wall)
    if viol:
        sys.exit(1)
    if herr:
        sys.exit(3)
    sys.exit(0)


def run_workers(prop, tier, obs, procs, info, verbose, root):
    """dynamic scheduling over fresh worker processes (JSON lines over pipes); hung or dead workers are killed, their
    obligation is reported inconclusive and a new worker is started"""
    import selectors
    import subprocess

    maxtasks = info.get("maxtasksperchild", 100)
    default_budget = 90 if tier == "quick" else 600
    pending = list(obs)
    results = []
    sel = selectors.DefaultSelector()
    workers = {}

    def spawn():
        env = dict(os.environ)
        env["PYTHONDONTWRITEBYTECODE"] = "1"
        p = subprocess.Popen([sys.executable, "-m", "vx.worker", prop, tier], cwd=root, stdin=subprocess.PIPE, stdout=subprocess.PIPE,
                             stderr=subprocess.DEVNULL, text=True, bufsize=1, env=env)
        w = {"p": p, "ob": None, "t0": time.time(), "n": 0, "ready": False}
        workers[p.stdout.fileno()] = w
        sel.register(p.stdout, selectors.EVENT_READ, w)
        return w

    def give(w):
        if not pending or w["n"] >= maxtasks:
            try:
                w["p"].stdin.write("QUIT\n")
                w["p"].stdin.flush()
            except Exception:
                pass
            retire(w)
            if pending and len(workers) < procs:
                spawn()
            return
        ob = pending.pop(0)
        w["ob"], w["t0"] = ob, time.time()
        w["n"] += 1
        try:
            w["p"].stdin.write(json.dumps(ob) + "\n")
            w["p"].stdin.flush()
        except Exception:
            fail(w, "worker pipe broken")

    def retire(w):
        try:
            sel.unregister(w["p"].stdout)
        except Exception:
            pass
        workers.pop(w["p"].stdout.fileno(), None)
        try:
            w["p"].stdin.close()
        except Exception:
            pass

    def fail(w, why):
        ob = w["ob"]
        if ob is not None:
            results.append({"id": ob["id"], "status": "inconclusive", "known": [], "violation": None, "reasons": [why], "paths": 0, "ok_paths": 0,
                            "queries": 0, "solver_s": 0.0, "wall_s": round(time.time() - w["t0"], 1)})
            if verbose:
                print(f"  [inconclusive] {ob['id']} {why}", flush=True)
        try:
            w["p"].kill()
        except Exception:
            pass
        retire(w)
        if pending:
            spawn()

    for _ in range(procs):
        spawn()
    startup_failures = [0]
    while workers:
        if startup_failures[0] > 3 * procs:
            print("HARNESS-ERROR workers cannot start")
            for w in list(workers.values()):
                try:
                    w["p"].kill()
                except Exception:
                    pass
            sys.exit(3)
        events = sel.select(timeout=5)
        for key, _ in events:
            w = key.data
            line = w["p"].stdout.readline()
            if not line:
                if not w["ready"]:
                    startup_failures[0] += 1
                fail(w, "worker process died")
                continue
            line = line.strip()
            if line == "READY":
                w["ready"] = True
                give(w)
                continue
            try:
                r = json.loads(line)
            except Exception:
                continue
            results.append(r)
            if verbose:
                print(f"  [{r['status']}] {r['id']} paths={r['paths']} q={r['queries']} {r['wall_s']}s {r['reasons'][:1] if r['reasons'] else ''}", flush=True)
            w["ob"] = None
            give(w)
        now = time.time()
        for w in list(workers.values()):
            # a worker whose process is gone and whose pipe delivered nothing for two sweeps is dead (robustness: never wait on it)
            if w["p"].poll() is not None:
                w["gone"] = w.get("gone", 0) + 1
                if w["gone"] >= 3:
                    fail(w, "worker process died")
                    continue
            limit = (w["ob"].get("budget_s", default_budget) * 2 + 120) if w["ob"] is not None else 300
            if now - w["t0"] > limit and (w["ob"] is not None or not w["ready"]):
                fail(w, f"worker exceeded {limit:.0f} s wall (killed)")
    return results


def write_evidence(root, prop, tier, seed, mod, info, obs, results, wall):
    level = getattr(mod, "LEVEL", "other")
    held = [r for r in results if r["status"] == "held"]
    discharged = len(held) + sum(1 for r in results if r["status"] not in ("held",) and False)
    samples = []
    for r in results[:: max(1, len(results) // 6)][:8]:
        samples.append({"obligation": r["id"], "status": r["status"], "paths": r["paths"], "ok_paths": r["ok_paths"],
                        "solver_queries": r["queries"], "reachability_witness": r.get("witness"),
                        "known_findings": [k["what"] for k in r["known"]]})
    inconc = [{"obligation": r["id"], "reasons": [str(x)[:200] for x in r["reasons"][:3]]} for r in results if r["status"] == "inconclusive"]
    cov = {
        "explanation": getattr(mod, "EXPLANATION", ""),
        "functions_encoded": getattr(mod, "FUNCTIONS", []),
        "modules_instrumented": info.get("instrument", {}),
        "bounds": mod.bounds(tier) if hasattr(mod, "bounds") else {},
        "outside_claim": getattr(mod, "OUTSIDE", []),
        "obligations": len(results),
        "discharged": len(held) + sum(1 for r in results if r["status"] == "violated"),
        "held": len(held),
        "held_outside_known_regions": sum(1 for r in held if r["known"]),
        "inconclusive": inconc[:60],
        "inconclusive_count": len(inconc),
        "paths": sum(r["paths"] for r in results),
        "ok_paths": sum(r["ok_paths"] for r in results),
        "solver_queries": sum(r["queries"] for r in results),
        "cvc5_queries": sum(r.get("cvc5_queries", 0) for r in results),
        "solver_s": round(sum(r["solver_s"] for r in results), 2),
        "vacuity": {"obligations_with_reachability_witness": sum(1 for r in results if r.get("witness") is not None),
                    "rule": "every held obligation needs >=1 feasible completed path; the first ok path's condition is re-solved and its model recorded"},
        "known_findings_hit": sorted({k["what"] for r in results for k in r["known"]}),
        "stubs": getattr(mod, "STUBS", []),
        "samples": samples,
        "evaluations": len(results),
        "distinct_nontrivial": len({r["id"] for r in results if r["paths"] >= 1}),
        "rule": "one evaluation = one obligation (real function(s) x enumerated shape) explored over all feasible paths with symbolic data and discharged by z3/cvc5; distinct by obligation id; non-trivial = at least one path explored",
        "exhaustive": False,
    }
    if level == "translation_validation":
        cov["programs"] = len(results)
        cov["disagreements_checked"] = sum(r["ok_paths"] for r in results)
    if hasattr(mod, "evidence_extra"):
        cov.update(mod.evidence_extra(tier, results))
    ev = {
        "property_id": prop,
        "tier": tier,
        "seed": seed,
        "level": level,
        "coverage": cov,
        "assumptions": getattr(mod, "ASSUMPTIONS", []),
        "wall_s": round(wall, 2),
        "violations": sum(1 for r in results if r["status"] == "violated"),
    }
    os.makedirs(os.path.join(root, "evidence"), exist_ok=True)
    with open(os.path.join(root, "evidence", f"{prop}.json"), "w") as f:
        json.dump(ev, f, indent=1, default=repr)


if __name__ == "__main__":
    main()
