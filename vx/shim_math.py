"""Drop-in for `math` inside instrumented modules: symbolic-aware isnan/isinf/copysign/gcd, rest delegated."""
import math as _m
from math import *  # noqa: F401,F403
from math import prod, gcd as _gcd, frexp, ldexp, inf, nan, pi, e  # noqa: F401

from .symfloat import copysign, isfinite, isinf, isnan  # noqa: F401
from .symx import SymInt, SymBool


def gcd(*args):
    """math.gcd on symbolic ints: largest g dividing every argument, as an ite chain (small ranges only)"""
    if not any(type(a) in (SymInt, SymBool) for a in args):
        return _gcd(*args)
    import z3

    from .symx import Unsupported, _mk

    vals = [abs(SymInt.lift(a)) for a in args]
    m = min((v.hi for v in vals if v.hi > 0), default=0)  # gcd <= every non-zero argument; conservative bound
    m = max(v.hi for v in vals) if m == 0 else max(v.hi for v in vals)
    if m > 128:
        return _gcd(*[int(a) if type(a) in (SymInt, SymBool) else a for a in args])
    w = max(max(v.e.size() for v in vals), 9)
    xs = [v.ext(w) for v in vals]
    e = z3.BitVecVal(0, w)  # all arguments zero
    for g in range(1, m + 1):
        divides = z3.And(*[z3.URem(x, z3.BitVecVal(g, w)) == 0 for x in xs])
        nonzero = z3.Or(*[x != 0 for x in xs])
        e = z3.If(z3.And(divides, nonzero), z3.BitVecVal(g, w), e)
    return _mk(e, 0, m)


def _round_int(x, rm_name):
    import z3

    from .symfloat import SymFloat, float_to_int

    rm = {"ceil": z3.RTP(), "floor": z3.RTN(), "trunc": z3.RTZ()}[rm_name]
    return float_to_int(SymFloat(z3.fpRoundToIntegral(rm, x.e)))


def ceil(x):
    from .symfloat import SymFloat

    if type(x) is SymFloat:
        return _round_int(x, "ceil")
    if type(x) in (SymInt, SymBool):
        return SymInt.lift(x)
    return _m.ceil(x)


def floor(x):
    from .symfloat import SymFloat

    if type(x) is SymFloat:
        return _round_int(x, "floor")
    if type(x) in (SymInt, SymBool):
        return SymInt.lift(x)
    return _m.floor(x)


def trunc(x):
    from .symfloat import SymFloat

    if type(x) is SymFloat:
        return _round_int(x, "trunc")
    if type(x) in (SymInt, SymBool):
        return SymInt.lift(x)
    return _m.trunc(x)


def __getattr__(name):
    return getattr(_m, name)
