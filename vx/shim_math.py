"""Drop-in for `math` inside instrumented modules: symbolic-aware isnan/isinf/copysign/gcd, rest delegated."""
import math as _m
from math import *  # noqa: F401,F403
from math import prod, gcd as _gcd, frexp, ldexp, inf, nan, pi, e  # noqa: F401

from .symfloat import copysign, isfinite, isinf, isnan  # noqa: F401
from .symx import SymInt, SymBool


def gcd(*args):
    if any(type(a) in (SymInt, SymBool) for a in args):
        # Euclid on symbolic ints, concretising by fork (ranges are small where this is used)
        vals = [int(a) if type(a) in (SymInt, SymBool) else a for a in args]
        return _gcd(*vals)
    return _gcd(*args)


def __getattr__(name):
    return getattr(_m, name)
