"""Drop-in for `struct` inside instrumented modules: IEEE packing of symbolic floats is modelled exactly
(round to the format, OverflowError like CPython for finite values beyond the f32/f16 range); everything
concrete is delegated to the real module."""
import re as _re
import struct as _s
from struct import *  # noqa: F401,F403
from struct import error, calcsize  # noqa: F401

import z3

from .symfloat import F16, F32, F64, RNE, SymFloat
from .symx import SymBool, SymInt, Unsupported

_FMT = _re.compile(r"^([<>=!@]?)(\d*)([defbhiqBHIQ?])$")
_SORT = {"d": F64, "f": F32, "e": F16}


class SymPacked:
    """opaque result of struct.pack on symbolic values"""

    def __init__(self, order, code, values):
        self.order, self.code, self.values = order, code, list(values)

    def __len__(self):
        return _s.calcsize(self.order + self.code) * len(self.values)

    def _pat(self, v):
        if self.code == "d":
            return v.pattern()
        sort = _SORT[self.code]
        return z3.fpToIEEEBV(z3.fpToFP(RNE, v.e, sort))

    def __eq__(self, o):
        if not isinstance(o, SymPacked):
            return NotImplemented
        if o.code != self.code or len(o.values) != len(self.values):
            return False
        return SymBool(z3.And(*[self._pat(a) == o._pat(b) for a, b in zip(self.values, o.values)]))

    def __ne__(self, o):
        r = self.__eq__(o)
        return r if r is NotImplemented else (SymBool(z3.Not(r.e)) if isinstance(r, SymBool) else not r)

    def __hash__(self):
        raise Unsupported("hash(SymPacked) at a C boundary")


def _round(x: SymFloat, code):
    if code == "d":
        return x  # keeps the tracked bit pattern
    sort = _SORT[code]
    r = z3.fpToFP(RNE, x.e, sort)
    overflow = z3.And(z3.fpIsInf(r), z3.Not(z3.fpIsInf(x.e)))
    if bool(SymBool(overflow)):
        raise OverflowError("float too large to pack with %s format" % code)
    return SymFloat(z3.fpToFP(RNE, r, F64))


def pack(fmt, *values):
    if not any(isinstance(v, (SymFloat, SymInt, SymBool)) for v in values):
        return _s.pack(fmt, *values)
    m = _FMT.match(fmt)
    if not m:
        raise Unsupported(f"struct.pack format {fmt} with symbolic values")
    order, n, code = m.groups()
    if code in _SORT:
        return SymPacked(order, code, [_round(SymFloat.lift(v), code) for v in values])
    raise Unsupported(f"struct.pack of symbolic ints ({fmt})")


def unpack(fmt, buffer):
    if isinstance(buffer, SymPacked):
        m = _FMT.match(fmt)
        if not m or m.group(3) != buffer.code:
            raise Unsupported(f"struct.unpack {fmt} of a symbolic buffer packed as {buffer.code}")
        return tuple(buffer.values)
    return _s.unpack(fmt, buffer)


def iter_unpack(fmt, buffer):
    if isinstance(buffer, SymPacked):
        return iter([(v,) for v in buffer.values])
    return _s.iter_unpack(fmt, buffer)


def pack_into(fmt, buffer, offset, *values):
    if any(isinstance(v, (SymFloat, SymInt, SymBool)) for v in values):
        raise Unsupported("struct.pack_into with symbolic values")
    return _s.pack_into(fmt, buffer, offset, *values)


def __getattr__(name):
    return getattr(_s, name)
