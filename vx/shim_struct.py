"""Drop-in for `struct` inside instrumented modules: IEEE packing of symbolic floats is modelled exactly
(round to the format, OverflowError like CPython for finite values beyond the f32/f16 range); everything
concrete is delegated to the real module."""
import re as _re
import struct as _s
from struct import *  # noqa: F401,F403
from struct import error, calcsize  # noqa: F401

import z3

from .symfloat import F16, F32, F64, RNE, SymFloat
from .symx import SymBool, SymInt, Unsupported

_FMT = _re.compile(r"^([<>=!@]?)(\d*)([defbhiqBHIQ?])$")
_SORT = {"d": F64, "f": F32, "e": F16}


class SymPacked:
    """opaque result of struct.pack on symbolic values"""

    def __init__(self, order, code, values):
        self.order, self.code, self.values = order, code, list(values)

    def __len__(self):
        return _s.calcsize(self.order + self.code) * len(self.values)

    def _pat(self, v):
        if self.code == "d":
            return v.pattern()
        sort = _SORT[self.code]
        return z3.fpToIEEEBV(z3.fpToFP(RNE, v.e, sort))

    def __eq__(self, o):
        if not isinstance(o, SymPacked):
            return NotImplemented
        if o.code != self.code or len(o.values) != len(self.values):
            return False
        return SymBool(z3.And(*[self._pat(a) == o._pat(b) for a, b in zip(self.values, o.values)]))

    def __ne__(self, o):
        r = self.__eq__(o)
        return r if r is NotImplemented else (SymBool(z3.Not(r.e)) if isinstance(r, SymBool) else not r)

    def __hash__(self):
        raise Unsupported("hash(SymPacked) at a C boundary")

    def __getitem__(self, i):
        raise Unsupported("slicing the packed bytes of a symbolic float")

    def __iter__(self):
        raise Unsupported("iterating the packed bytes of a symbolic float")


def _round(x: SymFloat, code):
    if code == "d":
        return x  # keeps the tracked bit pattern
    sort = _SORT[code]
    r = z3.fpToFP(RNE, x.e, sort)
    overflow = z3.And(z3.fpIsInf(r), z3.Not(z3.fpIsInf(x.e)))
    if bool(SymBool(overflow)):
        raise OverflowError("float too large to pack with %s format" % code)
    return SymFloat(z3.fpToFP(RNE, r, F64))


_INT = {"b": (1, True), "B": (1, False), "h": (2, True), "H": (2, False), "i": (4, True), "I": (4, False), "q": (8, True), "Q": (8, False)}


def _pack_int(v, size, signed, order):
    from .symstr import SymBytes  # noqa: F401

    v = SymInt.lift(v)
    lo, hi = (-(1 << (8 * size - 1)), (1 << (8 * size - 1)) - 1) if signed else (0, (1 << (8 * size)) - 1)
    if not bool((v >= lo) & (v <= hi)):
        raise error("argument out of range")
    bv = v.ext(8 * size) if v.e.size() != 8 * size else v.e
    bs = []
    for k in range(size):
        b = z3.simplify(z3.Extract(8 * k + 7, 8 * k, bv))
        bs.append(b.as_long() if z3.is_bv_value(b) else SymInt(z3.ZeroExt(1, b), 0, 255))
    return bs if order in ("<", "", "=", "@") else bs[::-1]


def _unpack_int(bs, signed, order):
    if order not in ("<", "", "=", "@"):
        bs = bs[::-1]
    if all(isinstance(b, int) for b in bs):
        return int.from_bytes(bytes(bs), "little", signed=signed)
    parts = [(z3.BitVecVal(b, 8) if isinstance(b, int) else z3.Extract(7, 0, b.e) if b.e.size() >= 8 else z3.ZeroExt(8 - b.e.size(), b.e)) for b in bs]
    bv = parts[0] if len(parts) == 1 else z3.Concat(*parts[::-1])
    return SymInt.from_bv(bv, signed=signed)


def pack(fmt, *values):
    if not any(isinstance(v, (SymFloat, SymInt, SymBool)) for v in values):
        return _s.pack(fmt, *values)
    m = _FMT.match(fmt)
    if not m:
        raise Unsupported(f"struct.pack format {fmt} with symbolic values")
    order, n, code = m.groups()
    if code in _SORT:
        return SymPacked(order, code, [_round(SymFloat.lift(v), code) for v in values])
    if code in _INT:
        from .symstr import SymBytes, normb

        if (int(n) if n else 1) != len(values):
            raise error(f"pack expected {n or 1} items for packing (got {len(values)})")
        size, signed = _INT[code]
        out = []
        for v in values:
            out += _pack_int(v, size, signed, order)
        return normb(SymBytes(out))
    raise Unsupported(f"struct.pack of symbolic values ({fmt})")


def _sym_unpack(fmt, buffer):
    from .symstr import SymBytes

    buffer = SymBytes.lift(buffer)
    m = _FMT.match(fmt)
    if not m:
        raise Unsupported(f"struct.unpack format {fmt} on symbolic bytes")
    order, n, code = m.groups()
    n = int(n) if n else 1
    if code in _INT:
        size, signed = _INT[code]
        if len(buffer) != n * size:
            raise error(f"unpack requires a buffer of {n * size} bytes")
        return tuple(_unpack_int(list(buffer.bs[k * size:(k + 1) * size]), signed, order) for k in range(n))
    if code == "?":
        if len(buffer) != n:
            raise error(f"unpack requires a buffer of {n} bytes")
        return tuple((b != 0) if isinstance(b, int) else bool(b != 0) for b in buffer.bs)
    raise Unsupported(f"struct.unpack {fmt} on symbolic bytes")


def _is_symbytes(b):
    return type(b).__name__ in ("SymBytes", "SymByteArray")


def unpack(fmt, buffer):
    if _is_symbytes(buffer):
        return _sym_unpack(fmt, buffer)
    if isinstance(buffer, SymPacked):
        m = _FMT.match(fmt)
        if not m or m.group(3) != buffer.code:
            raise Unsupported(f"struct.unpack {fmt} of a symbolic buffer packed as {buffer.code}")
        return tuple(buffer.values)
    return _s.unpack(fmt, buffer)


def iter_unpack(fmt, buffer):
    if _is_symbytes(buffer):
        size = _s.calcsize(fmt)
        if size == 0 or len(buffer) % size:
            raise error(f"iterative unpacking requires a buffer of a multiple of {size} bytes")
        from .symstr import SymBytes

        bs = SymBytes.lift(buffer).bs
        return iter([_sym_unpack(fmt, SymBytes(bs[k:k + size])) for k in range(0, len(bs), size)])
    if isinstance(buffer, SymPacked):
        return iter([(v,) for v in buffer.values])
    return _s.iter_unpack(fmt, buffer)


def pack_into(fmt, buffer, offset, *values):
    if any(isinstance(v, (SymFloat, SymInt, SymBool)) for v in values):
        raise Unsupported("struct.pack_into with symbolic values")
    return _s.pack_into(fmt, buffer, offset, *values)


def __getattr__(name):
    return getattr(_s, name)
