"""Import hook: compiles xdsl modules from /repo's current source with a small semantics-preserving
AST rewrite so that proxy objects can intercept operations Python does not dispatch (`is`, `in`,
`isinstance`, f-strings, `match` class patterns for builtin scalar types, ...).

On ordinary values every helper does exactly what the original syntax did.
"""
from __future__ import annotations

import ast
import builtins
import importlib.machinery
import os
import sys

from . import symx
from .symx import SymBool, SymInt, Unsupported

_orig_isinstance = builtins.isinstance

# --------------------------------------------------------------------------------------
# helpers (installed into builtins under __symx_*__ names)

EXEMPLAR = {SymInt: lambda o: 0, SymBool: lambda o: True}
IDENTITY_HANDLERS = []  # functions (a, b) -> SymBool | bool | None


def sym_is(a, b):
    for h in IDENTITY_HANDLERS:
        r = h(a, b)
        if r is not None:
            return r
    return a is b


def sym_isnot(a, b):
    return symx.sym_not(sym_is(a, b))


def sym_isinstance(o, c):
    f = EXEMPLAR.get(type(o))
    if f is not None:
        ex = f(o)
        if ex is _FORK:
            return _isinstance_fork(o, c)
        return _orig_isinstance(ex, c)
    return _orig_isinstance(o, c)


_FORK = object()
ISINSTANCE_FORK = {}


def _isinstance_fork(o, c):
    return ISINSTANCE_FORK[type(o)](o, c)


CONTAINS_HANDLERS = []
GETITEM_HANDLERS = []


def sym_in(x, y):
    for h in CONTAINS_HANDLERS:
        r = h(x, y)
        if r is not None:
            return r
    return x in y


def sym_notin(x, y):
    return symx.sym_not(sym_in(x, y))


def sym_getitem(c, k):
    for h in GETITEM_HANDLERS:
        r = h(c, k)
        if r is not NotImplemented:
            return r
    return c[k]


def _h_contains_int(x, y):
    """symbolic int against native containers of ints (no hashing)"""
    if type(x) in (SymInt, SymBool):
        if _orig_isinstance(y, (set, frozenset, list, tuple, dict, range)) or type(y).__name__ in ("dict_keys",):
            if _orig_isinstance(y, range):
                if y.step == 1:
                    return (x >= y.start) & (x < y.stop)
            hit = False
            for e in y:
                if _orig_isinstance(e, (int, SymInt, SymBool)):
                    if bool(x == e):
                        return True
            return hit
    return None


CONTAINS_HANDLERS.append(_h_contains_int)


def _h_getitem_int(c, k):
    if type(k) is SymInt:
        if _orig_isinstance(c, dict):
            for key in c:
                if _orig_isinstance(key, (int, SymInt)) and bool(k == key):
                    return c[key]
            raise KeyError(k)
        if _orig_isinstance(c, (list, tuple, range, str, bytes)):
            return c[k.concretize()]
    return NotImplemented


GETITEM_HANDLERS.append(_h_getitem_int)

INT_HANDLERS = []
FLOAT_HANDLERS = []
STR_HANDLERS = []


def sym_int(*a, **k):
    if len(a) >= 1:
        x = a[0]
        t = type(x)
        if t is SymInt and len(a) == 1:
            return x
        if t is SymBool and len(a) == 1:
            return SymInt.lift(x)
        for h in INT_HANDLERS:
            r = h(*a, **k)
            if r is not NotImplemented:
                return r
    return int(*a, **k)


def sym_float(*a):
    if len(a) == 1:
        for h in FLOAT_HANDLERS:
            r = h(a[0])
            if r is not NotImplemented:
                return r
    return float(*a)


def _diag(fn, *a, **k):
    """str()/format()/repr() of an object whose own __str__/__repr__ yields symbolic text: CPython insists on a real str, so
    the result is a tainted placeholder (only fit for diagnostics; any semantic use of it traps)"""
    try:
        return fn(*a, **k)
    except TypeError as e:
        if "non-string" in str(e) or "must return a str" in str(e):
            return symx.TaintedStr("\u27e6text with symbolic parts\u27e7")
        raise


def sym_str(*a, **k):
    if len(a) == 1 and not k:
        for h in STR_HANDLERS:
            r = h(a[0])
            if r is not NotImplemented:
                return r
    return _diag(str, *a, **k)


FORMAT_HANDLERS = []


def sym_format(v, spec=""):
    for h in FORMAT_HANDLERS:
        r = h(v, spec)
        if r is not NotImplemented:
            return r
    return _diag(format, v, spec)


JOIN = [None]


def sym_join(parts):
    if JOIN[0] is not None:
        return JOIN[0](parts)
    r = "".join(parts)
    if any(type(p) is symx.TaintedStr for p in parts):
        return symx.TaintedStr(r)
    return r


METHOD_HANDLERS = []  # functions (name, receiver, args, kwargs) -> result | NotImplemented


def sym_method(name, recv, *args, **kwargs):
    for h in METHOD_HANDLERS:
        r = h(name, recv, args, kwargs)
        if r is not NotImplemented:
            return r
    return getattr(recv, name)(*args, **kwargs)


SIMPLE_CALLS = {}  # name -> list of handlers


def _dispatch(name, orig):
    handlers = SIMPLE_CALLS.setdefault(name, [])

    def f(*a, **k):
        for h in handlers:
            r = h(*a, **k)
            if r is not NotImplemented:
                return r
        if name == "repr":
            return _diag(orig, *a, **k)
        return orig(*a, **k)

    f.__name__ = f"__symx_{name}__"
    return f


def _install_builtins():
    b = builtins
    b.__symx_is__ = sym_is
    b.__symx_isnot__ = sym_isnot
    b.__symx_isinstance__ = sym_isinstance
    b.__symx_in__ = sym_in
    b.__symx_notin__ = sym_notin
    b.__symx_getitem__ = sym_getitem
    b.__symx_int__ = sym_int
    b.__symx_float__ = sym_float
    b.__symx_str__ = sym_str
    b.__symx_format__ = sym_format
    b.__symx_join__ = sym_join
    b.__symx_method__ = sym_method
    import collections as _collections

    b.__symx_defaultdict__ = _dispatch("defaultdict", _collections.defaultdict)
    for name in ("chr", "ord", "print", "bytes", "bytearray", "repr", "hash", "len", "range", "round", "divmod", "sorted", "tuple", "list", "set", "frozenset", "dict", "enumerate", "zip", "iter", "next", "reversed", "id"):
        setattr(b, f"__symx_{name}__", _dispatch(name, getattr(builtins, name)))


_install_builtins()

TYPE_CALLS = {"isinstance": "__symx_isinstance__", "int": "__symx_int__", "float": "__symx_float__", "str": "__symx_str__"}
SIMPLE_CALL_NAMES = {"chr", "ord", "print", "bytes", "bytearray", "repr", "hash", "id"}
SCALAR_CLASS_PATTERNS = {"int", "float", "str", "bool", "bytes"}
MODULE_SHIMS = {"math": "vx.shim_math", "re": "vx.shim_re", "struct": "vx.shim_struct", "io": "vx.shim_io"}


class IdentityRewriter(ast.NodeTransformer):
    # `is` never occurs in annotations
    def visit_Compare(self, node):
        self.generic_visit(node)
        return rewrite_compare(node, identity=True, contains=False)


def rewrite_compare(node, identity, contains):
    kinds = []
    for op in node.ops:
        if identity and isinstance(op, (ast.Is, ast.IsNot)):
            kinds.append("__symx_is__" if isinstance(op, ast.Is) else "__symx_isnot__")
        elif contains and isinstance(op, (ast.In, ast.NotIn)):
            kinds.append("__symx_in__" if isinstance(op, ast.In) else "__symx_notin__")
        else:
            kinds.append(None)
    if not any(kinds):
        return node
    if len(node.ops) == 1:
        return ast.copy_location(ast.Call(ast.Name(kinds[0], ast.Load()), [node.left, node.comparators[0]], []), node)
    # chained comparison: only rewrite when all operands are simple names/constants (no double evaluation issue)
    operands = [node.left] + list(node.comparators)
    if not all(isinstance(o, (ast.Name, ast.Constant, ast.Attribute)) for o in operands):
        return node
    parts = []
    for i, op in enumerate(node.ops):
        l, r = operands[i], operands[i + 1]
        if kinds[i]:
            parts.append(ast.Call(ast.Name(kinds[i], ast.Load()), [l, r], []))
        else:
            parts.append(ast.Compare(l, [op], [r]))
    return ast.copy_location(ast.BoolOp(ast.And(), parts), node)


class _SkipAnnotations:
    """annotations are never rewritten (dataclasses inspect their source text, e.g. ClassVar[...])"""

    def visit_AnnAssign(self, node):
        node.target = self.visit(node.target)
        if node.value is not None:
            node.value = self.visit(node.value)
        return node

    def visit_arg(self, node):
        return node

    def _visit_func(self, node):
        node.args = self.visit(node.args)
        node.body = [x for b in node.body for x in _aslist(self.visit(b))]
        node.decorator_list = [self.visit(d) for d in node.decorator_list]
        return node

    visit_FunctionDef = _visit_func
    visit_AsyncFunctionDef = _visit_func


def _aslist(x):
    if x is None:
        return []
    return x if isinstance(x, list) else [x]


class FullRewriter(_SkipAnnotations, ast.NodeTransformer):
    def __init__(self, opts):
        self.opts = opts
        self.n = 0

    def visit_Compare(self, node):
        self.generic_visit(node)
        return rewrite_compare(node, identity=True, contains=True)

    def visit_Subscript(self, node):
        self.generic_visit(node)
        if isinstance(node.ctx, ast.Load) and not isinstance(node.slice, ast.Slice) and "getitem" in self.opts:
            if isinstance(node.slice, ast.Tuple) and any(isinstance(e, (ast.Slice, ast.Starred)) for e in node.slice.elts):
                return node
            return ast.copy_location(ast.Call(ast.Name("__symx_getitem__", ast.Load()), [node.value, node.slice], []), node)
        return node

    def visit_Import(self, node):
        out = []
        for a in node.names:
            if a.name in MODULE_SHIMS and a.name in self.opts.get("shims", ()):
                out.append(ast.copy_location(ast.Import([ast.alias(MODULE_SHIMS[a.name], None)]), node))
                # import vx.shim_math ; math = sys.modules[...]
                tgt = a.asname or a.name
                out.append(ast.copy_location(ast.Assign([ast.Name(tgt, ast.Store())],
                           ast.Subscript(ast.Attribute(ast.Call(ast.Name("__import__", ast.Load()), [ast.Constant("sys")], []), "modules", ast.Load()),
                                         ast.Constant(MODULE_SHIMS[a.name]), ast.Load())), node))
            else:
                out.append(ast.copy_location(ast.Import([a]), node))
        return out

    def visit_ImportFrom(self, node):
        if node.level == 0 and node.module in MODULE_SHIMS and node.module in self.opts.get("shims", ()):
            node.module = MODULE_SHIMS[node.module]
        return node

    def visit_Dict(self, node):
        self.generic_visit(node)
        if not node.keys and self.opts.get("dictdisplay"):
            return ast.copy_location(ast.Call(ast.Name("__symx_dict__", ast.Load()), [], []), node)
        return node

    def visit_JoinedStr(self, node):
        self.generic_visit(node)
        if "fstring" not in self.opts:
            return node
        parts = []
        for v in node.values:
            if isinstance(v, ast.Constant):
                parts.append(v)
            else:
                spec = v.format_spec if v.format_spec is not None else ast.Constant("")
                if isinstance(spec, ast.JoinedStr):
                    spec = self.visit_JoinedStr(spec) if not (len(spec.values) == 1 and isinstance(spec.values[0], ast.Constant)) else spec.values[0]
                val = v.value
                if v.conversion == 114:  # !r
                    val = ast.Call(ast.Name("__symx_repr__", ast.Load()), [val], [])
                elif v.conversion == 115:  # !s
                    val = ast.Call(ast.Name("__symx_str__", ast.Load()), [val], [])
                elif v.conversion != -1:
                    return node
                parts.append(ast.Call(ast.Name("__symx_format__", ast.Load()), [val, spec], []))
        return ast.copy_location(ast.Call(ast.Name("__symx_join__", ast.Load()), [ast.List(parts, ast.Load())], []), node)

    def visit_Call(self, node):
        self.generic_visit(node)
        if isinstance(node.func, ast.Attribute) and node.func.attr in self.opts.get("methods", ()) and not any(isinstance(a, ast.Starred) for a in node.args) \
                and not any(k.arg is None for k in node.keywords) and not (isinstance(node.func.value, ast.Call) and isinstance(node.func.value.func, ast.Name) and node.func.value.func.id == "super"):
            return ast.copy_location(ast.Call(ast.Name("__symx_method__", ast.Load()), [ast.Constant(node.func.attr), node.func.value] + node.args, node.keywords), node)
        if isinstance(node.func, ast.Name):
            n = node.func.id
            if n in TYPE_CALLS:
                node.func = ast.copy_location(ast.Name(TYPE_CALLS[n], ast.Load()), node.func)
            elif n in SIMPLE_CALL_NAMES or n in self.opts.get("calls", ()):
                node.func = ast.copy_location(ast.Name(f"__symx_{n}__", ast.Load()), node.func)
        return node

    # match statements: class patterns on builtin scalar types
    def visit_Match(self, node):
        self.generic_visit(node)
        for case in node.cases:
            guards = []
            case.pattern = self._pat(case.pattern, guards)
            if guards:
                g = guards[0] if len(guards) == 1 else ast.BoolOp(ast.And(), guards)
                case.guard = g if case.guard is None else ast.BoolOp(ast.And(), [g, case.guard])
        return node

    def _pat(self, p, guards):
        if isinstance(p, ast.MatchClass) and isinstance(p.cls, ast.Name) and p.cls.id in SCALAR_CLASS_PATTERNS and not p.patterns and not p.kwd_patterns:
            self.n += 1
            name = f"__symx_m{self.n}"
            guards.append(ast.Call(ast.Name("__symx_isinstance__", ast.Load()), [ast.Name(name, ast.Load()), ast.Name(p.cls.id, ast.Load())], []))
            return ast.copy_location(ast.MatchAs(None, name), p)
        if isinstance(p, ast.MatchAs) and p.pattern is not None:
            inner = p.pattern
            if isinstance(inner, ast.MatchClass) and isinstance(inner.cls, ast.Name) and inner.cls.id in SCALAR_CLASS_PATTERNS and not inner.patterns and not inner.kwd_patterns:
                guards.append(ast.Call(ast.Name("__symx_isinstance__", ast.Load()), [ast.Name(p.name, ast.Load()), ast.Name(inner.cls.id, ast.Load())], []))
                return ast.copy_location(ast.MatchAs(None, p.name), p)
            p.pattern = self._pat(inner, guards)
            return p
        if isinstance(p, ast.MatchSequence):
            p.patterns = [self._pat(q, guards) for q in p.patterns]
            return p
        if isinstance(p, ast.MatchClass):
            p.patterns = [self._pat(q, guards) for q in p.patterns]
            p.kwd_patterns = [self._pat(q, guards) for q in p.kwd_patterns]
            return p
        if isinstance(p, ast.MatchMapping):
            p.patterns = [self._pat(q, guards) for q in p.patterns]
            return p
        return p


DEFAULT_FULL_OPTS = {"getitem": True, "fstring": True, "shims": ("math",), "calls": ()}


class Loader(importlib.machinery.SourceFileLoader):
    def __init__(self, name, path, mode, opts):
        super().__init__(name, path)
        self._mode, self._opts = mode, opts

    def get_code(self, fullname):
        path = self.get_filename(fullname)
        src = self.get_data(path)
        tree = ast.parse(src, path)
        if self._mode == "full":
            tree = FullRewriter(self._opts).visit(tree)
        else:
            tree = IdentityRewriter().visit(tree)
        ast.fix_missing_locations(tree)
        return compile(tree, path, "exec", dont_inherit=True)


class Finder:
    def __init__(self, profile):
        self.identity = profile.get("identity", ())
        self.full = dict(profile.get("full", {})) if isinstance(profile.get("full", {}), dict) else {m: {} for m in profile.get("full", ())}
        self.seen = {}

    def find_spec(self, name, path, target=None):
        if not (name == "xdsl" or name.startswith("xdsl.")):
            return None
        mode = None
        if name in self.full:
            mode = "full"
        elif self.identity == "all" or name in self.identity:
            mode = "identity"
        if mode is None:
            return None
        spec = importlib.machinery.PathFinder.find_spec(name, path)
        if spec is None or spec.origin is None or not spec.origin.endswith(".py"):
            return spec
        opts = dict(DEFAULT_FULL_OPTS)
        opts.update(self.full.get(name) or {})
        spec.loader = Loader(name, spec.origin, mode, opts)
        self.seen[name] = mode
        return spec


FINDER = None


def install(profile):
    """Must run before `import xdsl`."""
    global FINDER
    sys.dont_write_bytecode = True
    if "xdsl" in sys.modules:
        raise RuntimeError("hook.install must run before xdsl is imported")
    if not profile:
        return
    FINDER = Finder(profile)
    sys.meta_path.insert(0, FINDER)


def instrumented_modules():
    return dict(FINDER.seen) if FINDER else {}
