"""Replays a counterexample on the uninstrumented code. Exit 1 = violation reproduced, 0 = not reproduced."""
import importlib
import json
import sys


def main():
    path = sys.argv[1]
    d = json.load(open(path))
    from vx.checks import CHECKS

    info = CHECKS[d["property"]]
    mod = importlib.import_module(info["module"])
    res = mod.replay(d["obligation"], d["inputs"])
    print(json.dumps(res, default=repr)[:2000])
    sys.exit(1 if res.get("violates") else 0)


if __name__ == "__main__":
    main()
