"""Reference interpreter for func/arith/cf/scf(/memref subset) programs over z3 terms.

Written against the MLIR dialect documentation. Control flow on symbolic conditions forks the current
exploration (the same Explorer the code under test runs in), so both sides share one path condition.

Values: ints/index/i1 -> z3 BitVec(W); floats -> z3 FP(sort of the type); memref -> MemRef object.
`defined` accumulates the conjunction of "no UB/poison so far". Effects (external calls, stores, prints)
are appended to `trace` in program order.
"""
from __future__ import annotations

import z3

from . import refsem
from .symfloat import F16, F32, F64, RNE, fpval, fp_same
from .symx import SymBool, Unsupported

from xdsl.dialects import arith, builtin, cf, func, scf
from xdsl.dialects.builtin import (
    Float16Type,
    Float32Type,
    Float64Type,
    FloatAttr,
    IndexType,
    IntegerAttr,
    IntegerType,
)

INDEX_W = 64


class RefUnsupported(Unsupported):
    """The reference semantics has no rule for this op: the obligation is inconclusive."""


class RefFuel(BaseException):
    pass


def width(t):
    if isinstance(t, IntegerType):
        return t.width.data
    if isinstance(t, IndexType):
        return INDEX_W
    raise RefUnsupported(f"width of {t}")


def fsort(t):
    if isinstance(t, Float32Type):
        return F32
    if isinstance(t, Float64Type):
        return F64
    if isinstance(t, Float16Type):
        return F16
    raise RefUnsupported(f"float sort of {t}")


def is_int_type(t):
    return isinstance(t, (IntegerType, IndexType))


def is_float_type(t):
    return isinstance(t, (Float16Type, Float32Type, Float64Type))


def fresh_arg(name, t):
    """a fresh symbolic argument of MLIR type t"""
    if is_int_type(t):
        return z3.BitVec(name, width(t))
    if is_float_type(t):
        return z3.FP(name, fsort(t))
    raise RefUnsupported(f"argument type {t}")


def const_term(attr, t):
    """z3 term of a constant attribute; integer payloads may be SymInt, float payloads SymFloat"""
    from .symfloat import SymFloat
    from .symx import SymInt

    if isinstance(attr, IntegerAttr):
        W = width(t)
        v = attr.value.data
        s = SymInt.lift(v)
        e = s.ext(max(W, s.e.size()))
        return z3.Extract(W - 1, 0, e) if e.size() > W else e
    if isinstance(attr, FloatAttr):
        d = attr.value.data
        sort = fsort(t)
        if isinstance(d, SymFloat):
            return d.e if sort == F64 else z3.fpToFP(RNE, d.e, sort)
        return fpval(float(d), sort)
    raise RefUnsupported(f"constant {attr}")


class Effect:
    __slots__ = ("kind", "terms", "key")

    def __init__(self, kind, key, terms):
        self.kind, self.key, self.terms = kind, key, list(terms)

    def __repr__(self):
        return f"{self.kind}:{self.key}({len(self.terms)})"


class MemRef:
    """a 1-cell-per-index memory: z3 Array from BV64 index tuple (flattened by concatenation) to element"""

    def __init__(self, name, elem_t, rank=1):
        self.name = name
        self.elem_t = elem_t
        self.rank = rank
        dom = z3.BitVecSort(64 * max(rank, 1))
        rng = z3.BitVecSort(width(elem_t)) if is_int_type(elem_t) else fsort(elem_t)
        self.arr = z3.Array(f"mem_{name}", dom, rng)

    def idx(self, ixs):
        if not ixs:
            return z3.BitVecVal(0, 64)
        return z3.Concat(*ixs) if len(ixs) > 1 else ixs[0]


class Ref:
    def __init__(self, module=None, *, fuel=400, call_depth=8, extern=None, loop_bound=64):
        self.module = module
        self.fuel = fuel
        self.call_depth = call_depth
        self.defined = z3.BoolVal(True)
        self.trace: list[Effect] = []
        self.extern = extern  # callable(name, args, result_types, k) -> results, for external functions
        self.ncalls = 0
        self.loop_bound = loop_bound
        self.taint = {}  # SSAValue -> set of {"nsz", "free"}
        self.ret_taint = []

    # ---- helpers
    def _need(self, cond):
        self.defined = z3.And(self.defined, cond)

    def _tick(self):
        self.fuel -= 1
        if self.fuel < 0:
            raise RefFuel("reference interpreter out of fuel")

    def lookup(self, name):
        for op in self.module.walk():
            if isinstance(op, func.FuncOp) and op.sym_name.data == name:
                return op
        raise RefUnsupported(f"no function {name}")

    # ---- entry points
    def call(self, f, args, depth=0):
        if isinstance(f, str):
            f = self.lookup(f)
        if depth > self.call_depth:
            raise RefFuel("call depth")
        if f.is_declaration:
            return self.external_call(f.sym_name.data, args, list(f.function_type.outputs.data))
        return self.run_region(f.body, list(args), depth)

    def external_call(self, name, args, result_types):
        k = self.ncalls
        self.ncalls += 1
        self.trace.append(Effect("call", name, args))
        res = []
        for i, t in enumerate(result_types):
            # uninterpreted: result is a function of the callee, the call ordinal and the arguments
            if is_int_type(t):
                rs = z3.BitVecSort(width(t))
            elif is_float_type(t):
                rs = fsort(t)
            else:
                raise RefUnsupported(f"extern result {t}")
            fsym = z3.Function(f"ext_{name}_{i}", z3.IntSort(), *[a.sort() for a in args], rs)
            res.append(fsym(z3.IntVal(k), *args))
        return res

    def run_region(self, region, args, depth=0):
        """SSACFG region: run from the entry block until a return-like terminator; returns its operands' values"""
        block = region.blocks.first if region.blocks else None
        if block is None:
            return []
        env = {}
        return self._run_from(block, args, env, depth)

    def _run_from(self, block, args, env, depth):
        while True:
            self._tick()
            if len(block.args) != len(args):
                raise RefUnsupported("block argument count mismatch")
            for a, v in zip(block.args, args):
                env[a] = v
            nxt = None
            pending = getattr(self, "_pending_taint", None)
            if pending:
                for a, tset in zip(block.args, pending):
                    if tset:
                        self.taint[a] = set(tset) | self.taint.get(a, set())
            self._pending_taint = None
            for op in block.ops:
                r = self.step(op, env, depth)
                if r is None:
                    continue
                kind, payload = r
                if kind == "return":
                    self.ret_taint = [set(self.taint.get(v, ())) for v in op.operands]
                    return payload
                if kind == "branch":
                    nxt = payload
                    self._pending_taint = self._branch_taints(op, payload[0])
                    break
            if nxt is None:
                raise RefUnsupported("block without terminator")
            block, args = nxt

    def _branch_taints(self, op, target):
        from xdsl.dialects import cf as _cf

        if isinstance(op, _cf.BranchOp):
            return [self.taint.get(v, set()) for v in op.arguments]
        if isinstance(op, _cf.ConditionalBranchOp):
            vals = op.then_arguments if target is op.then_block else op.else_arguments
            return [self.taint.get(v, set()) for v in vals]
        return None

    def _flags(self, op):
        fm = getattr(op, "fastmath", None)
        if fm is None:
            return set()
        return {str(f.value) if hasattr(f, "value") else str(f) for f in fm.data}

    def _float_taint(self, op, result, operands, terms, res_term):
        """fast-math: nnan/ninf make NaN/inf operands or results poison; nsz frees the sign of a zero result;
        reassoc/contract/afn/arcp leave the result unconstrained. Taints propagate to users."""
        flags = self._flags(op)
        t = set()
        for o in operands:
            ot = self.taint.get(o, set())
            if "free" in ot or "nsz" in ot:
                t.add("free")
        if "nnan" in flags:
            for x in list(terms) + ([res_term] if z3.is_fp(res_term) else []):
                if z3.is_fp(x):
                    self._need(z3.Not(z3.fpIsNaN(x)))
        if "ninf" in flags:
            for x in list(terms) + ([res_term] if z3.is_fp(res_term) else []):
                if z3.is_fp(x):
                    self._need(z3.Not(z3.fpIsInf(x)))
        if "nsz" in flags:
            t.add("nsz")
        if flags & {"reassoc", "contract", "afn", "arcp"}:
            t.add("free")
        if t:
            self.taint[result] = t | self.taint.get(result, set())

    def _propagate(self, op):
        """generic taint propagation for non-float ops: a tainted operand makes every result unconstrained"""
        if any(self.taint.get(o) for o in op.operands):
            for r in op.results:
                self.taint[r] = {"free"} | self.taint.get(r, set())

    def val(self, env, v):
        if v not in env:
            # value defined in an enclosing region
            for e in reversed(self._outer):
                if v in e:
                    return e[v]
            raise RefUnsupported("use of undefined value (dominance violated?)")
        return env[v]

    _outer: list = []

    def nested(self, region, args, env, depth):
        self._outer = self._outer + [env]
        try:
            block = region.blocks.first if region.blocks else None
            if block is None:
                return []
            return self._run_from(block, args, {}, depth)
        finally:
            self._outer = self._outer[:-1]

    def fork(self, cond) -> bool:
        return bool(SymBool(z3.simplify(cond)))

    # ---- one op
    def step(self, op, env, depth):
        r = self._step(op, env, depth)
        if r is None and self.taint and not isinstance(op, (arith.SelectOp, arith.CmpfOp, arith.NegfOp)) and op.name not in refsem.FLOAT_BIN:
            self._propagate(op)
        return r

    def _step(self, op, env, depth):
        n = op.name
        V = lambda v: self.val(env, v)  # noqa: E731
        if isinstance(op, arith.ConstantOp):
            env[op.result] = const_term(op.value, op.result.type)
            return None
        if n in refsem.INT_BIN:
            t = op.results[0].type
            W = width(t)
            r, d = refsem.INT_BIN[n](V(op.operands[0]), V(op.operands[1]), W)
            # overflow flags make the result poison on overflow
            ovf = getattr(op, "overflow_flags", None)
            self._need(d)
            if ovf is not None:
                fl = {str(getattr(f, "value", f)) for f in ovf.data}
                a, b = V(op.operands[0]), V(op.operands[1])
                chk = {"arith.addi": (z3.BVAddNoOverflow, z3.BVAddNoUnderflow), "arith.subi": (z3.BVSubNoOverflow, z3.BVSubNoUnderflow),
                       "arith.muli": (z3.BVMulNoOverflow, z3.BVMulNoUnderflow)}.get(n)
                if fl - {"none"}:
                    if chk is None:
                        raise RefUnsupported(f"overflow flags on {n}")
                    if "nsw" in fl:
                        if n == "arith.subi":
                            self._need(z3.And(chk[0](a, b), chk[1](a, b, True)))
                        else:
                            self._need(z3.And(chk[0](a, b, True), chk[1](a, b)))
                    if "nuw" in fl:
                        if n == "arith.subi":
                            self._need(z3.UGE(a, b))
                        else:
                            self._need(chk[0](a, b, False))
            env[op.results[0]] = r
            return None
        if isinstance(op, arith.CmpiOp):
            env[op.result] = refsem.b2bv(refsem.CMPI[op.predicate.value.data](V(op.lhs), V(op.rhs)))
            return None
        if isinstance(op, arith.CmpfOp):
            x, y = V(op.lhs), V(op.rhs)
            env[op.result] = refsem.b2bv(refsem.CMPF[op.predicate.value.data](x, y))
            flags = self._flags(op)
            if "nnan" in flags:
                self._need(z3.And(z3.Not(z3.fpIsNaN(x)), z3.Not(z3.fpIsNaN(y))))
            if "ninf" in flags:
                self._need(z3.And(z3.Not(z3.fpIsInf(x)), z3.Not(z3.fpIsInf(y))))
            t = set()
            if "nsz" in flags:
                t.add("cmp_nsz")  # a select steered by this compare has an insignificant zero sign
            if any("free" in self.taint.get(o, ()) or "nsz" in self.taint.get(o, ()) for o in op.operands):
                t.add("free")
            if t:
                self.taint[op.result] = t
            return None
        if isinstance(op, arith.SelectOp):
            env[op.result] = z3.If(V(op.cond) == 1, V(op.lhs), V(op.rhs))
            t = set()
            ct = self.taint.get(op.cond, set())
            if "free" in ct:
                t.add("free")
            if "cmp_nsz" in ct:
                t.add("nsz")
            for o in (op.lhs, op.rhs):
                t |= {x for x in self.taint.get(o, set()) if x in ("free", "nsz")}
            if t:
                self.taint[op.result] = t
            return None
        if n in refsem.FLOAT_BIN:
            x, y = V(op.operands[0]), V(op.operands[1])
            r = refsem.FLOAT_BIN[n](x, y)
            env[op.results[0]] = r
            self._float_taint(op, op.results[0], op.operands, [x, y], r)
            if n in refsem.ZERO_SIGN_FREE:
                self.taint[op.results[0]] = {"nsz"} | self.taint.get(op.results[0], set())
            return None
        if isinstance(op, arith.NegfOp):
            x = V(op.operands[0])
            env[op.results[0]] = z3.fpNeg(x)
            self._float_taint(op, op.results[0], op.operands, [x], env[op.results[0]])
            return None
        if isinstance(op, arith.ExtSIOp):
            a = V(op.input)
            env[op.result] = z3.SignExt(width(op.result.type) - a.size(), a)
            return None
        if isinstance(op, arith.ExtUIOp):
            a = V(op.input)
            env[op.result] = z3.ZeroExt(width(op.result.type) - a.size(), a)
            return None
        if isinstance(op, arith.TruncIOp):
            env[op.result] = z3.Extract(width(op.result.type) - 1, 0, V(op.input))
            return None
        if isinstance(op, (arith.IndexCastOp,)):
            a = V(op.input)
            W = width(op.result.type)
            env[op.result] = a if W == a.size() else (z3.SignExt(W - a.size(), a) if W > a.size() else z3.Extract(W - 1, 0, a))
            return None
        if n == "arith.index_castui":
            a = V(op.operands[0])
            W = width(op.results[0].type)
            env[op.results[0]] = a if W == a.size() else (z3.ZeroExt(W - a.size(), a) if W > a.size() else z3.Extract(W - 1, 0, a))
            return None
        if isinstance(op, arith.ExtFOp):
            env[op.result] = z3.fpToFP(RNE, V(op.input), fsort(op.result.type))
            return None
        if isinstance(op, arith.TruncFOp):
            env[op.result] = z3.fpToFP(RNE, V(op.input), fsort(op.result.type))
            return None
        if isinstance(op, arith.SIToFPOp):
            env[op.result] = z3.fpSignedToFP(RNE, V(op.input), fsort(op.result.type))
            return None
        if isinstance(op, arith.UIToFPOp):
            env[op.result] = z3.fpUnsignedToFP(RNE, V(op.input), fsort(op.result.type))
            return None
        if isinstance(op, arith.BitcastOp):
            a = V(op.input)
            t = op.result.type
            if z3.is_fp(a) and is_int_type(t):
                self._need(z3.Not(z3.fpIsNaN(a)))  # NaN payload unspecified in the model
                env[op.result] = z3.fpToIEEEBV(a)
            elif z3.is_bv(a) and is_float_type(t):
                env[op.result] = z3.fpBVToFP(a, fsort(t))
            else:
                env[op.result] = a
            return None
        if isinstance(op, func.ReturnOp):
            return ("return", [V(v) for v in op.arguments])

        if isinstance(op, func.CallOp):
            callee = self.lookup(op.callee.string_value())
            res = self.call(callee, [V(v) for v in op.arguments], depth + 1)
            for r, v in zip(op.results, res):
                env[r] = v
            return None
        if isinstance(op, cf.BranchOp):
            return ("branch", (op.successor, [V(v) for v in op.arguments]))
        if isinstance(op, cf.ConditionalBranchOp):
            if self.fork(V(op.cond) == 1):
                return ("branch", (op.then_block, [V(v) for v in op.then_arguments]))
            return ("branch", (op.else_block, [V(v) for v in op.else_arguments]))
        if isinstance(op, scf.YieldOp):
            return ("return", [V(v) for v in op.operands])
        if isinstance(op, scf.IfOp):
            region = op.true_region if self.fork(V(op.cond) == 1) else op.false_region
            res = self.nested(region, [], env, depth) if region.blocks else []
            for r, v in zip(op.results, res):
                env[r] = v
            return None
        if isinstance(op, scf.ForOp):
            lb, ub, st = V(op.lb), V(op.ub), V(op.step)
            self._need(st > 0)  # scf.for: step must be positive, otherwise UB
            iv = lb
            carried = [V(v) for v in op.iter_args]
            trips = 0
            while self.fork(z3.And(st > 0, iv < ub)):
                trips += 1
                if trips > self.loop_bound:
                    raise RefFuel("loop bound")
                carried = self.nested(op.body, [iv] + carried, env, depth)
                # iv + step must not overflow for the loop to be well defined
                self._need(z3.BVAddNoOverflow(iv, st, True))
                iv = iv + st
            for r, v in zip(op.results, carried):
                env[r] = v
            return None
        if isinstance(op, scf.WhileOp):
            carried = [V(v) for v in op.arguments]
            trips = 0
            while True:
                trips += 1
                if trips > self.loop_bound:
                    raise RefFuel("loop bound")
                cond, fwd = self._run_while_before(op.before_region, carried, env, depth)
                if not self.fork(cond == 1):
                    for r, v in zip(op.results, fwd):
                        env[r] = v
                    return None
                carried = self.nested(op.after_region, fwd, env, depth)
        if isinstance(op, scf.ConditionOp):
            return ("return", [V(op.condition)] + [V(v) for v in op.args])
        if n == "memref.store":
            m = V(op.operands[1])
            ixs = [V(v) for v in op.operands[2:]]
            val = V(op.operands[0])
            self.trace.append(Effect("store", m.name, [val] + ixs))
            m.arr = z3.Store(m.arr, m.idx(ixs), val)
            return None
        if n == "memref.load":
            m = V(op.operands[0])
            ixs = [V(v) for v in op.operands[1:]]
            env[op.results[0]] = z3.Select(m.arr, m.idx(ixs))
            return None
        if n in ("memref.alloc", "memref.alloca"):
            k = self.ncalls
            self.ncalls += 1
            t = op.results[0].type
            env[op.results[0]] = MemRef(f"alloc{k}", t.element_type, max(len(t.shape.data), 1))
            return None
        if n == "memref.dealloc":
            self.trace.append(Effect("free", V(op.operands[0]).name, []))  # releasing memory is observable (leak otherwise)
            return None
        if n == "test.pureop":
            # pure, deterministic: results are uninterpreted functions of the operands
            args = [V(v) for v in op.operands]
            for i, r in enumerate(op.results):
                rs = z3.BitVecSort(width(r.type)) if is_int_type(r.type) else fsort(r.type)
                if args:
                    fsym = z3.Function(f"pure_{i}_{len(args)}", *[a.sort() for a in args], rs)
                    env[r] = fsym(*args)
                else:
                    env[r] = z3.Const(f"pure_{i}_0", rs)
            return None
        if n in ("test.op", "test.termop") or n.startswith("printf.") or n == "vector.print" or type(op).__name__ == "UnregisteredOp" or n == "builtin.unregistered":
            # unknown / printing op: an observable effect on its operands; results are uninterpreted
            args = [V(v) for v in op.operands]
            n = getattr(getattr(op, "op_name", None), "data", n)
            self.trace.append(Effect("op", n, [a for a in args if z3.is_expr(a)]))
            if any(s_ for s_ in op.successors) or op.regions:
                raise RefUnsupported(f"unknown op {n} with successors/regions")
            for i, r in enumerate(op.results):
                k = self.ncalls
                self.ncalls += 1
                env[r] = fresh_arg(f"res_{n}_{k}_{i}", r.type)
            return None
        raise RefUnsupported(f"no reference semantics for {n}")

    def _run_while_before(self, region, carried, env, depth):
        res = self.nested(region, carried, env, depth)
        return res[0], res[1:]


def same_values(xs, ys):
    if len(xs) != len(ys):
        return z3.BoolVal(False)
    cs = []
    for a, b in zip(xs, ys):
        if z3.is_fp(a) != z3.is_fp(b) or a.sort() != b.sort():
            return z3.BoolVal(False)
        cs.append(refsem.same(a, b))
    return z3.And(*cs) if cs else z3.BoolVal(True)


def same_trace(t1, t2):
    if len(t1) != len(t2):
        return z3.BoolVal(False)
    cs = []
    for e1, e2 in zip(t1, t2):
        if e1.kind != e2.kind or e1.key != e2.key or len(e1.terms) != len(e2.terms):
            return z3.BoolVal(False)
        cs.append(same_values(e1.terms, e2.terms))
    return z3.And(*cs) if cs else z3.BoolVal(True)
