"""symx core: replay-based symbolic execution of real Python code on proxy values.

Values
  SymBool  - z3 Bool; __bool__ forks the path.
  SymInt   - exact mathematical integer: signed bit-vector wide enough for a tracked interval.
Explorer   - depth-first path exploration by re-running the harness with a decision prefix.

Nothing here is specific to xdsl.
"""
from __future__ import annotations

import time
import z3


class Unsupported(BaseException):
    """The engine cannot model an operation: the path is inconclusive (never silently concretised)."""


class Infeasible(BaseException):
    """The current path condition is unsatisfiable."""


class EngineBug(BaseException):
    """Internal inconsistency of the engine (never attributed to the code under test)."""


class WallTimeout(BaseException):
    """raised by the obligation runner's alarm"""


class Fuel(BaseException):
    """More symbolic decisions than the stated bound on one path (unwinding assertion)."""


def bits_for(lo: int, hi: int) -> int:
    """signed width needed to hold all of [lo, hi]"""
    m = max(-lo - 1, hi, 0)
    return m.bit_length() + 1


def _is_true(e):
    return z3.is_true(e)


def _is_false(e):
    return z3.is_false(e)


class Explorer:
    cur: "Explorer | None" = None

    def __init__(self, max_paths=20000, timeout_ms=20000, fuel=4000, deadline=None):
        self.max_paths = max_paths
        self.timeout_ms = timeout_ms
        self.fuel = fuel
        self.deadline = deadline
        self.queries = 0
        self.solver_time = 0.0
        self.named: dict[str, object] = {}
        self.truncated = False
        self.model = None

    # -- exploration ---------------------------------------------------------------------
    def explore(self, fn):
        """Run fn(self) along every feasible path. Yields Path objects."""
        prefix: list[list] = []
        n = 0
        while True:
            if self.deadline is not None and time.time() > self.deadline:
                self.truncated = True
                return
            Explorer.cur = self
            self.prefix = prefix
            self.trace: list[list] = []
            self.pc: list = []
            self.named = {}
            self.scratch = {}  # per-path memo tables of helper libraries
            self.notes = {}
            self.solver = z3.Solver()
            self.solver.set("timeout", self.timeout_ms)
            self.model = None
            try:
                try:
                    res = ("ok", fn(self))
                except Infeasible:
                    res = ("infeasible", None)
                except Unsupported as e:
                    res = ("unsupported", str(e))
                except Fuel as e:
                    res = ("fuel", str(e))
                except RecursionError as e:
                    res = ("unsupported", "RecursionError")
                except TypeError as e:
                    if "__hash__ method should return an integer" in str(e):
                        res = ("unsupported", "symbolic hash value reached CPython's C-level hash()")
                    elif any(k in str(e) for k in ("SymStr", "SymBytes", "SymInt", "SymBool", "SymFloat", "SymByteArray", "SymRef")):
                        res = ("unsupported", f"a symbolic proxy reached C-level code: {str(e)[:120]}")
                    else:
                        res = ("raise", e)
                except Exception as e:  # the real code raised
                    if type(e).__name__ == "ArgumentError" and "Timeout" in str(e):
                        raise WallTimeout()  # the wall-clock alarm fired inside a z3 callback
                    res = ("raise", e)
            finally:
                Explorer.cur = None
            yield Path(list(self.pc), res[0], res[1], dict(self.named), dict(self.notes), [t[0] for t in self.trace])
            n += 1
            tr = self.trace
            while tr and not tr[-1][1]:
                tr.pop()
            if not tr:
                return
            if n >= self.max_paths:
                self.truncated = True
                return
            last = tr[-1]
            tr[-1] = [last[2], False, None]
            prefix = tr

    # -- solver --------------------------------------------------------------------------
    def check(self, *extra):
        t = time.time()
        self.queries += 1
        r = self.solver.check(*extra)
        self.solver_time += time.time() - t
        if r == z3.sat:
            try:
                self.model = self.solver.model()
            except z3.Z3Exception:
                self.model = None
        return r

    def _model_says(self, cond):
        if self.model is None:
            return None
        try:
            v = self.model.eval(cond, model_completion=True)
        except z3.Z3Exception:
            return None
        if z3.is_true(v):
            return True
        if z3.is_false(v):
            return False
        return None

    def add(self, cond):
        self.solver.add(cond)
        self.pc.append(cond)
        if self.model is not None and self._model_says(cond) is not True:
            self.model = None

    def assume(self, cond):
        if isinstance(cond, SymBool):
            cond = cond.e
        if isinstance(cond, bool):
            if not cond:
                raise Infeasible()
            return
        cond = z3.simplify(cond)
        if z3.is_true(cond):
            return
        if z3.is_false(cond):
            raise Infeasible()
        says = self._model_says(cond)
        self.solver.add(cond)
        self.pc.append(cond)
        if says is True:
            return
        r = self.check()
        if r == z3.unsat:
            raise Infeasible()
        if r != z3.sat:
            raise Unsupported("solver unknown in assume")

    def branch(self, cond) -> bool:
        """Fork on a z3 Bool; returns the side taken on this run."""
        i = len(self.trace)
        if i >= self.fuel:
            raise Fuel(f"more than {self.fuel} symbolic decisions")
        if i < len(self.prefix):
            take = self.prefix[i][0]
            alt = self.prefix[i][1]
            self.trace.append([take, alt, (not take) if alt else None])
        else:
            says = self._model_says(cond)
            if says is True:
                can_t = True
                r = self.check(z3.Not(cond))
                can_f = r == z3.sat
                if r == z3.unknown:
                    raise Unsupported("solver unknown at branch")
            elif says is False:
                can_f = True
                r = self.check(cond)
                can_t = r == z3.sat
                if r == z3.unknown:
                    raise Unsupported("solver unknown at branch")
            else:
                r1 = self.check(cond)
                if r1 == z3.unknown:
                    raise Unsupported("solver unknown at branch")
                can_t = r1 == z3.sat
                if can_t:
                    r2 = self.check(z3.Not(cond))
                    if r2 == z3.unknown:
                        raise Unsupported("solver unknown at branch")
                    can_f = r2 == z3.sat
                else:
                    can_f = True  # pc is satisfiable by invariant
            if can_t and can_f:
                take, alt = True, True
            elif can_t:
                take, alt = True, False
            elif can_f:
                take, alt = False, False
            else:
                raise Infeasible()
            self.trace.append([take, alt, (not take) if alt else None])
        c = cond if take else z3.Not(cond)
        self.add(c)
        return take

    def choose(self, n: int, tag="choice") -> int:
        """Nondeterministic concrete choice in range(n) by forking (enumerated, not symbolic)."""
        for k in range(n - 1):
            b = z3.Bool(f"__{tag}_{len(self.trace)}")
            if self.branch(b):
                return k
        return n - 1

    def name(self, name, term):
        self.named[name] = term
        return term

    def note(self, k, v):
        self.notes[k] = v


class Path:
    __slots__ = ("pc", "kind", "value", "named", "notes", "decisions")

    def __init__(self, pc, kind, value, named, notes, decisions):
        self.pc, self.kind, self.value, self.named, self.notes, self.decisions = pc, kind, value, named, notes, decisions


def cur() -> Explorer:
    ex = Explorer.cur
    if ex is None:
        raise RuntimeError("symbolic value used outside an exploration")
    return ex


# ---------------------------------------------------------------------------------------
class SymBool:
    __slots__ = ("e",)

    def __init__(self, e):
        self.e = e

    def __bool__(self):
        e = z3.simplify(self.e)
        if z3.is_true(e):
            return True
        if z3.is_false(e):
            return False
        return cur().branch(e)

    def __eq__(self, o):
        t = _b(o)
        return NotImplemented if t is None else SymBool(self.e == t)

    def __ne__(self, o):
        t = _b(o)
        return NotImplemented if t is None else SymBool(self.e != t)

    def __and__(self, o):
        t = _b(o)
        if t is None:
            return SymInt.lift(self) & o
        return SymBool(z3.And(self.e, t))

    def __or__(self, o):
        t = _b(o)
        if t is None:
            return SymInt.lift(self) | o
        return SymBool(z3.Or(self.e, t))

    def __xor__(self, o):
        t = _b(o)
        if t is None:
            return SymInt.lift(self) ^ o
        return SymBool(z3.Xor(self.e, t))

    __rand__ = __and__
    __ror__ = __or__
    __rxor__ = __xor__

    def __invert__(self):
        return ~SymInt.lift(self)

    def __hash__(self):
        return hash(bool(self))

    def __index__(self):
        return int(bool(self))

    def __int__(self):
        return int(bool(self))

    def __add__(self, o):
        return SymInt.lift(self) + o

    __radd__ = __add__

    def __sub__(self, o):
        return SymInt.lift(self) - o

    def __rsub__(self, o):
        return o - SymInt.lift(self)

    def __mul__(self, o):
        return SymInt.lift(self) * o

    __rmul__ = __mul__

    def __lt__(self, o):
        return SymInt.lift(self) < o

    def __le__(self, o):
        return SymInt.lift(self) <= o

    def __gt__(self, o):
        return SymInt.lift(self) > o

    def __ge__(self, o):
        return SymInt.lift(self) >= o

    def __repr__(self):
        return f"SymBool({z3.simplify(self.e)})"

    def __format__(self, spec):
        return format(bool(self), spec)


def _b(o):
    if isinstance(o, SymBool):
        return o.e
    if isinstance(o, bool):
        return z3.BoolVal(o)
    return None


def sym_not(x):
    if isinstance(x, SymBool):
        return SymBool(z3.Not(x.e))
    return not x


def as_z3_bool(x):
    if isinstance(x, SymBool):
        return x.e
    if isinstance(x, bool):
        return z3.BoolVal(x)
    if isinstance(x, SymInt):
        return (x != 0).e
    if z3.is_expr(x):
        return x
    if x is None:
        return z3.BoolVal(False)
    return z3.BoolVal(bool(x))


# ---------------------------------------------------------------------------------------
CONCRETIZE_LIMIT = 64
FORMAT_LIMIT = [CONCRETIZE_LIMIT]  # ranges wider than this render as TaintedStr instead of forking (checks may lower it)


class SymInt:
    """Exact mathematical integer, represented as signed bit-vector wide enough for [lo, hi]."""

    __slots__ = ("e", "lo", "hi", "_negof")

    def __init__(self, e, lo, hi):
        self.e, self.lo, self.hi = e, lo, hi

    # construction
    @staticmethod
    def var(name, lo, hi) -> "SymInt":
        ex = cur()
        w = bits_for(lo, hi)
        v = z3.BitVec(name, w)
        ex.named[name] = SymInt(v, lo, hi)
        c = []
        if lo != -(1 << (w - 1)):
            c.append(v >= lo)
        if hi != (1 << (w - 1)) - 1:
            c.append(v <= hi)
        if c:
            ex.add(z3.And(*c) if len(c) > 1 else c[0])
        return SymInt(v, lo, hi)

    @staticmethod
    def lift(o) -> "SymInt":
        if type(o) is SymInt:
            return o
        if isinstance(o, bool):
            o = int(o)
        if isinstance(o, int):
            return SymInt(z3.BitVecVal(o, bits_for(o, o)), o, o)
        if isinstance(o, SymBool):
            return SymInt(z3.If(o.e, z3.BitVecVal(1, 2), z3.BitVecVal(0, 2)), 0, 1)
        raise Unsupported(f"lift to int: {type(o).__name__}")

    @staticmethod
    def from_bv(bv, signed=True) -> "SymInt":
        """interpret a z3 bit-vector term as a python int"""
        w = bv.size()
        if signed:
            return SymInt(bv, -(1 << (w - 1)), (1 << (w - 1)) - 1)
        return SymInt(z3.ZeroExt(1, bv), 0, (1 << w) - 1)

    def ext(self, w):
        d = w - self.e.size()
        if d == 0:
            return self.e
        if d > 0:
            return z3.SignExt(d, self.e)
        return z3.Extract(w - 1, 0, self.e)

    def bits(self, w):
        """low w bits of the two's complement representation (exact python semantics of x & (2**w-1))"""
        return self.ext(w)

    def tighten_hi(self, candidates):
        """use the path condition to find a smaller sound upper bound among candidates"""
        ex = cur()
        for k in candidates:
            if k >= self.hi:
                break
            if ex.check((self > k).e) == z3.unsat:
                return SymInt(self.e, min(self.lo, k), k)
        return self

    def is_const(self):
        return self.lo == self.hi

    def bit_count(self):
        """int.bit_count: number of ones in |x| (forks on the sign)"""
        if self.is_const():
            return self.lo.bit_count()
        a = -self if bool(self < 0) else self
        w = a.e.size()
        ow = max(2, w.bit_length() + 2)
        tot = z3.BitVecVal(0, ow)
        for i in range(w - 1):  # the top bit is the (zero) sign
            tot = tot + z3.ZeroExt(ow - 1, z3.Extract(i, i, a.e))
        return _mk(tot, 0, max(a.hi, 0).bit_length())

    # arithmetic
    def _bin(self, o, f, rng):
        try:
            o = SymInt.lift(o)
        except Unsupported:
            return NotImplemented
        lo, hi = rng(self.lo, self.hi, o.lo, o.hi)
        w = max(bits_for(lo, hi), self.e.size(), o.e.size())
        return _mk(f(self.ext(w), o.ext(w)), lo, hi)

    def __add__(self, o):
        return self._bin(o, lambda a, b: a + b, lambda a, b, c, d: (a + c, b + d))

    __radd__ = __add__

    def __sub__(self, o):
        return self._bin(o, lambda a, b: a - b, lambda a, b, c, d: (a - d, b - c))

    def __rsub__(self, o):
        return SymInt.lift(o).__sub__(self)

    def __neg__(self):
        back = getattr(self, "_negof", None)
        if back is not None:
            return back  # -(-x) is x, syntactically (keeps provenance tables of the text library effective)
        r = SymInt.lift(0) - self
        try:
            r._negof = self
        except AttributeError:
            pass
        return r

    def __pos__(self):
        return self

    def __mul__(self, o):
        def rng(a, b, c, d):
            ps = [a * c, a * d, b * c, b * d]
            return min(ps), max(ps)

        if isinstance(o, int) and not isinstance(o, bool):
            if o == 1:
                return self
            if o == -1:
                return -self  # 0 - x is much cheaper for the solver than a multiplication by the all-ones constant
        return self._bin(o, lambda a, b: a * b, rng)

    __rmul__ = __mul__

    def __and__(self, o):
        k = _mask_bits(o)
        if k is not None:
            return _mk(z3.ZeroExt(1, self.ext(k)), 0, (1 << k) - 1)

        def rng(a, b, c, d):
            if c >= 0 and a >= 0:
                return 0, min(b, d)
            if c >= 0:
                return 0, d
            if a >= 0:
                return 0, b
            w = max(bits_for(a, b), bits_for(c, d))
            return -(1 << (w - 1)), (1 << (w - 1)) - 1

        return self._bin(o, lambda a, b: a & b, rng)

    __rand__ = __and__

    @staticmethod
    def _bitrng(a, b, c, d):
        w = max(bits_for(a, b), bits_for(c, d))
        if a >= 0 and c >= 0:
            return 0, (1 << (w - 1)) - 1
        return -(1 << (w - 1)), (1 << (w - 1)) - 1

    def __or__(self, o):
        return self._bin(o, lambda a, b: a | b, SymInt._bitrng)

    __ror__ = __or__

    def __xor__(self, o):
        return self._bin(o, lambda a, b: a ^ b, SymInt._bitrng)

    __rxor__ = __xor__

    def __invert__(self):
        return _mk(~self.e, -self.hi - 1, -self.lo - 1)

    def __abs__(self):
        if self.lo >= 0:
            return self
        m = max(abs(self.lo), abs(self.hi))
        w = max(bits_for(0, m), self.e.size())
        x = self.ext(w)
        return _mk(z3.If(x < 0, -x, x), 0, m)

    def __lshift__(self, o):
        try:
            o = SymInt.lift(o)
        except Unsupported:
            return NotImplemented
        if o.lo < 0:
            if bool(o < 0):
                raise ValueError("negative shift count")
            o = SymInt(o.e, 0, o.hi)
        if o.lo == o.hi:
            k = o.lo
            lo, hi = self.lo << k, self.hi << k
            w = bits_for(lo, hi)
            return _mk(self.ext(w) << k, lo, hi)
        if o.hi > 64:
            o = o.tighten_hi((64, 128, 512))
        if o.hi > 512:
            raise Unsupported("symbolic shift amount too large")
        lo, hi = min(self.lo, self.lo << o.hi), max(self.hi, self.hi << o.hi)
        w = max(bits_for(lo, hi), o.e.size() + 1)
        return _mk(self.ext(w) << o.ext(w), lo, hi)

    def __rlshift__(self, o):
        return SymInt.lift(o).__lshift__(self)

    def __rshift__(self, o):
        try:
            o = SymInt.lift(o)
        except Unsupported:
            return NotImplemented
        if o.lo < 0:
            if bool(o < 0):
                raise ValueError("negative shift count")
            o = SymInt(o.e, 0, o.hi)
        w = max(self.e.size(), o.e.size() + 1)
        lo = min(self.lo >> o.lo, self.lo >> o.hi)
        hi = max(self.hi >> o.lo, self.hi >> o.hi)
        return _mk(self.ext(w) >> o.ext(w), lo, hi)

    def __rrshift__(self, o):
        return SymInt.lift(o).__rshift__(self)

    def _divmod(self, o):
        o = SymInt.lift(o)
        if o.lo <= 0 <= o.hi:
            if bool(o == 0):
                raise ZeroDivisionError("integer division or modulo by zero")
        m = max(abs(self.lo), abs(self.hi), abs(o.lo), abs(o.hi))
        if self.lo >= 0 and o.lo >= 0:
            # both non-negative: floor == trunc, unsigned division without adjustment
            w = bits_for(0, m)
            a, b = self.ext(w), o.ext(w)
            return z3.UDiv(a, b), z3.URem(a, b), 0, self.hi, o
        w = bits_for(-m - 1, m + 1) + 1
        a, b = self.ext(w), o.ext(w)
        q = a / b  # bvsdiv, truncating
        r = z3.SRem(a, b)
        adj = z3.And(r != 0, (r < 0) != (b < 0))
        fq = z3.If(adj, q - 1, q)
        fr = z3.If(adj, r + b, r)
        return fq, fr, -m - 1, m + 1, o

    def __floordiv__(self, o):
        if not isinstance(o, (int, SymInt, SymBool)):
            return NotImplemented
        k = _pow2(o)
        if k is not None:
            return self >> k
        fq, fr, qlo, qhi, o = self._divmod(o)
        return _mk(fq, qlo, qhi)

    def __rfloordiv__(self, o):
        return SymInt.lift(o).__floordiv__(self)

    def __mod__(self, o):
        if not isinstance(o, (int, SymInt, SymBool)):
            return NotImplemented
        k = _pow2(o)
        if k is not None:
            if k == 0:
                return SymInt.lift(0)
            return _mk(z3.ZeroExt(1, self.ext(k)), 0, (1 << k) - 1)
        fq, fr, qlo, qhi, o = self._divmod(o)
        lo = o.lo + 1 if o.lo < 0 else 0
        hi = o.hi - 1 if o.hi > 0 else 0
        return _mk(fr, min(lo, 0), max(hi, 0))

    def __rmod__(self, o):
        return SymInt.lift(o).__mod__(self)

    def __divmod__(self, o):
        return self // o, self % o

    def __rdivmod__(self, o):
        o = SymInt.lift(o)
        return o // self, o % self

    def __pow__(self, o, mod=None):
        if isinstance(o, int) and mod is None and 0 <= o <= 4:
            r = SymInt.lift(1)
            for _ in range(o):
                r = r * self
            return r
        raise Unsupported("pow on symbolic int")

    def __rpow__(self, o):
        if o == 2:
            return SymInt.lift(1) << self
        raise Unsupported("rpow with symbolic exponent")

    def __truediv__(self, o):
        from .symfloat import int_truediv

        return int_truediv(self, o)

    def __rtruediv__(self, o):
        from .symfloat import int_truediv

        return int_truediv(o, self)

    # comparison
    def _cmp(self, o, f, decided=None):
        o = SymInt.lift(o)
        if decided is not None:
            d = decided(self.lo, self.hi, o.lo, o.hi)  # the sound intervals may already decide the comparison
            if d is not None:
                return SymBool(z3.BoolVal(d))
        w = max(self.e.size(), o.e.size())
        return SymBool(f(self.ext(w), o.ext(w)))

    def __lt__(self, o):
        if not isinstance(o, (int, SymInt, SymBool)):
            return NotImplemented
        return self._cmp(o, lambda a, b: a < b, lambda a, b, c, d: True if b < c else (False if a >= d else None))

    def __le__(self, o):
        if not isinstance(o, (int, SymInt, SymBool)):
            return NotImplemented
        return self._cmp(o, lambda a, b: a <= b, lambda a, b, c, d: True if b <= c else (False if a > d else None))

    def __gt__(self, o):
        if not isinstance(o, (int, SymInt, SymBool)):
            return NotImplemented
        return self._cmp(o, lambda a, b: a > b, lambda a, b, c, d: True if a > d else (False if b <= c else None))

    def __ge__(self, o):
        if not isinstance(o, (int, SymInt, SymBool)):
            return NotImplemented
        return self._cmp(o, lambda a, b: a >= b, lambda a, b, c, d: True if a >= d else (False if b < c else None))

    def __eq__(self, o):
        if not isinstance(o, (int, SymInt, SymBool)):
            return NotImplemented
        return self._cmp(o, lambda a, b: a == b, lambda a, b, c, d: False if (b < c or a > d) else (True if a == b == c == d else None))

    def __ne__(self, o):
        if not isinstance(o, (int, SymInt, SymBool)):
            return NotImplemented
        return self._cmp(o, lambda a, b: a != b, lambda a, b, c, d: True if (b < c or a > d) else (False if a == b == c == d else None))

    def __bool__(self):
        return bool(self != 0)

    # C boundaries: concretise by forking (exhaustive) when the range is small
    def concretize(self) -> int:
        e = z3.simplify(self.e)
        if z3.is_bv_value(e):
            return e.as_signed_long()
        ex = cur()
        # tighten with the solver-independent interval first
        if self.hi - self.lo + 1 > CONCRETIZE_LIMIT:
            # try: maybe the path condition pins the value anyway
            r = ex.check()
            if r == z3.sat:
                v = ex.model.eval(self.e, model_completion=True).as_signed_long()
                if ex.check(self.e != v) == z3.unsat:
                    return v
            raise Unsupported(f"concretise int with range [{self.lo},{self.hi}]")
        for v in range(self.lo, self.hi):
            if bool(self == v):
                return v
        return self.hi

    def __index__(self):
        return self.concretize()

    def __int__(self):
        return self.concretize()

    def __hash__(self):
        return hash(self.concretize())

    def __float__(self):
        return float(self.concretize())

    def bit_length(self):
        a = abs(self)
        n = bits_for(0, a.hi)
        r = SymInt.lift(0)
        e = z3.BitVecVal(0, 16)
        x = a.ext(max(a.e.size(), n))
        for k in range(n):
            e = z3.If(z3.Extract(k, k, x) == 1, z3.BitVecVal(k + 1, 16), e)
        return _mk(e, 0, n)

    def __repr__(self):
        e = z3.simplify(self.e)
        if z3.is_bv_value(e):
            return str(e.as_signed_long())
        return f"SymInt<{self.lo}..{self.hi}>"

    def __format__(self, spec):
        if self.hi - self.lo + 1 > FORMAT_LIMIT[0] and not z3.is_bv_value(z3.simplify(self.e)):
            return TaintedStr("\u27e6symbolic int\u27e7")
        return format(self.concretize(), spec)

    def __str__(self):
        if self.hi - self.lo + 1 > FORMAT_LIMIT[0] and not z3.is_bv_value(z3.simplify(self.e)):
            return TaintedStr("\u27e6symbolic int\u27e7")
        return str(self.concretize())

    def __round__(self, n=None):
        return self

    def __trunc__(self):
        return self

    def __floor__(self):
        return self

    def __ceil__(self):
        return self

    def to_bytes(self, *a, **k):
        if not self.is_const() and (a[:1] == (1,) or k.get("length") == 1) and self.lo >= 0 and self.hi <= 255:
            from .symstr import SymBytes

            return SymBytes([self])
        return self.concretize().to_bytes(*a, **k)


def _pow2(o):
    """k if o is the concrete int 2**k else None"""
    if isinstance(o, SymInt):
        if o.lo != o.hi:
            return None
        o = o.lo
    if isinstance(o, bool) or not isinstance(o, int):
        return None
    if o > 0 and o & (o - 1) == 0:
        return o.bit_length() - 1
    return None


def _mask_bits(o):
    """k if o is the concrete int 2**k - 1 (k >= 1) else None"""
    if isinstance(o, SymInt):
        if o.lo != o.hi:
            return None
        o = o.lo
    if isinstance(o, bool) or not isinstance(o, int):
        return None
    if o > 0 and o & (o + 1) == 0:
        return o.bit_length()
    return None


def _mk(e, lo, hi):
    need = bits_for(lo, hi)
    if need > e.size():
        raise EngineBug(("range does not fit", need, e.size(), lo, hi))
    e2 = z3.simplify(e)
    if z3.is_bv_value(e2):
        v = e2.as_signed_long()
        return SymInt(e2, v, v)
    return SymInt(e, lo, hi)


class TaintedStr(str):
    """Text rendered from a wide symbolic value (only meaningful inside diagnostics). Any semantic use traps."""

    def _trap(self, *a, **k):
        raise Unsupported("text rendered from a wide symbolic value was inspected")

    __eq__ = __ne__ = __lt__ = __le__ = __gt__ = __ge__ = _trap
    __contains__ = __getitem__ = __iter__ = _trap
    encode = startswith = endswith = split = strip = find = index = isdigit = isalpha = _trap

    def __hash__(self):
        raise Unsupported("hash of text rendered from a wide symbolic value")

    def __add__(self, o):
        return TaintedStr(str.__add__(self, o))

    def __radd__(self, o):
        return TaintedStr(str.__add__(o, self))

    def __format__(self, spec):
        return TaintedStr(str.__str__(self))

    def __str__(self):
        return self


def is_sym(x):
    return isinstance(x, (SymInt, SymBool))


def ite_int(c, a, b) -> SymInt:
    """if-then-else on SymInt/int values with a z3 Bool condition"""
    a, b = SymInt.lift(a), SymInt.lift(b)
    w = max(a.e.size(), b.e.size())
    return _mk(z3.If(c, a.ext(w), b.ext(w)), min(a.lo, b.lo), max(a.hi, b.hi))


def z3_of_int(x, w):
    """w-bit two's complement pattern of python int / SymInt"""
    return SymInt.lift(x).ext(w)


def eval_model(model, term):
    v = model.eval(term, model_completion=True)
    if z3.is_bv_value(v):
        return v.as_signed_long()
    if z3.is_int_value(v):
        return v.as_long()
    if z3.is_true(v):
        return True
    if z3.is_false(v):
        return False
    if z3.is_fp(v):
        # return the IEEE bit pattern as int (NaN -> canonical quiet NaN)
        bv = model.eval(z3.fpToIEEEBV(v), model_completion=True)
        if z3.is_bv_value(bv):
            return {"fp_bits": bv.as_long(), "w": bv.size()}
    return str(v)
