"""Symbolic translation validation helpers (mode M3): build small programs from specs (constants may be
symbolic), give before/after programs meaning with the reference interpreter, return the refinement term."""
from __future__ import annotations

import z3

from . import refprog, refsem, util
from .refprog import Ref, RefFuel, RefUnsupported
from .symfloat import F32, F64, SymFloat
from .symx import SymInt, Unsupported

from xdsl.dialects import arith, builtin, func
from xdsl.dialects.builtin import FloatAttr, FloatData, IndexType, IntegerAttr, IntegerType, ModuleOp, f32, f64, i1
from xdsl.ir import Block, Region


class InvalidIR(Exception):
    """the transformed program is not valid IR / not executable by the reference semantics"""


TYPES = {"i1": IntegerType(1), "i8": IntegerType(8), "i16": IntegerType(16), "i32": IntegerType(32), "i64": IntegerType(64),
         "index": IndexType(), "f32": f32, "f64": f64}


def ty(name):
    return TYPES[name]


def sym_const(name, tname, pin=None):
    """a symbolic payload for a constant of the given type (ints: canonical signed range)"""
    t = ty(tname)
    if refprog.is_int_type(t):
        W = refprog.width(t)
        return SymInt.var(name, -(1 << (W - 1)), (1 << (W - 1)) - 1)
    return SymFloat.var_bits(name, refprog.fsort(t))


def const_attr(payload, tname):
    t = ty(tname)
    if refprog.is_int_type(t):
        return IntegerAttr(payload, t)
    if isinstance(payload, SymFloat):
        # bypass struct packing: the payload is already exactly representable in the type (var_bits)
        attr = FloatAttr.__new__(FloatAttr)
        object.__setattr__(attr, "value", FloatData(payload))
        object.__setattr__(attr, "type", t)
        return attr
    return FloatAttr(payload, t)


_ARITH = {}


def op_class(name):
    if not _ARITH:
        for c in arith.Arith.operations:
            _ARITH[c.name] = c
    return _ARITH[name]


FASTMATH = {"none": arith.FastMathFlagsAttr("none"), "fast": arith.FastMathFlagsAttr("fast"),
            "nnan": arith.FastMathFlagsAttr([arith.FastMathFlag.NO_NANS]), "nsz": arith.FastMathFlagsAttr([arith.FastMathFlag.NO_SIGNED_ZEROS]),
            "nnan,nsz": arith.FastMathFlagsAttr([arith.FastMathFlag.NO_NANS, arith.FastMathFlag.NO_SIGNED_ZEROS]),
            "reassoc": arith.FastMathFlagsAttr([arith.FastMathFlag.REASSOC])}


def build_func(spec, payloads):
    """spec: {"args": [tname...], "ops": [(res, opname, [operand names], opts)], "ret": [names]}
    operand names: a0,a1.. for arguments, result names, opts: dict(type=, pred=, fastmath=, const=payload-name, overflow=)"""
    arg_types = [ty(t) for t in spec["args"]]
    blk = Block(arg_types=arg_types)
    env = {f"a{i}": a for i, a in enumerate(blk.args)}
    ops = []
    for res, opname, operands, opts in spec["ops"]:
        vals = [env[o] for o in operands]
        if opname == "arith.constant":
            op = arith.ConstantOp(const_attr(payloads[opts["const"]], opts["type"]), ty(opts["type"]))
        elif opname == "arith.cmpi":
            op = arith.CmpiOp(vals[0], vals[1], opts["pred"])
        elif opname == "arith.cmpf":
            op = arith.CmpfOp(vals[0], vals[1], opts["pred"], FASTMATH[opts.get("fastmath", "none")])
        elif opname == "arith.select":
            op = arith.SelectOp(vals[0], vals[1], vals[2])
        elif opname in ("arith.extsi", "arith.extui", "arith.trunci", "arith.index_cast", "arith.extf", "arith.truncf", "arith.sitofp", "arith.uitofp", "arith.fptosi", "arith.fptoui", "arith.bitcast"):
            op = op_class(opname)(vals[0], ty(opts["type"]))
        elif opname == "arith.negf":
            op = arith.NegfOp(vals[0], FASTMATH[opts.get("fastmath", "none")]) if "fastmath" in opts else arith.NegfOp(vals[0])
        elif opname in refsem.FLOAT_BIN:
            cls = op_class(opname)
            op = cls(vals[0], vals[1], FASTMATH[opts["fastmath"]]) if opts.get("fastmath") else cls(vals[0], vals[1])
        elif opname in refsem.INT_BIN:
            cls = op_class(opname)
            if opts.get("overflow"):
                op = cls(vals[0], vals[1], None, arith.IntegerOverflowAttr([arith.IntegerOverflowFlag(opts["overflow"])]))
            else:
                op = cls(vals[0], vals[1])
        else:
            raise KeyError(opname)
        ops.append(op)
        env[res] = op.results[0]
    rets = [env[r] for r in spec["ret"]]
    ops.append(func.ReturnOp(*rets))
    blk.add_ops(ops)
    f = func.FuncOp("f", (arg_types, [r.type for r in rets]), Region(blk))
    return ModuleOp([f]), f


def arg_terms(f, prefix="x"):
    from .symx import Explorer

    terms = []
    for i, t in enumerate(f.function_type.inputs.data):
        term = refprog.fresh_arg(f"{prefix}{i}", t)
        terms.append(term)
        if Explorer.cur is not None:
            # integer arguments are registered as (signed) SymInt views so that known-finding regions can be written over them
            Explorer.cur.named[f"{prefix}{i}"] = SymInt.from_bv(term) if z3.is_bv(term) else term
    return terms


def meaning(module, fname, args, **kw):
    ref = Ref(module, **kw)
    f = None
    for op in module.walk():
        if isinstance(op, func.FuncOp) and op.sym_name.data == fname:
            f = op
    if f is None:
        raise InvalidIR(f"function {fname} disappeared")
    res = ref.call(f, args)
    return res, ref.defined, ref.trace, ref


def refinement(before, after, tainted=()):
    """before/after: (results, defined, trace, ref). Where the source is defined the target is defined and agrees."""
    rb, db, tb, refb = before
    ra, da, ta, _ = after
    if len(rb) != len(ra):
        return z3.BoolVal(False)
    same = []
    taints = refb.ret_taint if len(refb.ret_taint) == len(rb) else [set()] * len(rb)
    if rb and all("free" in t for t in taints) and not tb:
        # every result of the source is unconstrained under its own fast-math flags (reassoc/contract/afn/arcp):
        # any value (and any poison introduced by re-association) is a permitted outcome
        return z3.BoolVal(True)
    for i, (x, y) in enumerate(zip(rb, ra)):
        if i in tainted or "free" in taints[i]:
            continue  # fast-math (reassoc/contract/...) leaves the source's own result unconstrained
        if x.sort() != y.sort():
            return z3.BoolVal(False)
        if "nsz" in taints[i] and z3.is_fp(x):
            same.append(z3.Or(refsem.same(x, y), z3.And(z3.fpIsZero(x), z3.fpIsZero(y))))
        else:
            same.append(refsem.same(x, y))
    return z3.Implies(db, z3.And(da, refprog.same_trace(tb, ta), *same))


def concrete_args(f, inputs, prefix="x"):
    """model values -> constant z3 terms for the function arguments"""
    out = []
    for i, t in enumerate(f.function_type.inputs.data):
        v = inputs.get(f"{prefix}{i}", 0)
        if refprog.is_int_type(t):
            out.append(z3.BitVecVal(v, refprog.width(t)))
        else:
            out.append(util.fp_const(util.float_from_input(v), refprog.fsort(t)))
    return out


def concrete_payload(v, tname):
    t = ty(tname)
    if refprog.is_int_type(t):
        return int(v)
    return util.float_from_input(v)
