"""Drop-in containers for the private state of data structures under test.

SymList - concrete length; cells may be symbolic; index may be symbolic (ite-merge when all cells are ints,
          otherwise the index is concretised by forking, which is exhaustive).
SymDict - insertion-ordered association list whose keys are compared with `==` (forking on symbolic keys).
"""
from __future__ import annotations

import z3

from . import hook, symx
from .symx import SymBool, SymInt, Unsupported, ite_int

_INTLIKE = (int, SymInt, SymBool)


class SymList:
    def __init__(self, items=()):
        self.items = list(items)

    def __len__(self):
        return len(self.items)

    def __bool__(self):
        return bool(self.items)

    def __iter__(self):
        return iter(list(self.items))

    def _all_int(self):
        return all(isinstance(x, _INTLIKE) and not isinstance(x, bool) or isinstance(x, bool) for x in self.items)

    def _conc_index(self, i):
        n = len(self.items)
        if isinstance(i, SymInt):
            if bool((i < -n) | (i >= n)):
                raise IndexError("list index out of range")
            for k in range(-n, n):
                if bool(i == k):
                    return k
            raise symx.Infeasible()
        return i

    def __getitem__(self, i):
        if isinstance(i, slice):
            return SymList(self.items[i])
        if isinstance(i, SymInt):
            n = len(self.items)
            if bool((i < -n) | (i >= n)):
                raise IndexError("list index out of range")
            if n and self._all_int() and i.lo >= 0:
                r = self.items[-1]
                for k in range(n - 2, -1, -1):
                    r = ite_int((i == k).e, self.items[k], r)
                return r
            return self.items[self._conc_index(i)]
        return self.items[i]

    def __setitem__(self, i, v):
        if isinstance(i, SymInt):
            n = len(self.items)
            if bool((i < -n) | (i >= n)):
                raise IndexError("list assignment index out of range")
            if self._all_int() and isinstance(v, _INTLIKE) and i.lo >= 0:
                for k in range(n):
                    self.items[k] = ite_int((i == k).e, v, self.items[k])
                return
            self.items[self._conc_index(i)] = v
            return
        self.items[i] = v

    def append(self, v):
        self.items.append(v)

    def pop(self, i=-1):
        if not self.items:
            raise IndexError("pop from empty list")
        return self.items.pop(self._conc_index(i))

    def extend(self, it):
        self.items.extend(it)

    def index(self, v):
        for k, x in enumerate(self.items):
            if bool(x == v):
                return k
        raise ValueError("not in list")

    def __contains__(self, v):
        for x in self.items:
            if bool(x == v):
                return True
        return False

    def __eq__(self, o):
        if isinstance(o, (list, SymList)):
            o = o.items if isinstance(o, SymList) else o
            if len(o) != len(self.items):
                return False
            return all(bool(a == b) for a, b in zip(self.items, o))
        return NotImplemented

    def copy(self):
        return SymList(self.items)

    def __repr__(self):
        return f"SymList({self.items!r})"


hook.EXEMPLAR[SymList] = lambda o: []

_MISSING = object()


class SymDict:
    def __init__(self, entries=()):
        self.entries = [list(e) for e in (entries.items() if hasattr(entries, "keys") else entries)]

    def _find(self, key):
        for k, e in enumerate(self.entries):
            r = e[0] == key
            if r is NotImplemented:
                r = e[0] is key
            if bool(r):
                return k
        return -1

    def __contains__(self, key):
        return self._find(key) >= 0

    def __getitem__(self, key):
        k = self._find(key)
        if k < 0:
            raise KeyError(key)
        return self.entries[k][1]

    def get(self, key, default=None):
        k = self._find(key)
        return default if k < 0 else self.entries[k][1]

    def __setitem__(self, key, value):
        k = self._find(key)
        if k < 0:
            self.entries.append([key, value])
        else:
            self.entries[k][1] = value

    def __delitem__(self, key):
        k = self._find(key)
        if k < 0:
            raise KeyError(key)
        del self.entries[k]

    def pop(self, key, default=_MISSING):
        k = self._find(key)
        if k < 0:
            if default is _MISSING:
                raise KeyError(key)
            return default
        v = self.entries[k][1]
        del self.entries[k]
        return v

    def setdefault(self, key, default=None):
        k = self._find(key)
        if k < 0:
            self.entries.append([key, default])
            return default
        return self.entries[k][1]

    def __len__(self):
        return len(self.entries)

    def __bool__(self):
        return bool(self.entries)

    def __iter__(self):
        return iter([e[0] for e in self.entries])

    def keys(self):
        return _Keys(self, [e[0] for e in self.entries])

    def values(self):
        return [e[1] for e in self.entries]

    def items(self):
        return [(e[0], e[1]) for e in self.entries]

    def copy(self):
        return SymDict(self.entries)

    def __or__(self, other):
        r = SymDict(self.entries)
        r.update(other)
        return r

    def __ror__(self, other):
        r = SymDict(other)
        r.update(self)
        return r

    def __ior__(self, other):
        self.update(other)
        return self

    def __eq__(self, other):
        if not hasattr(other, "items") or len(other) != len(self):
            return False
        return all(k in other and bool(other[k] == v) for k, v in self.items())

    __hash__ = None

    def update(self, other):
        for k, v in (other.items() if hasattr(other, "items") else other):
            self[k] = v

    def clear(self):
        self.entries = []

    def __repr__(self):
        return f"SymDict({self.entries!r})"


class _Keys(list):
    """dict.keys() of a list-backed dictionary: a list that also answers the set operations of a keys view (membership by ==)"""

    def __init__(self, d, ks):
        super().__init__(ks)
        self._d = d

    def __contains__(self, k):
        return k in self._d

    def __and__(self, other):
        return [k for k in self if k in other]

    def __rand__(self, other):
        return [k for k in other if k in self._d]

    def __sub__(self, other):
        return [k for k in self if k not in other]

    def __rsub__(self, other):
        return [k for k in other if k not in self._d]

    def __or__(self, other):
        return list(self) + [k for k in other if k not in self._d]

    __ror__ = __or__

    def isdisjoint(self, other):
        return not any(k in self._d for k in other)


hook.EXEMPLAR[SymDict] = lambda o: {}
