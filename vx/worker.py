"""Worker process: reads obligations (one JSON per line) on stdin, writes one JSON result per line on stdout.
Started as a fresh interpreter (no fork), so no lock can be inherited from a threaded parent."""
import json
import os
import sys


def main():
    prop, tier = sys.argv[1], sys.argv[2]
    out = os.fdopen(os.dup(1), "w")  # private copy of stdout for the protocol
    os.dup2(2, 1)  # anything the code under test prints goes to stderr
    from vx.checks import CHECKS
    from vx import hook

    info = CHECKS[prop]
    hook.install(info.get("instrument", {}))
    import importlib

    from vx import framework

    importlib.import_module(info["module"])
    out.write("READY\n")
    out.flush()
    for line in sys.stdin:
        line = line.strip()
        if not line:
            continue
        if line == "QUIT":
            break
        ob = json.loads(line)
        r = framework.run_obligation((prop, info["module"], ob, tier))
        out.write(json.dumps(r, default=repr) + "\n")
        out.flush()


if __name__ == "__main__":
    main()
