"""x86-64 reference machine (integer subset the xDSL backend emits) over z3 terms, written against the
Intel SDM semantics of mov/add/sub/imul/and/or/xor/neg/not/inc/dec/lea/push/pop. Executes x86-dialect ops
on a 64-bit register file + byte-addressed memory; each op reads the registers named by its operand types
and writes those named by its result types. Registers narrower than 64 bit (e.g. eax) alias the low bits."""
from __future__ import annotations

import z3

from vx import symx

from .symx import SymInt, Unsupported


class X86Unsupported(Unsupported):
    pass


CALLEE_SAVED = ["rbx", "rbp", "r12", "r13", "r14", "r15"]
ARG_REGS = ["rdi", "rsi", "rdx", "rcx", "r8", "r9"]
_SUB32 = {"eax": "rax", "ebx": "rbx", "ecx": "rcx", "edx": "rdx", "esi": "rsi", "edi": "rdi", "ebp": "rbp", "esp": "rsp"}
for _i in range(8, 16):
    _SUB32[f"r{_i}d"] = f"r{_i}"


def reg_of(t):
    n = getattr(t, "register_name", None)
    name = n.data if hasattr(n, "data") else (str(n) if n is not None else "")
    if name == "":
        raise X86Unsupported("unallocated x86 register")
    return name


class Machine:
    def __init__(self, prefix="x"):
        self.r = {}
        self.init = {}
        self.prefix = prefix
        self.mem = z3.Array(f"{prefix}_mem", z3.BitVecSort(64), z3.BitVecSort(8))
        self.written = set()

    def _full(self, name):
        return _SUB32.get(name, name), (32 if name in _SUB32 else 64)

    def get(self, name):
        full, w = self._full(name)
        if full not in self.r:
            v = z3.BitVec(f"{self.prefix}_{full}", 64)
            self.r[full] = v
            self.init[full] = v
        v = self.r[full]
        return v if w == 64 else z3.Extract(31, 0, v)

    def set(self, name, val):
        full, w = self._full(name)
        self.get(full)
        self.written.add(full)
        if w == 64:
            self.r[full] = val if val.size() == 64 else z3.SignExt(64 - val.size(), val)
        else:
            v32 = val if val.size() == 32 else z3.Extract(31, 0, val)
            self.r[full] = z3.ZeroExt(32, v32)  # 32-bit writes zero the upper half

    def read(self, v):
        return self.get(reg_of(v.type))

    def write(self, v, val):
        self.set(reg_of(v.type), val)

    def load(self, addr, n=8):
        bs = [z3.Select(self.mem, addr + i) for i in range(n)]
        return z3.Concat(*reversed(bs))

    def store(self, addr, val, n=8):
        for i in range(n):
            self.mem = z3.Store(self.mem, addr + i, z3.Extract(8 * i + 7, 8 * i, val))


EMIT = []  # constraints "the emitted assembly text denotes the operand the IR holds", collected per run (reset by the harness)


def _emitted_value(op, a, name):
    """what an assembler reads from the text the REAL printer functions emit for this immediate / memory offset (mathematical integer)"""
    import re as _re

    from xdsl.dialects.x86.assembly import assembly_arg_str

    if name == "immediate":
        text = assembly_arg_str(a)
        if type(text) is symx.TaintedStr:
            return None  # text rendered from a wide symbolic immediate: not modelled (concrete immediates are compared)
        if isinstance(text, str):
            return int(text, 0)
        return int(text)  # symbolic text rendered from a symbolic int: parsed back by the engine's string model
    line = op.assembly_line()
    if not isinstance(line, str):
        raise X86Unsupported("symbolic memory offset text")
    mm = _re.search(r"\[[a-z0-9]+([+-](?:0x[0-9a-fA-F]+|[0-9]+))?\]", line)
    if mm is None:
        raise X86Unsupported(f"no memory operand in emitted line {line!r}")
    return int(mm.group(1), 0) if mm.group(1) else 0


def _imm(op, w=64, name="immediate"):
    a = getattr(op, name)
    v = a.value.data
    s = SymInt.lift(v)
    e = s.ext(max(w, s.e.size()))
    val = z3.Extract(w - 1, 0, e) if e.size() > w else e
    # emission: the text must denote the same w-bit operand
    em = _emitted_value(op, a, name)
    if em is not None:
        t = SymInt.lift(em)
        te = t.ext(max(w + 8, t.e.size()))
        EMIT.append(z3.Extract(w - 1, 0, te) == val)
    return val


def _off(op):
    return _imm(op, 64, "memory_offset")


BIN = {"add": lambda a, b: a + b, "sub": lambda a, b: a - b, "imul": lambda a, b: a * b, "and": lambda a, b: a & b, "or": lambda a, b: a | b, "xor": lambda a, b: a ^ b}
UN = {"neg": lambda a: -a, "not": lambda a: ~a, "inc": lambda a: a + 1, "dec": lambda a: a - 1}


def exec_op(m: Machine, op):
    n = op.name
    if n in ("x86.get_register", "x86.label", "x86.directive", "x86.fallthrough", "x86.comment"):
        return None
    if n == "x86_func.ret":
        return ("ret",)
    parts = n.split(".")
    if len(parts) != 3 or parts[0] != "x86":
        raise X86Unsupported(f"no x86 reference semantics for {n}")
    form, mn = parts[1], parts[2]
    ops, res = op.operands, op.results
    if form == "rs" and mn in BIN:
        a, b = m.read(ops[0]), m.read(ops[1])
        if a.size() != b.size():
            raise X86Unsupported("mixed operand widths")
        m.write(res[0], BIN[mn](a, b))
        return None
    if form == "ri" and mn in BIN:
        a = m.read(ops[0])
        m.write(res[0], BIN[mn](a, _imm(op, a.size())))
        return None
    if form == "r" and mn in UN:
        m.write(res[0], UN[mn](m.read(ops[0])))
        return None
    if form == "ds" and mn == "mov":
        m.write(res[0], m.read(ops[0]))
        return None
    if form == "di" and mn == "mov":
        w = 32 if reg_of(res[0].type) in _SUB32 else 64
        # mov r64, imm32 sign-extends the immediate
        m.write(res[0], _imm(op, w))
        return None
    if form == "dm" and mn == "mov":
        addr = m.read(ops[0]) + _off(op)
        m.write(res[0], m.load(addr, 8))
        return None
    if form == "dm" and mn == "lea":
        m.write(res[0], m.read(ops[0]) + _off(op))
        return None
    if form == "ms" and mn == "mov":
        addr = m.read(ops[0]) + _off(op)
        m.store(addr, m.read(ops[1]), 8)
        return None
    if form == "rm" and mn in BIN:
        addr = m.read(ops[1]) + _off(op)
        m.write(res[0], BIN[mn](m.read(ops[0]), m.load(addr, 8)))
        return None
    if form == "dsi" and mn == "imul":
        a = m.read(ops[0])
        m.write(res[0], a * _imm(op, a.size()))
        return None
    if form == "s" and mn == "push":
        rsp = m.get("rsp") - 8
        m.store(rsp, m.read(ops[1]), 8)
        m.set("rsp", rsp)
        return None
    if form == "d" and mn == "pop":
        rsp = m.get("rsp")
        m.write(res[1], m.load(rsp, 8))
        m.set("rsp", rsp + 8)
        return None
    raise X86Unsupported(f"no x86 reference semantics for {n}")
