"""Obligation runner: path exploration + SMT discharge + replay + known findings + evidence."""
from __future__ import annotations

import fnmatch
import json
import os
import signal
import subprocess
import sys
import time
import traceback

import z3

from . import symx
from .symx import Explorer, SymBool, SymInt, Unsupported

ROOT = os.path.dirname(os.path.dirname(os.path.abspath(__file__)))
PY = os.path.join(ROOT, ".venv", "bin", "python")


Timeout = symx.WallTimeout


def _alarm(signum, frame):
    raise Timeout()


# ---------------------------------------------------------------------------------------
def term_of(v):
    return getattr(v, "e", v)


def model_inputs(model, named):
    out = {}
    for k, v in named.items():
        t = term_of(v)
        if z3.is_expr(t):
            out[k] = symx.eval_model(model, t)
        else:
            out[k] = t
    return out


def solve(assertions, timeout_ms, stats, use_cvc5=True, split_on=()):
    """returns ('unsat'|'sat'|'unknown', model|None). On unknown, retries with a case split on the signs
    of the given bit-vector inputs (every case must be unsat for unsat)."""
    r, m = _solve1(assertions, timeout_ms, stats, use_cvc5 and not split_on)
    if r != "unknown" or not split_on:
        return r, m
    import itertools

    terms = [t for t in split_on if z3.is_bv(t)][:3]
    if not terms:
        return _solve1(assertions, timeout_ms, stats, use_cvc5)
    stats["case_splits"] = stats.get("case_splits", 0) + 1
    for signs in itertools.product((True, False), repeat=len(terms)):
        extra = [(t < 0) if sg else (t >= 0) for t, sg in zip(terms, signs)]
        r, m = _solve1(list(assertions) + extra, timeout_ms, stats, use_cvc5)
        if r != "unsat":
            return r, m
    return "unsat", None


def _solve1(assertions, timeout_ms, stats, use_cvc5=True):
    s = z3.Solver()
    s.set("timeout", timeout_ms)
    s.add(*assertions)
    t = time.time()
    r = s.check()
    stats["solver_s"] += time.time() - t
    stats["queries"] += 1
    if r == z3.sat:
        return "sat", s.model()
    if r == z3.unsat:
        return "unsat", None
    if use_cvc5:
        t = time.time()
        try:
            res = cvc5_check(s.to_smt2(), timeout_ms)
        except Exception as e:  # cvc5 not able to parse: inconclusive
            res = "unknown"
        stats["solver_s"] += time.time() - t
        stats["cvc5_queries"] = stats.get("cvc5_queries", 0) + 1
        if res == "unsat":
            return "unsat", None
        # a cvc5 'sat' has no z3 model; retry z3 with other tactic is not attempted: report unknown
    return "unknown", None


def cvc5_check(smt2: str, timeout_ms: int) -> str:
    import cvc5

    tm = cvc5.TermManager() if hasattr(cvc5, "TermManager") else None
    slv = cvc5.Solver(tm) if tm is not None else cvc5.Solver()
    slv.setOption("tlimit-per", str(timeout_ms))
    slv.setLogic("ALL")
    parser = cvc5.InputParser(slv)
    parser.setStringInput(cvc5.InputLanguage.SMT_LIB_2_6, smt2, "q")
    sm = parser.getSymbolManager()
    result = "unknown"
    while True:
        cmd = parser.nextCommand()
        if cmd.isNull():
            break
        out = cmd.invoke(slv, sm)
        o = str(out).strip()
        if o in ("sat", "unsat", "unknown"):
            result = o
    return result


def decide(harness, *, allowed_exc=(), on_raise=None, timeout_ms=20000, budget_s=120, max_paths=20000,
           fuel=4000, exclude=(), stats=None, path_filter=None, ob=None):
    """Explore harness(ex) -> property (z3 Bool | SymBool | bool | dict(prop=..., detail=...)).

    Returns dict(status, paths, ok_paths, raise_paths, reasons, cex).
    status: held | violated | inconclusive
    """
    if stats is None:
        stats = {"solver_s": 0.0, "queries": 0}
    deadline = time.time() + budget_s
    ex = Explorer(max_paths=max_paths, timeout_ms=timeout_ms, fuel=fuel, deadline=deadline)
    res = {"status": "held", "paths": 0, "ok_paths": 0, "raise_paths": 0, "allowed_raise_paths": 0,
           "infeasible": 0, "reasons": [], "cex": None, "witness": None}
    inconclusive = False
    for p in ex.explore(harness):
        res["paths"] += 1
        if p.kind == "infeasible":
            res["infeasible"] += 1
            continue
        if p.kind in ("unsupported", "fuel"):
            inconclusive = True
            r = f"{p.kind}: {p.value}"
            if r not in res["reasons"] and len(res["reasons"]) < 8:
                res["reasons"].append(r)
            continue
        extra = []
        for expr in exclude:
            extra.append(z3.Not(symx.as_z3_bool(eval_region(expr, p.named, ob))))
        if p.kind == "raise":
            res["raise_paths"] += 1
            exc = p.value
            ok = isinstance(exc, tuple(allowed_exc)) if allowed_exc else False
            if not ok and on_raise is not None:
                ok = bool(on_raise(exc, p))
            if ok:
                res["allowed_raise_paths"] += 1
                continue
            r, m = solve(p.pc + extra, timeout_ms, stats)
            if r == "sat":
                tb = "".join(traceback.format_exception_only(type(exc), exc)).strip()
                res["status"] = "violated"
                res["cex"] = {"inputs": model_inputs(m, p.named), "detail": f"unexpected exception {tb[:300]}",
                              "notes": _jsonable(p.notes)}
                break
            if r == "unknown":
                inconclusive = True
                res["reasons"].append("solver unknown on raise path")
            continue
        # ok path
        res["ok_paths"] += 1
        val = p.value
        detail = None
        if isinstance(val, dict):
            detail = val.get("detail")
            val = val["prop"]
        prop = symx.as_z3_bool(val)
        if res["witness"] is None and res.get("witness_tries", 0) < 4:
            # reachability witness (vacuity guard): the path condition itself must be satisfiable (every prefix was already
            # found satisfiable by the explorer at its last fork; this asks for a model of the whole path, under a short cap)
            res["witness_tries"] = res.get("witness_tries", 0) + 1
            r0, m0 = solve(p.pc + extra, min(timeout_ms, 4000), stats, use_cvc5=False)
            if r0 == "sat":
                res["witness"] = model_inputs(m0, p.named)
        sp = z3.simplify(prop)
        if z3.is_true(sp):
            continue
        r, m = solve(p.pc + extra + [z3.Not(prop)], timeout_ms, stats, split_on=[term_of(v) for v in p.named.values() if z3.is_expr(term_of(v))])
        if r == "sat":
            res["status"] = "violated"
            d = detail(m) if callable(detail) else detail
            res["cex"] = {"inputs": model_inputs(m, p.named), "detail": d or "property term false",
                          "notes": _jsonable(p.notes)}
            break
        if r == "unknown":
            inconclusive = True
            if "solver unknown/timeout" not in res["reasons"]:
                res["reasons"].append("solver unknown/timeout")
    stats["queries"] += ex.queries
    stats["solver_s"] += ex.solver_time
    if ex.truncated and res["status"] != "violated":
        inconclusive = True
        res["reasons"].append("exploration truncated (budget/max_paths)")
    if res["status"] != "violated":
        if inconclusive:
            res["status"] = "inconclusive"
        elif res["ok_paths"] + res["allowed_raise_paths"] == 0:
            res["status"] = "inconclusive"
            res["reasons"].append("vacuous: no feasible completed path")
    return res


def _jsonable(x):
    try:
        json.dumps(x)
        return x
    except Exception:
        return repr(x)


def _inexact32(op, a, b):
    """True where the double-precision result of a (op) b is not exactly an f32 value"""
    import math
    import struct

    from .symfloat import F32, F64, RNE, SymFloat

    if isinstance(a, SymFloat) or isinstance(b, SymFloat):
        a, b = SymFloat.lift(a), SymFloat.lift(b)
        f = {"add": z3.fpAdd, "sub": z3.fpSub, "mul": z3.fpMul}[op]
        r = f(RNE, a.e, b.e)
        back = z3.fpToFP(RNE, z3.fpToFP(RNE, r, F32), F64)
        return SymBool(z3.And(z3.Not(z3.fpIsNaN(r)), z3.Not(z3.fpEQ(back, r))))
    r = {"add": a + b, "sub": a - b, "mul": a * b}[op]
    if math.isnan(r):
        return False
    try:
        back = struct.unpack("<f", struct.pack("<f", r))[0]
    except OverflowError:
        return True
    return back != r


REGION_FUNCS = {"abs": abs, "inexact32": _inexact32}


def eval_region(expr: str, named: dict, ob=None):
    env = dict(ob or {})
    env.update(named)
    env.update(REGION_FUNCS)
    try:
        return eval(expr, {"__builtins__": {}}, env)
    except NameError:
        return False  # the path has no such input: it lies outside the region


def eval_region_concrete(expr: str, inputs: dict, ob=None) -> bool:
    from .util import float_from_input

    env = dict(ob or {})
    for k, v in inputs.items():
        env[k] = float_from_input(v) if isinstance(v, dict) and "fp_bits" in v else v
    env.update(REGION_FUNCS)
    try:
        return bool(eval(expr, {"__builtins__": {}}, env))
    except Exception:
        return False


# ---------------------------------------------------------------------------------------
_KNOWN = None


def known_findings():
    global _KNOWN
    if _KNOWN is None:
        p = os.path.join(ROOT, "known_findings.json")
        _KNOWN = json.load(open(p))["findings"] if os.path.exists(p) else []
    return _KNOWN


def run_replay(prop_id, ob, cex) -> tuple[bool, str, str]:
    """Replays on the uninstrumented code in a fresh process. Returns (reproduced, path, output)."""
    d = os.path.join(ROOT, "replays", prop_id)
    os.makedirs(d, exist_ok=True)
    safe = "".join(c if c.isalnum() or c in "-_." else "_" for c in ob["id"])[:150]
    path = os.path.join(d, safe + ".json")
    with open(path, "w") as f:
        inputs = dict(cex["inputs"])
        if isinstance(cex.get("notes"), dict) and cex["notes"]:
            inputs["__notes__"] = cex["notes"]
        json.dump({"property": prop_id, "obligation": ob, "inputs": inputs, "detail": cex["detail"],
                   "notes": cex.get("notes")}, f, indent=1, default=repr)
    env = {k: v for k, v in os.environ.items() if k != "XDSL_VERIF_SYMX"}
    pr = subprocess.run([sys.executable, "-m", "vx.replay", path], cwd=ROOT, env=env, capture_output=True, text=True,
                        timeout=600)
    return pr.returncode == 1, path, (pr.stdout + pr.stderr)[-1500:]


def run_obligation(args):
    """Worker entry. args = (prop_id, module_name, ob, tier). Returns a result dict."""
    prop_id, modname, ob, tier = args
    import importlib

    mod = importlib.import_module(modname)
    t0 = time.time()
    stats = {"solver_s": 0.0, "queries": 0}
    out = {"id": ob["id"], "status": "inconclusive", "known": [], "violation": None, "reasons": [], "paths": 0,
           "ok_paths": 0}
    budget = ob.get("budget_s", 90 if tier == "quick" else 600)
    signal.signal(signal.SIGALRM, _alarm)
    signal.alarm(int(budget * 1.5) + 30)
    try:
        exclude = []
        for _round in range(6):
            r = mod.run(ob, tier, stats, tuple(exclude))
            out["paths"] += r.get("paths", 0)
            out["ok_paths"] += r.get("ok_paths", 0)
            out["raise_paths"] = out.get("raise_paths", 0) + r.get("raise_paths", 0)
            if r.get("witness") is not None and "witness" not in out:
                out["witness"] = r["witness"]
            if r["status"] != "violated":
                out["status"] = r["status"]
                out["reasons"] = r.get("reasons", [])
                break
            cex = r["cex"]
            reproduced, path, txt = run_replay(prop_id, ob, cex)
            if not reproduced:
                out["status"] = "harness_error"
                out["reasons"] = [f"counterexample did not reproduce on the real code: {cex} :: {txt[-600:]}"]
                break
            hit = None
            for kf in known_findings():
                if kf.get("status", "open") != "open" or kf["property"] != prop_id:
                    continue
                if not fnmatch.fnmatch(ob["id"], kf["obligation"]):
                    continue
                if kf["region"] in exclude:
                    continue
                if eval_region_concrete(kf["region"], cex["inputs"], ob):
                    hit = kf
                    break
            if hit is None:
                out["status"] = "violated"
                out["violation"] = {"replay": path, "inputs": cex["inputs"], "detail": cex["detail"], "replay_output": txt[-400:]}
                break
            out["known"].append({"what": hit["what"], "witness": cex["inputs"], "region": hit["region"]})
            exclude.append(hit["region"])
        else:
            out["status"] = "inconclusive"
            out["reasons"] = ["too many known-finding regions"]
    except Timeout:
        out["status"] = "inconclusive"
        out["reasons"] = ["wall budget exceeded"]
    except (KeyboardInterrupt, SystemExit):
        raise
    except BaseException as e:
        out["status"] = "harness_error"
        out["reasons"] = ["".join(traceback.format_exception(type(e), e, e.__traceback__))[-1500:]]
    finally:
        signal.alarm(0)
    out["queries"] = stats["queries"]
    out["solver_s"] = round(stats["solver_s"], 3)
    out["cvc5_queries"] = stats.get("cvc5_queries", 0)
    out["wall_s"] = round(time.time() - t0, 3)
    return out
