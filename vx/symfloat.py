"""SymFloat: a Python float (IEEE-754 binary64) as a z3 FP term. NaN payloads are not modelled
(z3 has one NaN); bit-level views go through fpToIEEEBV under a not-NaN guard."""
from __future__ import annotations

import math
import struct

import z3

from . import hook, symx
from .symx import SymBool, SymInt, Unsupported, cur

RNE = z3.RNE()
RTZ = z3.RTZ()
F64 = z3.Float64()
F32 = z3.Float32()
F16 = z3.Float16()


def fpval(x: float, sort=F64):
    if math.isnan(x):
        return z3.fpNaN(sort)
    if math.isinf(x):
        return z3.fpPlusInfinity(sort) if x > 0 else z3.fpMinusInfinity(sort)
    if x == 0:
        return z3.fpMinusZero(sort) if math.copysign(1.0, x) < 0 else z3.fpPlusZero(sort)
    bits = struct.unpack("<Q", struct.pack("<d", x))[0]
    v = z3.fpBVToFP(z3.BitVecVal(bits, 64), F64)
    return v if sort == F64 else z3.fpToFP(RNE, v, sort)


class SymFloat:
    __slots__ = ("e", "bits")

    def __init__(self, e, bits=None):
        self.e = e
        self.bits = bits  # exact IEEE-754 binary64 pattern when known (inputs created by var_raw): NaN payloads visible

    @staticmethod
    def var_raw(name) -> "SymFloat":
        """an arbitrary double given by its 64-bit pattern (every NaN payload, both zeros)"""
        b = z3.BitVec(name, 64)
        r = SymFloat(z3.fpBVToFP(b, F64), b)
        cur().named[name] = b
        return r

    def pattern(self):
        """64-bit pattern; for values without a tracked pattern all NaNs share z3's single NaN"""
        return self.bits if self.bits is not None else z3.fpToIEEEBV(self.e)

    @staticmethod
    def var(name) -> "SymFloat":
        v = z3.FP(name, F64)
        cur().named[name] = SymFloat(v)
        return SymFloat(v)

    @staticmethod
    def var_bits(name, sort=F64) -> "SymFloat":
        """a double that is exactly representable in `sort` (e.g. every f32 value)"""
        v = z3.FP(name, sort)
        r = SymFloat(v if sort == F64 else z3.fpToFP(RNE, v, F64))
        cur().named[name] = r
        return r

    @staticmethod
    def lift(o) -> "SymFloat":
        if type(o) is SymFloat:
            return o
        if isinstance(o, bool):
            o = int(o)
        if isinstance(o, float):
            return SymFloat(fpval(o))
        if isinstance(o, int):
            if abs(o) > (1 << 53):
                raise Unsupported("int too large for exact float conversion")
            return SymFloat(fpval(float(o)))
        if isinstance(o, SymInt):
            if max(abs(o.lo), abs(o.hi)) > (1 << 53):
                raise Unsupported("symbolic int too large for exact float conversion")
            return SymFloat(z3.fpSignedToFP(RNE, o.e, F64))
        if isinstance(o, SymBool):
            return SymFloat.lift(SymInt.lift(o))
        raise Unsupported(f"lift to float: {type(o).__name__}")

    @staticmethod
    def lift_any(o) -> "SymFloat":
        """like lift, but ints of any magnitude are converted with round-to-nearest-even (what float(int) does)"""
        if isinstance(o, SymInt):
            return SymFloat(z3.fpSignedToFP(RNE, o.e, F64))
        if isinstance(o, int) and not isinstance(o, bool):
            return SymFloat(fpval(float(o)))
        return SymFloat.lift(o)

    def _bin(self, o, f):
        try:
            o = SymFloat.lift(o)
        except Unsupported:
            return NotImplemented
        return SymFloat(f(RNE, self.e, o.e))

    def __add__(self, o):
        return self._bin(o, z3.fpAdd)

    __radd__ = __add__

    def __sub__(self, o):
        return self._bin(o, z3.fpSub)

    def __rsub__(self, o):
        return SymFloat.lift(o).__sub__(self)

    def __mul__(self, o):
        return self._bin(o, z3.fpMul)

    __rmul__ = __mul__

    def __truediv__(self, o):
        o = SymFloat.lift(o)
        if bool(SymBool(z3.fpIsZero(o.e))):
            raise ZeroDivisionError("float division by zero")
        return SymFloat(z3.fpDiv(RNE, self.e, o.e))

    def __rtruediv__(self, o):
        return SymFloat.lift(o).__truediv__(self)

    def __neg__(self):
        return SymFloat(z3.fpNeg(self.e))

    def __pos__(self):
        return self

    def __abs__(self):
        return SymFloat(z3.fpAbs(self.e))

    def _cmp(self, o, f):
        try:
            o = SymFloat.lift(o)
        except Unsupported:
            return NotImplemented
        return SymBool(f(self.e, o.e))

    def __lt__(self, o):
        return self._cmp(o, z3.fpLT)

    def __le__(self, o):
        return self._cmp(o, z3.fpLEQ)

    def __gt__(self, o):
        return self._cmp(o, z3.fpGT)

    def __ge__(self, o):
        return self._cmp(o, z3.fpGEQ)

    def __eq__(self, o):
        if o is None or isinstance(o, str):
            return False
        return self._cmp(o, z3.fpEQ)

    def __ne__(self, o):
        if o is None or isinstance(o, str):
            return True
        r = self._cmp(o, z3.fpEQ)
        return r if r is NotImplemented else SymBool(z3.Not(r.e))

    def __bool__(self):
        return bool(SymBool(z3.Not(z3.fpIsZero(self.e))))

    def __hash__(self):
        raise Unsupported("hash(SymFloat)")

    def __float__(self):
        raise Unsupported("float(SymFloat) at a C boundary")

    def __int__(self):
        raise Unsupported("int(SymFloat) at a C boundary")

    def __floordiv__(self, o):
        raise Unsupported("float floordiv")

    def __mod__(self, o):
        raise Unsupported("float mod")

    def __pow__(self, o):
        raise Unsupported("float pow")

    def __repr__(self):
        return "SymFloat"

    def __format__(self, spec):
        raise Unsupported("format(SymFloat)")

    def is_integer(self):
        return SymBool(z3.And(z3.Not(z3.fpIsNaN(self.e)), z3.Not(z3.fpIsInf(self.e)), z3.fpEQ(z3.fpRoundToIntegral(RTZ, self.e), self.e)))

    # bit views
    def bits64(self):
        """IEEE pattern (unspecified for NaN in z3: callers must guard)"""
        return z3.fpToIEEEBV(self.e)


hook.EXEMPLAR[SymFloat] = lambda o: 0.0


def _float_handler(x):
    if type(x) is SymFloat:
        return x
    if type(x) in (SymInt, SymBool):
        return SymFloat.lift(x)
    return NotImplemented


hook.FLOAT_HANDLERS.append(_float_handler)


def float_to_int(x: "SymFloat", limit_bits=130):
    """int(x): truncation toward zero, exact (python semantics), for |x| < 2**limit_bits"""
    if bool(SymBool(z3.fpIsNaN(x.e))):
        raise ValueError("cannot convert float NaN to integer")
    if bool(SymBool(z3.fpIsInf(x.e))):
        raise OverflowError("cannot convert float infinity to integer")
    bound = fpval(float(1 << (limit_bits - 2)))
    if bool(SymBool(z3.Not(z3.fpLT(z3.fpAbs(x.e), bound)))):
        raise Unsupported("int(SymFloat) of a huge value")
    bv = z3.fpToSBV(RTZ, x.e, z3.BitVecSort(limit_bits))
    return SymInt(bv, -(1 << (limit_bits - 2)), 1 << (limit_bits - 2))


def _int_handler(*a, **k):
    x = a[0]
    if type(x) is SymFloat and len(a) == 1:
        return float_to_int(x)
    return NotImplemented


def int_truediv(a, b):
    """python int / int: correctly rounded quotient. Modelled as RNE(float(a)) / RNE(float(b)) only when both
    operands are exactly representable (|v| <= 2**53); otherwise the exact rational quotient is rounded once,
    which differs from dividing the rounded operands -> reported as Unsupported beyond that range unless
    the caller's values are forced through float() first."""
    fa, fb = SymFloat.lift_any(a), SymFloat.lift_any(b)
    if bool(SymBool(z3.fpIsZero(fb.e))):
        raise ZeroDivisionError("division by zero")
    return SymFloat(z3.fpDiv(RNE, fa.e, fb.e))


hook.INT_HANDLERS.append(_int_handler)


_HF = z3.Function("cpython_float_hash", F64, z3.BitVecSort(64))
_HB = z3.Function("cpython_bytes_hash", z3.BitVecSort(64), z3.BitVecSort(64))
_nan_ids = [0]


def float_hash(x: "SymFloat"):
    """CPython's contract for hash(float): numerically equal non-NaN values hash equal (so hash(0.0) == hash(-0.0));
    a NaN hashes by object identity (arbitrary value per object)."""
    _nan_ids[0] += 1
    fresh = z3.BitVec(f"__nanhash_{_nan_ids[0]}_{len(cur().trace)}", 64)
    e = z3.If(z3.fpIsNaN(x.e), fresh, z3.If(z3.fpIsZero(x.e), _HF(z3.fpPlusZero(F64)), _HF(x.e)))
    return SymInt(e, -(1 << 63), (1 << 63) - 1)


def _hash_handler(x):
    if type(x) is SymFloat:
        return float_hash(x)
    from .shim_struct import SymPacked

    if type(x) is SymPacked:
        if len(x.values) == 1:
            return SymInt(_HB(x.values[0].pattern()), -(1 << 63), (1 << 63) - 1)
        raise Unsupported("hash of multi-value packed buffer")
    return NotImplemented


hook.SIMPLE_CALLS.setdefault("hash", []).append(_hash_handler)


def isnan(x):
    if type(x) is SymFloat:
        return SymBool(z3.fpIsNaN(x.e))
    if type(x) in (SymInt, SymBool):
        return False
    return math.isnan(x)


def isinf(x):
    if type(x) is SymFloat:
        return SymBool(z3.fpIsInf(x.e))
    if type(x) in (SymInt, SymBool):
        return False
    return math.isinf(x)


def isfinite(x):
    if type(x) is SymFloat:
        return SymBool(z3.Not(z3.Or(z3.fpIsInf(x.e), z3.fpIsNaN(x.e))))
    if type(x) in (SymInt, SymBool):
        return True
    return math.isfinite(x)


def copysign(a, b):
    if type(a) is not SymFloat and type(b) is not SymFloat and not symx.is_sym(a) and not symx.is_sym(b):
        return math.copysign(a, b)
    a, b = SymFloat.lift(a), SymFloat.lift(b)
    mag = z3.fpAbs(a.e)
    # copysign looks at the sign bit, also of NaN; z3's NaN has no sign: treat NaN as positive (CPython's float('nan'))
    neg = z3.And(z3.fpIsNegative(b.e), z3.Not(z3.fpIsNaN(b.e)))
    return SymFloat(z3.If(neg, z3.fpNeg(mag), mag))


def round_to(x: "SymFloat", sort):
    """double -> sort -> double (what struct.pack('<f') + unpack does for f32)"""
    return SymFloat(z3.fpToFP(RNE, z3.fpToFP(RNE, x.e, sort), F64))


def fp_same(x, y):
    """bit-identical comparison of two z3 FP terms, all NaNs identified"""
    return z3.Or(z3.And(z3.fpIsNaN(x), z3.fpIsNaN(y)),
                 z3.And(z3.Not(z3.fpIsNaN(x)), z3.Not(z3.fpIsNaN(y)), z3.fpToIEEEBV(x) == z3.fpToIEEEBV(y)))
