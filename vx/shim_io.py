"""Drop-in for `io` inside instrumented modules: StringIO that can hold symbolic text."""
from io import *  # noqa: F401,F403
import io as _io

from .symstr import SymStream


class StringIO(SymStream):
    def __init__(self, initial=""):
        super().__init__()
        if initial:
            self.parts.append(initial)


BytesIO = _io.BytesIO
TextIOBase = _io.TextIOBase
