"""Drop-in for `re` inside instrumented modules: native on real str, backtracking matcher with sre's priority order on SymStr.

The matcher walks the pattern tree produced by CPython's own regex parser (re._parser), so it follows the source's patterns
verbatim; each character test on a symbolic cell forks the exploration. `steps` counts matcher steps (cost model for the
termination property)."""
from __future__ import annotations

import re as _re
import re._constants as C
import re._parser as sre_parse
from re import *  # noqa: F401,F403

from .symstr import SymStr, cp_eq, in_ranges, norm, table
from .symx import Unsupported

ASCII, IGNORECASE, MULTILINE, DOTALL, VERBOSE, UNICODE = _re.ASCII, _re.IGNORECASE, _re.MULTILINE, _re.DOTALL, _re.VERBOSE, _re.UNICODE
A, I, M, S, X, U = ASCII, IGNORECASE, MULTILINE, DOTALL, VERBOSE, UNICODE
Pattern, Match, error = _re.Pattern, _re.Match, _re.error
escape = _re.escape

STEPS = [0]
STEP_LIMIT = [2_000_000]


class StepLimit(Exception):
    pass


class SymMatch:
    def __init__(self, s, pos, end, groups, ngroups):
        self._s, self._a, self._b, self._g, self._n = s, pos, end, groups, ngroups
        self.string = s

    def start(self, g=0):
        return self._a if g == 0 else self._g.get(g, (-1, -1))[0]

    def end(self, g=0):
        return self._b if g == 0 else self._g.get(g, (-1, -1))[1]

    def span(self, g=0):
        return (self.start(g), self.end(g))

    def group(self, *gs):
        if not gs:
            gs = (0,)
        out = []
        for g in gs:
            a, b = self.span(g)
            out.append(None if a < 0 else self._s[a:b])
        return out[0] if len(out) == 1 else tuple(out)

    def groups(self, default=None):
        return tuple(self.group(i) if self.start(i) >= 0 else default for i in range(1, self._n + 1))

    def __getitem__(self, g):
        return self.group(g)


class SymPattern:
    def __init__(self, pattern, flags=0):
        self.pattern, self.flags = pattern, flags
        self._real = _re.compile(pattern, flags)
        self._tree = sre_parse.parse(pattern, flags)
        self._ascii = bool(flags & _re.ASCII)
        self.groups = self._real.groups
        self._sets = {}
        if flags & (_re.IGNORECASE | _re.VERBOSE):
            self._unsupported = "IGNORECASE/VERBOSE"
        else:
            self._unsupported = None

    # native fast path
    def _native(self, s):
        return isinstance(s, str)

    def match(self, s, pos=0, endpos=None):
        if self._native(s):
            return self._real.match(s, pos) if endpos is None else self._real.match(s, pos, endpos)
        return self._run(s, pos, endpos, full=False)

    def fullmatch(self, s, pos=0, endpos=None):
        if self._native(s):
            return self._real.fullmatch(s, pos) if endpos is None else self._real.fullmatch(s, pos, endpos)
        return self._run(s, pos, endpos, full=True)

    def search(self, s, pos=0, endpos=None):
        if self._native(s):
            return self._real.search(s, pos) if endpos is None else self._real.search(s, pos, endpos)
        n = len(s) if endpos is None else min(endpos, len(s))
        for p in range(pos, n + 1):
            m = self._run(s, p, endpos, full=False)
            if m is not None:
                return m
        return None

    def sub(self, repl, s, count=0):
        if self._native(s) and isinstance(repl, str):
            return self._real.sub(repl, s, count)
        raise Unsupported("re.sub on symbolic text")

    def split(self, s, maxsplit=0):
        if self._native(s):
            return self._real.split(s, maxsplit)
        raise Unsupported("re.split on symbolic text")

    def findall(self, s, *a):
        if self._native(s):
            return self._real.findall(s, *a)
        raise Unsupported("re.findall on symbolic text")

    def finditer(self, s, *a):
        if self._native(s):
            return self._real.finditer(s, *a)
        raise Unsupported("re.finditer on symbolic text")

    def _run(self, s, pos, endpos, full):
        if self._unsupported:
            raise Unsupported(f"regex flags {self._unsupported} on symbolic text")
        s = SymStr.lift(s)
        n = len(s) if endpos is None else min(endpos, len(s))
        groups = {}
        STEPS[0] = 0
        for e in self._m(list(self._tree), 0, s, pos, n, groups):
            if full and e != n:
                continue
            return SymMatch(s, pos, e, dict(groups), self.groups)
        return None

    # ---- character tests ----
    def _category(self, cat, c):
        a = "_a" if self._ascii else None
        m = {C.CATEGORY_DIGIT: ("digit_a" if a else "decimal", False), C.CATEGORY_NOT_DIGIT: ("digit_a" if a else "decimal", True),
             C.CATEGORY_SPACE: ("space_a" if a else "space", False), C.CATEGORY_NOT_SPACE: ("space_a" if a else "space", True),
             C.CATEGORY_WORD: ("word_a" if a else "word_u", False), C.CATEGORY_NOT_WORD: ("word_a" if a else "word_u", True)}
        name, neg = m[cat]
        t = bool(in_ranges(c, table(name)))
        return (not t) if neg else t

    def _charset(self, items, c):
        """one membership test (a single fork) over the union of the set's items"""
        key = id(items)
        cached = self._sets.get(key)
        if cached is None:
            neg, ranges = False, []
            for op, av in items:
                if op is C.NEGATE:
                    neg = True
                elif op is C.LITERAL:
                    ranges.append((av, av))
                elif op is C.RANGE:
                    ranges.append(tuple(av))
                elif op is C.CATEGORY:
                    ranges += self._category_ranges(av)
                else:
                    raise Unsupported(f"charset op {op}")
            ranges.sort()
            merged = []
            for a, b in ranges:
                if merged and a <= merged[-1][1] + 1:
                    merged[-1] = (merged[-1][0], max(merged[-1][1], b))
                else:
                    merged.append((a, b))
            cached = self._sets[key] = (neg, merged, items)
        neg, merged, _ = cached
        return bool(in_ranges(c, merged)) != neg

    def _category_ranges(self, cat):
        a = self._ascii
        m = {C.CATEGORY_DIGIT: ("digit_a" if a else "decimal", False), C.CATEGORY_NOT_DIGIT: ("digit_a" if a else "decimal", True),
             C.CATEGORY_SPACE: ("space_a" if a else "space", False), C.CATEGORY_NOT_SPACE: ("space_a" if a else "space", True),
             C.CATEGORY_WORD: ("word_a" if a else "word_u", False), C.CATEGORY_NOT_WORD: ("word_a" if a else "word_u", True)}
        name, neg = m[cat]
        rs = table(name)
        if not neg:
            return list(rs)
        out, prev = [], 0
        for x, y in rs:
            if x > prev:
                out.append((prev, x - 1))
            prev = y + 1
        if prev <= 0x10FFFF:
            out.append((prev, 0x10FFFF))
        return out

    # ---- backtracking matcher: generator of end positions in sre priority order ----
    def _m(self, seq, i, s, pos, n, groups):
        STEPS[0] += 1
        if STEPS[0] > STEP_LIMIT[0]:
            raise StepLimit()
        if i == len(seq):
            yield pos
            return
        op, av = seq[i]
        if op in (C.LITERAL, C.NOT_LITERAL, C.IN, C.ANY):
            if pos >= n:
                return
            c = s.cps[pos]
            if op is C.LITERAL:
                ok = bool(cp_eq(c, av))
            elif op is C.NOT_LITERAL:
                ok = not bool(cp_eq(c, av))
            elif op is C.ANY:
                ok = True if self.flags & _re.DOTALL else not bool(cp_eq(c, 10))
            else:
                ok = self._charset(av, c)
            if ok:
                yield from self._m(seq, i + 1, s, pos + 1, n, groups)
            return
        if op is C.SUBPATTERN:
            group, add, dele, p = av
            if add or dele:
                raise Unsupported("inline regex flags")
            for e in self._m(list(p), 0, s, pos, n, groups):
                old = groups.get(group)
                if group is not None:
                    groups[group] = (pos, e)
                yield from self._m(seq, i + 1, s, e, n, groups)
                if group is not None:
                    if old is None:
                        groups.pop(group, None)
                    else:
                        groups[group] = old
            return
        if op is C.BRANCH:
            _, alts = av
            for alt in alts:
                for e in self._m(list(alt), 0, s, pos, n, groups):
                    yield from self._m(seq, i + 1, s, e, n, groups)
            return
        if op is C.MAX_REPEAT:
            lo, hi, p = av
            yield from self._rep(list(p), lo, hi, seq, i, s, pos, n, groups, 0, True)
            return
        if op is C.MIN_REPEAT:
            lo, hi, p = av
            yield from self._rep(list(p), lo, hi, seq, i, s, pos, n, groups, 0, False)
            return
        if op is C.AT:
            if av in (C.AT_BEGINNING, C.AT_BEGINNING_STRING):
                ok = pos == 0
                if av is C.AT_BEGINNING and self.flags & _re.MULTILINE:
                    raise Unsupported("MULTILINE anchors")
            elif av is C.AT_END:
                if self.flags & _re.MULTILINE:
                    raise Unsupported("MULTILINE anchors")
                ok = pos == len(s) or (pos == len(s) - 1 and bool(cp_eq(s.cps[pos], 10)))
            elif av is C.AT_END_STRING:
                ok = pos == len(s)
            else:
                raise Unsupported(f"anchor {av}")
            if ok:
                yield from self._m(seq, i + 1, s, pos, n, groups)
            return
        raise Unsupported(f"regex op {op}")

    def _rep(self, p, lo, hi, seq, i, s, pos, n, groups, count, greedy):
        more = count < hi
        if greedy:
            if more:
                for e in self._m(p, 0, s, pos, n, groups):
                    if e == pos and count >= lo:
                        continue  # sre: an empty iteration ends the loop
                    yield from self._rep(p, lo, hi, seq, i, s, e, n, groups, count + 1, greedy)
            if count >= lo:
                yield from self._m(seq, i + 1, s, pos, n, groups)
        else:
            if count >= lo:
                yield from self._m(seq, i + 1, s, pos, n, groups)
            if more:
                for e in self._m(p, 0, s, pos, n, groups):
                    if e == pos and count >= lo:
                        continue
                    yield from self._rep(p, lo, hi, seq, i, s, e, n, groups, count + 1, greedy)


_CACHE = {}


def compile(pattern, flags=0):  # noqa: A001
    if isinstance(pattern, SymPattern):
        return pattern
    if isinstance(pattern, _re.Pattern):
        pattern, flags = pattern.pattern, pattern.flags & ~_re.UNICODE if isinstance(pattern.pattern, str) else pattern.flags
        flags &= (_re.ASCII | _re.IGNORECASE | _re.MULTILINE | _re.DOTALL | _re.VERBOSE)
    key = (pattern, flags)
    if key not in _CACHE:
        _CACHE[key] = SymPattern(pattern, flags)
    return _CACHE[key]


def match(pattern, string, flags=0):
    return compile(pattern, flags).match(string)


def fullmatch(pattern, string, flags=0):
    return compile(pattern, flags).fullmatch(string)


def search(pattern, string, flags=0):
    return compile(pattern, flags).search(string)


def sub(pattern, repl, string, count=0, flags=0):
    return compile(pattern, flags).sub(repl, string, count)


def split(pattern, string, maxsplit=0, flags=0):
    return compile(pattern, flags).split(string, maxsplit)


def findall(pattern, string, flags=0):
    return compile(pattern, flags).findall(string)
