"""Bounded symbolic text: SymStr (concrete length, symbolic code points), SymBytes, UTF-8 codec, decimal rendering/parsing.

A SymStr is NOT a str subclass: C-level code refuses it (TypeError -> reported as unsupported, never as a finding).
Slices/concatenations whose cells are all concrete collapse to real `str`, so keys, keywords and names stay native."""
from __future__ import annotations

import z3

from . import hook, symx
from .symx import SymBool, SymInt, Unsupported, cur

CP_MAX = 0x10FFFF
_str = str


def _ranges(pred):
    out, start = [], None
    for c in range(CP_MAX + 2):
        ok = c <= CP_MAX and pred(chr(c))
        if ok and start is None:
            start = c
        if not ok and start is not None:
            out.append((start, c - 1))
            start = None
    return out


_PREDS = {
    "alpha": _str.isalpha, "numeric": _str.isnumeric, "decimal": _str.isdecimal, "digit": _str.isdigit, "space": _str.isspace, "alnum": _str.isalnum,
    "word_u": lambda ch: ch.isalnum() or ch == "_", "upper": _str.isupper, "lower": _str.islower, "printable": _str.isprintable,
    "digit_a": lambda ch: ch in "0123456789", "space_a": lambda ch: ch in " \t\n\r\f\v", "word_a": lambda ch: ch.isascii() and (ch.isalnum() or ch == "_"),
    "ascii": _str.isascii, "hexdigit": lambda ch: ch in "0123456789abcdefABCDEF",
}
_TABLES = {}


def table(name):
    if name not in _TABLES:
        _TABLES[name] = _ranges(_PREDS[name])
    return _TABLES[name]


def in_ranges(c, ranges):
    """c: int | SymInt; returns bool | SymBool (ranges pruned by the interval of c)"""
    if isinstance(c, int):
        return any(a <= c <= b for a, b in ranges)
    rs = [(max(a, c.lo), min(b, c.hi)) for a, b in ranges if b >= c.lo and a <= c.hi]
    if not rs:
        return False
    if len(rs) == 1 and rs[0] == (c.lo, c.hi):
        return True
    w = c.e.size()
    terms = []
    for a, b in rs:
        if a == b:
            terms.append(c.e == a)
        elif a == c.lo:
            terms.append(c.e <= b)
        elif b == c.hi:
            terms.append(c.e >= a)
        else:
            terms.append(z3.And(c.e >= a, c.e <= b))
    return SymBool(z3.Or(*terms) if len(terms) > 1 else terms[0])


def _merge_ranges(cps):
    out = []
    for c in cps:
        if out and c <= out[-1][1] + 1:
            out[-1] = (out[-1][0], max(out[-1][1], c))
        else:
            out.append((c, c))
    return out


def cp_eq(a, b):
    if isinstance(a, int) and isinstance(b, int):
        return a == b
    r = SymInt.lift(a) == b
    if z3.is_true(r.e):
        return True
    if z3.is_false(r.e):
        return False
    return r


def _b(x):
    return bool(x)


class SymStr:
    __slots__ = ("cps",)

    def __init__(self, cps):
        self.cps = tuple(cps)

    @staticmethod
    def var(name, n, lo=0, hi=CP_MAX):
        return SymStr([SymInt.var(f"{name}{i}", lo, hi) for i in range(n)])

    @staticmethod
    def var_split(name, n, partition):
        """like var, but every cell is first case-split over `partition` (a list of (lo, hi) covering the intended alphabet):
        single-value classes become concrete cells, ranges become symbolic cells with that interval, so most character tests
        are decided by interval arithmetic instead of a solver call. The split is a case distinction, not a restriction."""
        ex = cur()
        cells = []
        for i in range(n):
            k = ex.choose(len(partition), f"{name}{i}__class")
            lo, hi = partition[k]
            v = SymInt.var(f"{name}{i}", 0, CP_MAX)
            if lo == hi:
                ex.assume((v == lo).e)
                cells.append(lo)
            else:
                ex.assume(z3.And(v.e >= lo, v.e <= hi))
                cells.append(SymInt(v.e, lo, hi))
        return norm(SymStr(cells))

    @staticmethod
    def lift(o):
        if type(o) is SymStr:
            return o
        if isinstance(o, _str):
            if type(o) is symx.TaintedStr:
                raise Unsupported("text rendered from a wide symbolic value mixed into symbolic text")
            return SymStr([ord(ch) for ch in o])
        raise Unsupported(f"lift to str: {type(o).__name__}")

    def is_concrete(self):
        return all(isinstance(c, int) for c in self.cps)

    def concrete(self):
        return "".join(chr(c) for c in self.cps)

    def __len__(self):
        return len(self.cps)

    def __bool__(self):
        return len(self.cps) > 0

    def __getitem__(self, i):
        if isinstance(i, slice):
            i = slice(*[x.concretize() if type(x) is SymInt else x for x in (i.start, i.stop, i.step)])
            return norm(SymStr(self.cps[i]))
        if type(i) is SymInt:
            i = i.concretize()
        return norm(SymStr([self.cps[i]]))

    def __iter__(self):
        for i in range(len(self.cps)):
            yield self[i]

    def __add__(self, o):
        if not isinstance(o, (_str, SymStr)):
            return NotImplemented
        return norm(SymStr(self.cps + SymStr.lift(o).cps))

    def __radd__(self, o):
        if not isinstance(o, (_str, SymStr)):
            return NotImplemented
        return norm(SymStr(SymStr.lift(o).cps + self.cps))

    def __mul__(self, n):
        return norm(SymStr(self.cps * int(n)))

    def __eq__(self, o):
        if o is None or not isinstance(o, (_str, SymStr)):
            return False
        o = SymStr.lift(o)
        if len(o) != len(self):
            return False
        conj = []
        for a, b in zip(self.cps, o.cps):
            if isinstance(a, int) and isinstance(b, int):
                if a != b:
                    return False
            else:
                t = cp_eq(a, b)
                if t is False:
                    return False
                if t is not True:
                    conj.append(t.e)
        if not conj:
            return True
        return SymBool(z3.And(*conj) if len(conj) > 1 else conj[0])

    def __ne__(self, o):
        return symx.sym_not(self.__eq__(o))

    def _order(self, o, strict_less):
        raise Unsupported("ordering of symbolic text")

    __lt__ = __le__ = __gt__ = __ge__ = lambda self, o: self._order(o, True)

    def __hash__(self):
        raise Unsupported("hash of symbolic text")

    def __repr__(self):
        return "SymStr(" + "".join(chr(c) if isinstance(c, int) else "¿" for c in self.cps) + ")"

    def __str__(self):  # only reached from uninstrumented code (diagnostics)
        return symx.TaintedStr(repr(self))

    def __format__(self, spec):  # only reached from uninstrumented code (diagnostics): CPython insists on a real str
        return symx.TaintedStr(repr(self))

    # ---- character classes (fork per cell) ----
    def _all(self, name):
        if not self.cps:
            return False
        for c in self.cps:
            if not _b(in_ranges(c, table(name))):
                return False
        return True

    def isalpha(self):
        return self._all("alpha")

    def isnumeric(self):
        return self._all("numeric")

    def isdecimal(self):
        return self._all("decimal")

    def isdigit(self):
        return self._all("digit")

    def isspace(self):
        return self._all("space")

    def isalnum(self):
        return self._all("alnum")

    def isprintable(self):
        return all(_b(in_ranges(c, table("printable"))) for c in self.cps)

    def isascii(self):
        return all(_b(in_ranges(c, [(0, 127)])) for c in self.cps)

    def isidentifier(self):
        raise Unsupported("isidentifier on symbolic text")

    # ---- searching ----
    def _at(self, i, sub):
        return self[i:i + len(sub)] == sub if True else None

    def _match_at(self, i, sub: "SymStr"):
        if i < 0 or i + len(sub) > len(self):
            return False
        return SymStr(self.cps[i:i + len(sub)]).__eq__(sub)

    def __contains__(self, sub):
        return self.find(sub) >= 0

    def find(self, sub, start=0, end=None):
        sub = SymStr.lift(sub)
        n = len(self)
        start, end, _ = slice(start, end).indices(n)
        for i in range(start, end - len(sub) + 1):
            if _b(self._match_at(i, sub)):
                return i
        return -1

    def rfind(self, sub, start=0, end=None):
        sub = SymStr.lift(sub)
        n = len(self)
        start, end, _ = slice(start, end).indices(n)
        for i in range(end - len(sub), start - 1, -1):
            if _b(self._match_at(i, sub)):
                return i
        return -1

    def index(self, sub, *a):
        r = self.find(sub, *a)
        if r < 0:
            raise ValueError("substring not found")
        return r

    def count(self, sub, start=0, end=None):
        sub = SymStr.lift(sub)
        if len(sub) == 0:
            raise Unsupported("count of empty substring")
        n = len(self)
        start, end, _ = slice(start, end).indices(n)
        i, k = start, 0
        while i <= end - len(sub):
            if _b(self._match_at(i, sub)):
                k += 1
                i += len(sub)
            else:
                i += 1
        return k

    def startswith(self, p, start=0):
        if isinstance(p, tuple):
            return any(self.startswith(q, start) for q in p)
        p = SymStr.lift(p)
        return _b(self._match_at(start, p))

    def endswith(self, p):
        if isinstance(p, tuple):
            return any(self.endswith(q) for q in p)
        p = SymStr.lift(p)
        return _b(self._match_at(len(self) - len(p), p))

    def replace(self, old, new, count=-1):
        old, new = SymStr.lift(old), SymStr.lift(new)
        if len(old) == 0:
            raise Unsupported("replace of empty substring")
        out, i, k = [], 0, 0
        while i < len(self):
            if (count < 0 or k < count) and _b(self._match_at(i, old)):
                out.extend(new.cps)
                i += len(old)
                k += 1
            else:
                out.append(self.cps[i])
                i += 1
        return norm(SymStr(out))

    def split(self, sep=None, maxsplit=-1):
        if sep is None:
            raise Unsupported("whitespace split of symbolic text")
        sep = SymStr.lift(sep)
        parts, cur_, i = [], [], 0
        while i < len(self):
            if (maxsplit < 0 or len(parts) < maxsplit) and _b(self._match_at(i, sep)):
                parts.append(norm(SymStr(cur_)))
                cur_ = []
                i += len(sep)
            else:
                cur_.append(self.cps[i])
                i += 1
        parts.append(norm(SymStr(cur_)))
        return parts

    _LINE_ENDS = [(10, 13), (0x1C, 0x1E), (0x85, 0x85), (0x2028, 0x2029)]

    def splitlines(self, keepends=False):
        lines, cur_, i, n = [], [], 0, len(self)
        while i < n:
            c = self.cps[i]
            if _b(in_ranges(c, SymStr._LINE_ENDS)):
                end = [c]
                if i + 1 < n and _b(cp_eq(c, 13)) and _b(cp_eq(self.cps[i + 1], 10)):
                    end.append(self.cps[i + 1])
                    i += 1
                lines.append(norm(SymStr(cur_ + (end if keepends else []))))
                cur_ = []
            else:
                cur_.append(c)
            i += 1
        if cur_:
            lines.append(norm(SymStr(cur_)))
        return lines

    def strip(self, chars=None):
        return self.lstrip(chars).rstrip(chars) if isinstance(self.lstrip(chars), SymStr) else SymStr.lift(self.lstrip(chars)).rstrip(chars)

    def _strip_pred(self, chars):
        if chars is None:
            return lambda c: _b(in_ranges(c, table("space")))
        cs = [ord(x) for x in chars]
        return lambda c: any(_b(cp_eq(c, x)) for x in cs)

    def lstrip(self, chars=None):
        p = self._strip_pred(chars)
        i = 0
        while i < len(self) and p(self.cps[i]):
            i += 1
        return norm(SymStr(self.cps[i:]))

    def rstrip(self, chars=None):
        p = self._strip_pred(chars)
        j = len(self)
        while j > 0 and p(self.cps[j - 1]):
            j -= 1
        return norm(SymStr(self.cps[:j]))

    def removeprefix(self, p):
        return self[len(p):] if self.startswith(p) else self

    def removesuffix(self, p):
        return self[:len(self) - len(p)] if len(p) and self.endswith(p) else self

    def lower(self):
        out = []
        for c in self.cps:
            if isinstance(c, int):
                lc = chr(c).lower()
                if len(lc) != 1:
                    raise Unsupported("multi-char lower()")
                out.append(ord(lc))
            elif _b(in_ranges(c, [(65, 90)])):
                out.append(c + 32)
            elif _b(in_ranges(c, [(0, 127)])):
                out.append(c)
            else:
                raise Unsupported("lower() of non-ASCII symbolic text")
        return norm(SymStr(out))

    def join(self, parts):
        out = []
        for k, p in enumerate(parts):
            if k:
                out.extend(self.cps)
            out.extend(SymStr.lift(p).cps)
        return norm(SymStr(out))

    def encode(self, encoding="utf-8", errors="strict"):
        if encoding.lower().replace("_", "-") not in ("utf-8", "utf8"):
            raise Unsupported(f"encode {encoding}")
        return encode_utf8(self)

    def translate(self, *a):
        raise Unsupported("translate on symbolic text")


def norm(s: SymStr):
    return s.concrete() if s.is_concrete() else s


def join(sep, parts):
    parts = list(parts)
    if type(sep) is SymStr or any(type(p) is SymStr for p in parts):
        return SymStr.lift(sep).join(parts)
    r = sep.join(parts)
    if any(type(p) is symx.TaintedStr for p in parts):
        return symx.TaintedStr(r)
    return r


# ---- bytes ------------------------------------------------------------------------------------------------------------
class SymBytes:
    __slots__ = ("bs",)

    def __init__(self, bs):
        self.bs = tuple(bs)

    @staticmethod
    def var(name, n):
        return SymBytes([SymInt.var(f"{name}{i}", 0, 255) for i in range(n)])

    @staticmethod
    def lift(o):
        if type(o) is SymBytes:
            return o
        if type(o) is SymByteArray:
            return SymBytes(o.bs)
        if isinstance(o, (bytes, bytearray)):
            return SymBytes(list(o))
        raise Unsupported(f"lift to bytes: {type(o).__name__}")

    def is_concrete(self):
        return all(isinstance(b, int) for b in self.bs)

    def __len__(self):
        return len(self.bs)

    def __bool__(self):
        return len(self.bs) > 0

    def __iter__(self):
        return iter(self.bs)

    def __getitem__(self, i):
        if isinstance(i, slice):
            return normb(SymBytes(self.bs[i]))
        if type(i) is SymInt:
            i = i.concretize()
        return self.bs[i]

    def __add__(self, o):
        return normb(SymBytes(self.bs + SymBytes.lift(o).bs))

    def __radd__(self, o):
        return normb(SymBytes(SymBytes.lift(o).bs + self.bs))

    def __eq__(self, o):
        if not isinstance(o, (bytes, bytearray, SymBytes, SymByteArray)):
            return False
        o = SymBytes.lift(o)
        if len(o) != len(self):
            return False
        conj = []
        for a, b in zip(self.bs, o.bs):
            if isinstance(a, int) and isinstance(b, int):
                if a != b:
                    return False
            else:
                t = cp_eq(a, b)
                if t is False:
                    return False
                if t is not True:
                    conj.append(t.e)
        if not conj:
            return True
        return SymBool(z3.And(*conj) if len(conj) > 1 else conj[0])

    def __ne__(self, o):
        return symx.sym_not(self.__eq__(o))

    def __hash__(self):
        raise Unsupported("hash of symbolic bytes")

    def __repr__(self):
        return "SymBytes(" + " ".join(f"{b:02x}" if isinstance(b, int) else "??" for b in self.bs) + ")"

    def isascii(self):
        return all(_b(in_ranges(b, [(0, 127)])) for b in self.bs)

    def decode(self, encoding="utf-8", errors="strict"):
        if encoding.lower().replace("_", "-") not in ("utf-8", "utf8") or errors != "strict":
            raise Unsupported(f"decode {encoding}/{errors}")
        return decode_utf8(self)

    def hex(self):
        raise Unsupported("hex() of symbolic bytes")


def normb(b: SymBytes):
    return bytes(b.bs) if b.is_concrete() else b


class SymByteArray:
    def __init__(self, init=()):
        self.bs = list(SymBytes.lift(init).bs) if not isinstance(init, (list, tuple)) else list(init)

    def __iadd__(self, o):
        self.bs.extend(SymBytes.lift(o).bs)
        return self

    def extend(self, o):
        self.bs.extend(SymBytes.lift(o).bs if not isinstance(o, (list, tuple)) else o)

    def append(self, b):
        self.bs.append(b)

    def __len__(self):
        return len(self.bs)

    def __iter__(self):
        return iter(self.bs)

    def __getitem__(self, i):
        return SymBytes(self.bs)[i]

    def __eq__(self, o):
        return SymBytes(self.bs).__eq__(o)

    __hash__ = None

    def decode(self, *a, **k):
        return normb(SymBytes(self.bs)).decode(*a, **k)

    def isascii(self):
        return SymBytes(self.bs).isascii()


def encode_utf8(s):
    s = SymStr.lift(s)
    out = []
    for c in s.cps:
        if isinstance(c, int):
            out.extend(chr(c).encode())
            continue
        if _b(c < 0x80):
            out.append(c)
        elif _b(c < 0x800):
            out += [0xC0 | (c >> 6), 0x80 | (c & 0x3F)]
        elif _b(c < 0x10000):
            if _b(in_ranges(c, [(0xD800, 0xDFFF)])):
                raise UnicodeEncodeError("utf-8", "\ud800", 0, 1, "surrogates not allowed")
            out += [0xE0 | (c >> 12), 0x80 | ((c >> 6) & 0x3F), 0x80 | (c & 0x3F)]
        else:
            out += [0xF0 | (c >> 18), 0x80 | ((c >> 12) & 0x3F), 0x80 | ((c >> 6) & 0x3F), 0x80 | (c & 0x3F)]
    return normb(SymBytes(out))


def _dec_err(i):
    return UnicodeDecodeError("utf-8", b"\xff", 0, 1, f"invalid byte at {i}")


def decode_utf8(b):
    b = SymBytes.lift(b)
    if b.is_concrete():
        return bytes(b.bs).decode()
    bs, out, i, n = b.bs, [], 0, len(b.bs)

    def cont(j):
        if j >= n:
            raise _dec_err(j)
        if not _b(in_ranges(bs[j], [(0x80, 0xBF)])):
            raise _dec_err(j)
        return SymInt.lift(bs[j]) & 0x3F

    while i < n:
        b0 = bs[i]
        if isinstance(b0, int) and b0 < 0x80:
            out.append(b0)
            i += 1
            continue
        b0 = SymInt.lift(b0)
        if _b(b0 < 0x80):
            out.append(b0)
            i += 1
        elif _b(in_ranges(b0, [(0xC2, 0xDF)])):
            out.append(((b0 & 0x1F) << 6) | cont(i + 1))
            i += 2
        elif _b(in_ranges(b0, [(0xE0, 0xEF)])):
            c1 = cont(i + 1)
            # overlong (E0 followed by < A0) and surrogates (ED followed by >= A0) are invalid
            if _b(b0 == 0xE0) and _b(SymInt.lift(bs[i + 1]) < 0xA0):
                raise _dec_err(i)
            if _b(b0 == 0xED) and _b(SymInt.lift(bs[i + 1]) >= 0xA0):
                raise _dec_err(i)
            c2 = cont(i + 2)
            out.append(((b0 & 0x0F) << 12) | (c1 << 6) | c2)
            i += 3
        elif _b(in_ranges(b0, [(0xF0, 0xF4)])):
            c1 = cont(i + 1)
            if _b(b0 == 0xF0) and _b(SymInt.lift(bs[i + 1]) < 0x90):
                raise _dec_err(i)
            if _b(b0 == 0xF4) and _b(SymInt.lift(bs[i + 1]) >= 0x90):
                raise _dec_err(i)
            c2 = cont(i + 2)
            c3 = cont(i + 3)
            out.append(((b0 & 0x07) << 18) | (c1 << 12) | (c2 << 6) | c3)
            i += 4
        else:
            raise _dec_err(i)
    return norm(SymStr(out))


# ---- numbers <-> text -----------------------------------------------------------------------------------------------------
_FRESH = [0]


def render_int(x: SymInt, maxdigits=45):
    """decimal text of a symbolic int: forks on sign and digit count; the digits are fresh solver variables d_k in [0,9]
    defined by |x| == sum d_k * 10^k (every integer has exactly one such representation with the forked digit count, so the
    definition neither loses nor adds values; it avoids bit-vector division)"""
    if x.is_const():
        return str(x.lo)
    ex = cur()
    memo = ex.scratch.setdefault("render_int", {})
    hit = memo.get(x.e.get_id())
    if hit is not None and hit[0].eq(x.e):
        return hit[1]  # the same term rendered twice on one path: the same digit variables (the decomposition is unique)
    neg = _b(x < 0)
    a = -x if neg else x
    nd = 1
    while nd < maxdigits and _b(a >= 10 ** nd):
        nd += 1
    if nd >= maxdigits and _b(a >= 10 ** nd):
        raise Unsupported("render int: too many digits")
    _FRESH[0] += 1
    digs, total, cells = [], 0, []
    for k in range(nd - 1, -1, -1):
        v = z3.BitVec(f"__digit{_FRESH[0]}_{k}", 5)
        dlo = 1 if (k == nd - 1 and nd > 1) else 0  # the forked digit count already implies a non-zero leading digit; saying so keeps that fact out of the arithmetic
        ex.add(z3.And(v >= dlo, v <= 9))
        d = SymInt(v, dlo, 9)
        digs.append(d)
        total = total * 10 + d  # Horner form, the same shape parse_int builds
        cell = d + 48
        DIGIT_OF[cell.e.get_id()] = (cell.e, d)
        cells.append(cell)
    ex.add((a == total).e)
    RENDERED[tuple(c.e.get_id() for c in cells)] = (tuple(c.e for c in cells), a)
    out = norm(SymStr(([45] if neg else []) + cells))
    memo[x.e.get_id()] = (x.e, out)
    return out


HEXPAIR = {}  # ids of the two hex-digit cells rendered from one byte -> (terms, byte)
RENDERED = {}  # ids of all digit cells of one rendering -> (terms, magnitude): int() of exactly that digit string is the magnitude
DIGIT_OF = {}  # term id of a rendered digit cell -> (term, digit value): lets int() recover the digit without arithmetic


def parse_int(s, base=10):
    """python int(str, base) on symbolic text (faithful for the shapes decided by forking each cell's class)"""
    s = SymStr.lift(s)
    if s.is_concrete():
        return int(s.concrete(), base)
    if base not in (10, 16):
        raise Unsupported(f"int(text, {base})")
    if base == 16 and len(s.cps) == 2 and not any(isinstance(c, int) for c in s.cps):
        hp = HEXPAIR.get((s.cps[0].e.get_id(), s.cps[1].e.get_id()))
        if hp is not None and hp[0][0].eq(s.cps[0].e) and hp[0][1].eq(s.cps[1].e):
            return SymInt(hp[1].e, max(0, hp[1].lo), min(255, hp[1].hi))  # exactly the two digits rendered from this byte (a byte: the renderer checked 0 <= v < 256)
    kinds = []
    provenance = []
    for c in s.cps:
        if isinstance(c, int):
            ch = chr(c)
            if ch in "0123456789":
                kinds.append(("d", c - 48))
            elif base == 16 and ch in "abcdefABCDEF":
                kinds.append(("d", int(ch, 16)))
            elif ch.isdecimal():
                kinds.append(("d", int(ch)))
            elif ch == "_":
                kinds.append(("_", None))
            elif ch in "+-":
                kinds.append(("s", ch))
            elif ch.isspace():
                kinds.append(("w", None))
            elif base == 16 and ch in "xX":
                kinds.append(("x", None))
            else:
                kinds.append(("o", None))
            continue
        prov = DIGIT_OF.get(c.e.get_id())
        if prov is not None and prov[0].eq(c.e):
            kinds.append(("d", prov[1]))  # c was built as digit + 48
            provenance.append(c.e)
        elif _b(in_ranges(c, [(48, 57)])):
            kinds.append(("d", SymInt((c - 48).e, 0, 9)))  # the branch just taken bounds the digit value
        elif base == 16 and _b(in_ranges(c, [(65, 70)])):
            kinds.append(("d", SymInt((c - 55).e, 10, 15)))
        elif base == 16 and _b(in_ranges(c, [(97, 102)])):
            kinds.append(("d", SymInt((c - 87).e, 10, 15)))
        elif _b(in_ranges(c, table("decimal"))):
            # unicode decimal digits come in runs of ten consecutive code points starting at a zero
            val = None
            for a, b_ in table("decimal"):
                if _b(in_ranges(c, [(a, b_)])):
                    val = (c - a) % 10
                    val = SymInt(val.e, 0, 9)
                    break
            kinds.append(("d", val))
        elif _b(cp_eq(c, 95)):
            kinds.append(("_", None))
        elif _b(cp_eq(c, 43)):
            kinds.append(("s", "+"))
        elif _b(cp_eq(c, 45)):
            kinds.append(("s", "-"))
        elif _b(in_ranges(c, table("space"))):
            kinds.append(("w", None))
        elif base == 16 and (_b(cp_eq(c, 120)) or _b(cp_eq(c, 88))):
            kinds.append(("x", None))
        else:
            kinds.append(("o", None))
    err = ValueError(f"invalid literal for int() with base {base}")
    while kinds and kinds[0][0] == "w":
        kinds.pop(0)
    while kinds and kinds[-1][0] == "w":
        kinds.pop()
    sign = 1
    if kinds and kinds[0][0] == "s":
        sign = -1 if kinds[0][1] == "-" else 1
        kinds.pop(0)
    if base == 16 and len(kinds) >= 2 and kinds[0] == ("d", 0) and kinds[1][0] == "x":
        kinds = kinds[2:]
        if kinds and kinds[0][0] == "_":
            kinds.pop(0)
    if not kinds or kinds[0][0] != "d" or kinds[-1][0] != "d":
        raise err
    acc, prev = 0, None
    whole = RENDERED.get(tuple(t.get_id() for t in provenance)) if base == 10 and provenance and len(provenance) == len(kinds) else None
    if whole is not None and all(x.eq(y) for x, y in zip(whole[0], provenance)):
        return sign * whole[1]  # exactly the digit string of one rendered value: its magnitude (defined by the digits) is the result
    for k, v in kinds:
        if k == "d":
            acc = acc * base + v
        elif k == "_":
            if prev != "d":
                raise err
        else:
            raise err
        prev = k
    return sign * acc


# ---- output stream -------------------------------------------------------------------------------------------------------------
class SymStream:
    """drop-in for io.StringIO as a printer target"""

    def __init__(self):
        self.parts = []

    def write(self, s):
        self.parts.append(s)
        return len(s)

    def getvalue(self):
        return join("", self.parts)

    def flush(self):
        pass


# ---- hook registration ---------------------------------------------------------------------------------------------------------
def _h_str(x):
    if type(x) is SymStr:
        return x
    if type(x) is SymInt:
        return render_int(x) if RENDER_INTS[0] else NotImplemented
    return NotImplemented


RENDER_INTS = [False]  # checks that need exact decimal text of symbolic ints switch this on


def _h_format(v, spec):
    if type(v) is SymStr:
        if spec == "":
            return v
        raise Unsupported(f"format spec {spec!r} on symbolic text")
    if type(v) is SymInt and RENDER_INTS[0]:
        if spec in ("", "d"):
            return render_int(v)
        if spec in ("02X", "02x"):
            if not _b((v >= 0) & (v < 256)):
                raise Unsupported("02X of a value outside a byte")
            lo = 55 if spec == "02X" else 87

            def hexd(n):
                n = SymInt.lift(n)
                e = n.ext(9)
                return SymInt(z3.If(e < 10, e + 48, e + lo), 48, 70 if lo == 55 else 102)

            hi_, lo_ = hexd(v >> 4), hexd(v & 15)
            HEXPAIR[(hi_.e.get_id(), lo_.e.get_id())] = ((hi_.e, lo_.e), v)
            return SymStr([hi_, lo_])
        raise Unsupported(f"format spec {spec!r} on symbolic int")
    return NotImplemented


def _h_contains(x, y):
    if type(y) is SymStr:
        return y.__contains__(x)
    if type(x) is SymStr:
        if isinstance(y, _str):
            if len(x) != 1:
                return SymStr.lift(y).__contains__(x)
            # one membership test (a single fork), not one fork per member
            return _b(in_ranges(x.cps[0], _merge_ranges(sorted(ord(ch) for ch in y))))
        if isinstance(y, (dict, set, frozenset, list, tuple)) or type(y).__name__ in ("dict_keys",):
            for e in y:
                if isinstance(e, (_str, SymStr)) and _b(x == e):
                    return True
            return False
    return None


def _h_getitem(c, k):
    if type(k) is SymStr and isinstance(c, dict):
        for key in c:
            if isinstance(key, (_str, SymStr)) and _b(k == key):
                return c[key]
        raise KeyError(k)
    return NotImplemented


def _h_int(*a, **k):
    if a and type(a[0]) is SymStr:
        base = a[1] if len(a) > 1 else k.get("base", 10)
        return parse_int(a[0], base)
    return NotImplemented


HAVOC_FLOAT = [False]  # float(text): only decide whether it raises; the value is an unconstrained symbolic float
SYM_DICT = [False]  # dict() -> SymDict (keys compared with ==, no hashing)


def _h_float(x):
    if type(x) is SymStr:
        if not HAVOC_FLOAT[0]:
            raise Unsupported("float() of symbolic text")
        # python float grammar subset decided by forking: [sign] digits [. digits] [e [sign] digits] | [sign] . digits ...
        cls = []
        for c in x.cps:
            if _b(in_ranges(c, [(48, 57)])):
                cls.append("d")
            elif _b(cp_eq(c, 46)):
                cls.append(".")
            elif _b(in_ranges(c, [(43, 43), (45, 45)])):
                cls.append("s")
            elif _b(in_ranges(c, [(69, 69), (101, 101)])):
                cls.append("e")
            else:
                raise Unsupported("float() of symbolic text outside the plain decimal grammar")
        import re as _re

        if _re.fullmatch(r"s?(d+(\.d*)?|\.d+)(es?d+)?", "".join(cls)) is None:
            raise ValueError("could not convert string to float")
        from .symfloat import SymFloat

        _FRESH[0] += 1
        return SymFloat.var(f"__havoc_float{_FRESH[0]}")
    return NotImplemented


def _h_defaultdict(*a, **k):
    if SYM_DICT[0] and len(a) == 1 and not k:
        from .symcoll import SymDict

        class SymDefaultDict(SymDict):
            def __init__(self, factory, entries=()):
                super().__init__(entries)
                self.default_factory = factory

            def __getitem__(self, key):
                i = self._find(key)
                if i < 0:
                    v = self.default_factory()
                    self.entries.append([key, v])
                    return v
                return self.entries[i][1]

            def copy(self):
                return SymDefaultDict(self.default_factory, self.entries)

        return SymDefaultDict(a[0])
    return NotImplemented


class SymSet:
    """list-backed set: membership by ==, no hashing"""

    def __init__(self, items=()):
        self.items = []
        for x in items:
            self.add(x)

    def __contains__(self, x):
        for e in self.items:
            r = e == x
            if r is not NotImplemented and bool(r):
                return True
        return False

    def add(self, x):
        if x not in self:
            self.items.append(x)

    def discard(self, x):
        self.items = [e for e in self.items if not bool(e == x)]

    def __len__(self):
        return len(self.items)

    def __iter__(self):
        return iter(list(self.items))

    def __bool__(self):
        return bool(self.items)


def _h_set(*a, **k):
    if SYM_DICT[0] and not k and len(a) <= 1:
        return SymSet(*a)
    return NotImplemented


def _h_dict(*a, **k):
    if SYM_DICT[0] and not k and len(a) <= 1:
        from .symcoll import SymDict

        return SymDict(*a)
    return NotImplemented


def _h_chr(c):
    if type(c) is SymInt:
        if not _b((c >= 0) & (c <= CP_MAX)):
            raise ValueError("chr() arg not in range(0x110000)")
        return SymStr([c])
    return NotImplemented


def _h_ord(s):
    if type(s) is SymStr:
        if len(s) != 1:
            raise TypeError("ord() expected a character")
        return s.cps[0]
    return NotImplemented


def _h_len(x):
    if type(x) in (SymStr, SymBytes, SymByteArray):
        return x.__len__()
    return NotImplemented


def _h_bytes(*a):
    if a and type(a[0]) in (SymByteArray, SymBytes):
        return normb(SymBytes.lift(a[0]))
    if a and isinstance(a[0], (list, tuple)) and any(type(b) is SymInt for b in a[0]):
        return SymBytes(a[0])
    return NotImplemented


def _h_bytearray(*a):
    if SYM_BYTEARRAY[0]:
        return SymByteArray(*a)
    return NotImplemented


SYM_BYTEARRAY = [False]


def _h_print(*args, **kw):
    f = kw.get("file")
    if isinstance(f, SymStream) or any(type(a) is SymStr for a in args):
        if f is None or not hasattr(f, "write"):
            raise Unsupported("print of symbolic text to a native stream")
        sep, end = kw.get("sep", " "), kw.get("end", "\n")
        f.write(join(sep if sep is not None else " ", [a if isinstance(a, (_str, SymStr)) else hook.sym_str(a) for a in args]))
        if end:
            f.write(end)
        return None
    return NotImplemented


def _h_repr(x):
    if type(x) is SymStr:
        raise Unsupported("repr of symbolic text")
    return NotImplemented


def _h_hash(x):
    if type(x) in (SymStr, SymBytes):
        raise Unsupported("hash of symbolic text")
    return NotImplemented


def _isinstance_str(o, c):
    return hook._orig_isinstance("", c)


def install():
    if getattr(install, "done", False):
        return
    install.done = True
    hook.EXEMPLAR[SymStr] = lambda o: ""
    hook.EXEMPLAR[SymBytes] = lambda o: b""
    hook.EXEMPLAR[SymByteArray] = lambda o: bytearray()
    hook.STR_HANDLERS.append(_h_str)
    hook.FORMAT_HANDLERS.append(_h_format)
    hook.CONTAINS_HANDLERS.insert(0, _h_contains)
    hook.GETITEM_HANDLERS.insert(0, _h_getitem)
    hook.INT_HANDLERS.append(_h_int)
    hook.FLOAT_HANDLERS.append(_h_float)
    hook.JOIN[0] = lambda parts: join("", parts)
    for name, h in (("dict", _h_dict), ("set", _h_set), ("defaultdict", _h_defaultdict), ("chr", _h_chr), ("ord", _h_ord), ("len", _h_len), ("bytes", _h_bytes), ("bytearray", _h_bytearray), ("print", _h_print), ("repr", _h_repr), ("hash", _h_hash)):
        hook.SIMPLE_CALLS.setdefault(name, []).insert(0, h)
    hook.METHOD_HANDLERS.append(_h_method)


def _h_method(name, recv, args, kwargs):
    """str methods called on a native receiver with symbolic arguments (e.g. ','.join(parts), text.startswith(sym))"""
    if name == "get" and type(recv) is dict and args and type(args[0]) is SymStr:
        for key in recv:
            if isinstance(key, (_str, SymStr)) and _b(args[0] == key):
                return recv[key]
        return args[1] if len(args) > 1 else kwargs.get("default")
    if isinstance(recv, _str) and type(recv) is not SymStr:
        if name == "join" and len(args) == 1:
            parts = list(args[0])
            if any(type(p) is SymStr for p in parts):
                return SymStr.lift(recv).join(parts)
            return recv.join(parts)
        if any(type(a) is SymStr for a in args) and name in ("startswith", "endswith", "find", "rfind", "count", "replace", "split", "index", "removeprefix", "removesuffix"):
            return getattr(SymStr.lift(recv), name)(*args, **kwargs)
    return NotImplemented
