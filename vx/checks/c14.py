"""C14 - canonicalization, constant folding and CSE preserve program results (symbolic translation validation)."""
from __future__ import annotations

import itertools

import z3

from vx import refprog, refsem, tv, util
from vx.framework import decide
from vx.symfloat import SymFloat
from vx.symx import SymInt

from xdsl.context import Context
from xdsl.dialects import arith, builtin, cf, func, scf
from xdsl.dialects.builtin import ModuleOp
from xdsl.parser import Parser
from xdsl.utils.exceptions import VerifyException

LEVEL = "translation_validation"
EXPLANATION = (
    "For every program skeleton of the family the real pass runs natively on IR whose arith.constant payloads are SYMBOLIC "
    "(the pass forks on them: c == 0, c == 1, range checks, folds); source and result programs get meaning from the reference "
    "semantics on symbolic arguments and z3 decides refinement (source defined => target defined, bit-identical results, same "
    "effect trace) for all constants and all arguments. CSE hashes attributes, so its skeletons use concrete boundary constants "
    "with symbolic arguments."
)
FUNCTIONS = ["xdsl.transforms.canonicalize.CanonicalizePass", "xdsl.transforms.canonicalization_patterns.arith.*", "xdsl.dialects.arith: fold/py_operation/is_right_unit/is_right_zero",
             "xdsl.transforms.constant_fold_interp.ConstantFoldInterpPass", "xdsl.interpreters.arith.ArithFunctions (through constant-fold-interp)",
             "xdsl.transforms.test_constant_folding.TestConstantFoldingPass/TestSpecialisedConstantFoldingPass", "xdsl.transforms.common_subexpression_elimination.CommonSubexpressionElimination",
             "xdsl.folder.Folder", "xdsl.pattern_rewriter (driver, as used by the passes)", "xdsl.dialects.builtin.IntegerAttr/FloatAttr constructors"]
ASSUMPTIONS = ["reference semantics vx/refsem.py + vx/refprog.py (MLIR arith: wrap-around, poison on div-by-zero/overflowing sdiv/oversized shifts, IEEE-754 in the op's precision, fast-math: nnan/ninf poison, nsz frees zero sign, reassoc/contract/afn/arcp leave the value unconstrained)",
               "NaN payloads identified", "struct.pack/unpack of floats replaced by exact IEEE rounding (vx/shim_struct.py)", "z3 QF_BV/QF_FP, cvc5 fallback"]
OUTSIDE = ["vectors/tensors", "programs with more than two arith ops (three for reassociation chains)", "scf.for/while bodies", "integer widths other than the listed ones"]
STUBS = ["struct pack/unpack (IEEE rounding model)", "math.isnan/copysign"]

INT_OPS = sorted(refsem.INT_BIN)
FLOAT_OPS = ["arith.addf", "arith.subf", "arith.mulf", "arith.divf", "arith.minimumf", "arith.maximumf", "arith.minnumf", "arith.maxnumf"]
PASSES = ["canonicalize", "constant-fold-interp"]


def bounds(tier):
    return {"int_types": ITYPES[tier], "float_types": ["f32", "f64"], "ops_per_program": 2, "solver_timeout_ms": 20000 if tier == "quick" else 120000}


ITYPES = {"quick": ["i1", "i8", "i64"], "thorough": ["i1", "i8", "i16", "i32", "i64", "index"]}
HARD = {"arith.divsi", "arith.remsi", "arith.floordivsi", "arith.ceildivsi", "arith.divui", "arith.remui", "arith.ceildivui", "arith.muli"}


def C(name, t):
    return (name, "arith.constant", [], {"const": name, "type": t})


def spec_binop(op, t, pattern, opts=None):
    """pattern in xc, cx, cc, xx, xy"""
    ops = []
    names = {"x": "a0", "y": "a1"}
    operands = []
    k = 0
    for ch in pattern:
        if ch == "c":
            k += 1
            ops.append(C(f"c{k}", t))
            operands.append(f"c{k}")
        else:
            operands.append(names[ch])
    ops.append(("r", op, operands, dict(opts or {})))
    return {"args": [t, t], "ops": ops, "ret": ["r"], "consts": {f"c{i}": t for i in range(1, k + 1)}}


def spec_chain(op1, op2, t, shape, o1=None, o2=None):
    """shape: 'xc.c' = (x op1 c1) op2 c2 ; 'cx.c' = (c1 op1 x) op2 c2 ; 'xc.x' ; 'c.xc' = c2 op2 (x op1 c1)"""
    first, second = shape.split(".")
    ops = []
    k = 0

    def operand(ch):
        nonlocal k
        if ch == "c":
            k += 1
            ops.append(C(f"c{k}", t))
            return f"c{k}"
        return {"x": "a0", "y": "a1", "t": "t"}[ch]

    if len(first) == 2:
        a, b = operand(first[0]), operand(first[1])
        ops.append(("t", op1, [a, b], dict(o1 or {})))
        c = operand(second)
        ops.append(("r", op2, ["t", c], dict(o2 or {})))
    else:
        a, b = operand(second[0]), operand(second[1])
        ops.append(("t", op1, [a, b], dict(o1 or {})))
        c = operand(first)
        ops.append(("r", op2, [c, "t"], dict(o2 or {})))
    return {"args": [t, t], "ops": ops, "ret": ["r"], "consts": {f"c{i}": t for i in range(1, k + 1)}}


def obligations(tier):
    obs = []

    def add(idp, spec, passes=PASSES, weight=1, **kw):
        for p in passes:
            obs.append(dict({"id": f"C14/{p}/{idp}", "kind": "sym", "spec": spec, "pass": p, "weight": weight}, **kw))

    for t in ITYPES[tier]:
        for op in INT_OPS:
            for pat in ("xc", "cx", "cc", "xx"):
                if op in HARD and t in ("i64", "index", "i32") and pat == "cc" and op != "arith.muli":
                    # two free 64-bit constants through a division fold: decided at 8/16 bit; 64-bit is bug-hunt (short timeout)
                    add(f"{op}/{t}/{pat}", spec_binop(op, t, pat), weight=4, bughunt=True)
                    continue
                add(f"{op}/{t}/{pat}", spec_binop(op, t, pat), weight=3 if op in HARD else 1)
        for p in range(10):
            for pat in ("xc", "cc", "xx", "cx"):
                add(f"arith.cmpi.{refsem.CMPI_NAMES[p]}/{t}/{pat}", spec_binop("arith.cmpi", t, pat, {"pred": p}))
    # overflow flags
    for t in (["i8"] if tier == "quick" else ["i8", "i64"]):
        for op in ("arith.addi", "arith.subi", "arith.muli"):
            for fl in ("nsw", "nuw"):
                for pat in ("xc", "cc"):
                    add(f"{op}.{fl}/{t}/{pat}", spec_binop(op, t, pat, {"overflow": fl}))
    # chains (reassociation-like patterns, constant re-folding, commutative swaps)
    chain_ts = ["i8"] if tier == "quick" else ["i8", "i64"]
    chain_ops = ["arith.addi", "arith.subi", "arith.muli", "arith.andi", "arith.ori", "arith.xori"]
    for t in chain_ts:
        for o1 in chain_ops:
            for o2 in (chain_ops if tier == "thorough" else [o1, "arith.addi", "arith.subi"]):
                for shape in ("xc.c", "cx.c", "c.xc") if tier == "thorough" else ("xc.c", "cx.c"):
                    add(f"{o2}({o1})/{t}/{shape}", spec_chain(o1, o2, t, shape), passes=["canonicalize"], weight=2)
        for o1 in ("arith.shli", "arith.shrsi", "arith.shrui", "arith.divsi", "arith.remsi", "arith.minsi", "arith.maxui"):
            add(f"arith.addi({o1})/{t}/cc.c", spec_chain(o1, "arith.addi", t, "cc.c"), weight=2)
    # select
    for t in (["i8", "i1"] if tier == "quick" else ["i1", "i8", "i64"]):
        for cond in ("arg", "const"):
            for l, r in (("x", "y"), ("x", "x"), ("c", "c"), ("x", "c"), ("c", "x")):
                ops = []
                k = 0
                consts = {}
                if cond == "const":
                    ops.append(C("cc", "i1"))
                    consts["cc"] = "i1"
                names = []
                for ch in (l, r):
                    if ch == "c":
                        k += 1
                        ops.append(C(f"c{k}", t))
                        consts[f"c{k}"] = t
                        names.append(f"c{k}")
                    else:
                        names.append({"x": "a1", "y": "a2"}[ch])
                ops.append(("r", "arith.select", ["cc" if cond == "const" else "a0"] + names, {}))
                add(f"arith.select/{t}/{cond}.{l}{r}", {"args": ["i1", t, t], "ops": ops, "ret": ["r"], "consts": consts})
    # floats
    for t in ("f32", "f64"):
        for op in FLOAT_OPS:
            for pat in ("xc", "cx", "cc", "xx"):
                add(f"{op}/{t}/{pat}", spec_binop(op, t, pat), weight=4)
        for op in ("arith.addf", "arith.mulf"):
            for fm in ("reassoc", "fast", "none"):
                for shape in ("cx.c", "xc.c"):
                    add(f"{op}({op}).{fm}/{t}/{shape}", spec_chain(op, op, t, shape, {"fastmath": fm}, {"fastmath": fm}), passes=["canonicalize"], weight=4)
        for p in range(16):
            for pat in ("xc", "cc", "xx") if tier == "thorough" else ("cc", "xx"):
                add(f"arith.cmpf.{refsem.CMPF_NAMES[p]}/{t}/{pat}", spec_binop("arith.cmpf", t, pat, {"pred": p}), weight=2)
        # select(cmpf P x y [flags], x, y) -> max/min
        for fm in ("none", "nnan", "nsz", "nnan,nsz", "fast"):
            for p in ((2, 4, 9, 12, 1) if tier == "quick" else range(16)):
                for swap in (False, True):
                    ops = [("c", "arith.cmpf", ["a0", "a1"], {"pred": p, "fastmath": fm}),
                           ("r", "arith.select", ["c", "a1", "a0"] if swap else ["c", "a0", "a1"], {})]
                    add(f"select(cmpf.{refsem.CMPF_NAMES[p]}.{fm}){'/swapped' if swap else ''}/{t}", {"args": [t, t], "ops": ops, "ret": ["r"], "consts": {}}, passes=["canonicalize"], weight=3)
    # casts of constants and arguments
    for src, dst, op in (("i8", "i64", "arith.extsi"), ("i8", "i64", "arith.extui"), ("i64", "i8", "arith.trunci"), ("i8", "index", "arith.index_cast"), ("index", "i8", "arith.index_cast"), ("i1", "i8", "arith.extui"), ("i1", "i8", "arith.extsi")):
        for pat in ("c", "x"):
            ops = ([C("c1", src)] if pat == "c" else []) + [("r", op, ["c1" if pat == "c" else "a0"], {"type": dst})]
            add(f"{op}/{src}->{dst}/{pat}", {"args": [src], "ops": ops, "ret": ["r"], "consts": {"c1": src} if pat == "c" else {}})
    # the test constant-folding passes only accept addi of two constants (they assert it)
    for t in ("i8", "i64"):
        W = int(t[1:])
        add(f"arith.addi/{t}/cc", spec_binop("arith.addi", t, "cc"), passes=["test-constant-folding", "test-specialised-constant-folding"], LO=-(1 << (W - 1)), HI=1 << W)
        add(f"arith.addi(arith.addi)/{t}/cc.c", spec_chain("arith.addi", "arith.addi", t, "cc.c"), passes=["test-specialised-constant-folding"])
    # CSE: concrete boundary constants, symbolic arguments, programs as text
    for name in CSE_PROGRAMS:
        obs.append({"id": f"C14/cse/{name}", "kind": "text", "prog": name, "pass": "cse", "weight": 2})
        obs.append({"id": f"C14/canonicalize+cse/{name}", "kind": "text", "prog": name, "pass": "canonicalize,cse", "weight": 2})
    return obs


CSE_PROGRAMS = {
    "dup_pure": """
func.func @f(%x: i8, %y: i8) -> i8 {
  %a = arith.addi %x, %y : i8
  %b = arith.addi %x, %y : i8
  %c = arith.muli %a, %b : i8
  func.return %c : i8
}""",
    "dup_commuted_not_equal": """
func.func @f(%x: i8, %y: i8) -> i8 {
  %a = arith.subi %x, %y : i8
  %b = arith.subi %y, %x : i8
  %c = arith.muli %a, %b : i8
  func.return %c : i8
}""",
    "dup_consts": """
func.func @f(%x: i8) -> (i8, i8, i8) {
  %c1 = arith.constant -1 : i8
  %c2 = arith.constant -2 : i8
  %c3 = arith.constant -1 : i8
  %a = arith.addi %x, %c1 : i8
  %b = arith.addi %x, %c2 : i8
  %c = arith.addi %x, %c3 : i8
  func.return %a, %b, %c : i8, i8, i8
}""",
    "float_zero_consts": """
func.func @f(%x: f64) -> (f64, f64) {
  %p = arith.constant 0.0 : f64
  %n = arith.constant -0.0 : f64
  %a = arith.divf %x, %p : f64
  %b = arith.divf %x, %n : f64
  func.return %a, %b : f64, f64
}""",
    "diff_pred": """
func.func @f(%x: i8, %y: i8) -> (i1, i1) {
  %a = arith.cmpi slt, %x, %y : i8
  %b = arith.cmpi ult, %x, %y : i8
  func.return %a, %b : i1, i1
}""",
    "diff_types": """
func.func @f(%x: i8) -> (i16, i32) {
  %a = arith.extsi %x : i8 to i16
  %b = arith.extsi %x : i8 to i32
  func.return %a, %b : i16, i32
}""",
    "if_branches": """
func.func @f(%c: i1, %x: i8, %y: i8) -> i8 {
  %r = scf.if %c -> (i8) {
    %a = arith.muli %x, %y : i8
    scf.yield %a : i8
  } else {
    %b = arith.muli %x, %y : i8
    %d = arith.addi %b, %x : i8
    scf.yield %d : i8
  }
  %e = arith.muli %x, %y : i8
  %s = arith.addi %r, %e : i8
  func.return %s : i8
}""",
    "outer_into_inner": """
func.func @f(%c: i1, %x: i8, %y: i8) -> i8 {
  %e = arith.xori %x, %y : i8
  %r = scf.if %c -> (i8) {
    %a = arith.xori %x, %y : i8
    scf.yield %a : i8
  } else {
    scf.yield %e : i8
  }
  func.return %r : i8
}""",
    "blocks": """
func.func @f(%c: i1, %x: i8, %y: i8) -> i8 {
  cf.cond_br %c, ^t, ^e
^t:
  %a = arith.andi %x, %y : i8
  cf.br ^m(%a : i8)
^e:
  %b = arith.andi %x, %y : i8
  %b2 = arith.ori %b, %x : i8
  cf.br ^m(%b2 : i8)
^m(%v: i8):
  %d = arith.andi %x, %y : i8
  %s = arith.addi %v, %d : i8
  func.return %s : i8
}""",
    "effects_between": """
func.func private @ext(i8) -> i8
func.func @f(%x: i8, %y: i8) -> i8 {
  %a = func.call @ext(%x) : (i8) -> i8
  %b = func.call @ext(%x) : (i8) -> i8
  %c = arith.addi %a, %b : i8
  %d = arith.addi %a, %b : i8
  %e = arith.muli %c, %d : i8
  func.return %e : i8
}""",
    "fold_chain": """
func.func @f(%x: i8) -> i8 {
  %c1 = arith.constant 100 : i8
  %c2 = arith.constant 100 : i8
  %a = arith.addi %c1, %c2 : i8
  %b = arith.addi %x, %a : i8
  %c = arith.addi %x, %a : i8
  %d = arith.subi %b, %c : i8
  %e = arith.addi %d, %a : i8
  func.return %e : i8
}""",
}

_CTX = None


def ctx():
    global _CTX
    if _CTX is None:
        _CTX = Context()
        for d in (builtin.Builtin, arith.Arith, func.Func, cf.Cf, scf.Scf):
            _CTX.load_dialect(d)
    return _CTX


def get_pass(name):
    from xdsl.transforms import get_all_passes

    return get_all_passes()[name]()


def apply_passes(m, names):
    for n in names.split(","):
        p = get_pass(n)
        p().apply(ctx(), m) if isinstance(p, type) else p.apply(ctx(), m)


def run(ob, tier, stats, exclude):
    tmo = 20000 if tier == "quick" else 120000
    if ob.get("bughunt"):
        tmo = 8000
    if ob["kind"] == "sym":
        spec = ob["spec"]

        def h(ex):
            payloads = {n: tv.sym_const(n, t) for n, t in spec["consts"].items()}
            m, f = tv.build_func(spec, payloads)
            m.verify()
            args = tv.arg_terms(f)
            before = tv.meaning(m, "f", args)
            apply_passes(m, ob["pass"])
            try:
                m.verify()
            except VerifyException as e:
                raise tv.InvalidIR(f"pass output does not verify: {e}")
            try:
                after = tv.meaning(m, "f", args)
            except refprog.RefUnsupported as e:
                if "undefined value" in str(e):
                    raise tv.InvalidIR(str(e))
                raise
            return tv.refinement(before, after)

        r = decide(h, timeout_ms=tmo, budget_s=150 if tier == "quick" else 1200, stats=stats, exclude=exclude, ob=ob, max_paths=3000)
        if ob.get("bughunt") and r["status"] == "inconclusive":
            r["reasons"] = ["bug-hunt only at this width (division fold with two free 64-bit constants)"]
        return r
    if ob["kind"] == "text":
        def h(ex):
            m = Parser(ctx(), "builtin.module {" + CSE_PROGRAMS[ob["prog"]] + "}").parse_module()
            m.verify()
            f = next(o for o in m.walk() if isinstance(o, func.FuncOp) and o.sym_name.data == "f")
            args = tv.arg_terms(f)
            before = tv.meaning(m, "f", args)
            apply_passes(m, ob["pass"])
            try:
                m.verify()
            except VerifyException as e:
                raise tv.InvalidIR(f"pass output does not verify: {e}")
            try:
                after = tv.meaning(m, "f", args)
            except refprog.RefUnsupported as e:
                if "undefined value" in str(e):
                    raise tv.InvalidIR(str(e))
                raise
            return tv.refinement(before, after)

        return decide(h, timeout_ms=tmo, budget_s=150, stats=stats, exclude=exclude, ob=ob)
    raise KeyError(ob["kind"])


def evidence_extra(tier, results):
    return {"programs": len(results), "disagreements_checked": sum(r["ok_paths"] for r in results)}


# ------------------------------------------------------------------------------------------------
def replay(ob, inputs):
    """concrete constants, uninstrumented pass, both programs evaluated by the reference interpreter on the model's arguments"""
    try:
        if ob["kind"] == "sym":
            spec = ob["spec"]
            payloads = {n: tv.concrete_payload(inputs.get(n, 0), t) for n, t in spec["consts"].items()}
            m, f = tv.build_func(spec, payloads)
        else:
            m = Parser(ctx(), "builtin.module {" + CSE_PROGRAMS[ob["prog"]] + "}").parse_module()
            f = next(o for o in m.walk() if isinstance(o, func.FuncOp) and o.sym_name.data == "f")
        m.verify()
        src_text = str(m)
        # arguments: try the model's values; function-typed uninterpreted symbols stay symbolic in z3 terms
        args = tv.concrete_args(f, inputs)
        before = tv.meaning(m, "f", args)
        try:
            apply_passes(m, ob["pass"])
            m.verify()
            after = tv.meaning(m, "f", args)
        except BaseException as e:
            if isinstance(e, (KeyboardInterrupt, SystemExit)):
                raise
            return {"violates": True, "observed": f"pass failed or produced invalid IR: {type(e).__name__}: {str(e)[:300]}", "source": src_text}
        prop = tv.refinement(before, after)
        s = z3.Solver()
        s.add(z3.Not(prop))
        r = s.check()
        return {"violates": r == z3.sat, "source": src_text, "after": str(m), "args": [str(a) for a in args],
                "before_val": [str(z3.simplify(x)) for x in before[0]], "after_val": [str(z3.simplify(x)) for x in after[0]]}
    except Exception as e:
        return {"violates": True, "observed": f"exception {type(e).__name__}: {e}"}
