"""C10 - IRDL operation verification accepts exactly the instances the definition describes; constructor and accessors agree."""
from __future__ import annotations

import itertools

import z3

from vx.framework import decide
from vx.symx import SymBool, SymInt, as_z3_bool, sym_not

from xdsl.dialects.builtin import DenseArrayBase, IndexType, IntAttr, IntegerType, i32
from xdsl.dialects.test import TestOp
from xdsl.ir import Attribute, Block, Region
from xdsl import irdl
from xdsl.irdl import (AnyAttr, AnyOf, BaseAttr, EqAttrConstraint, IRDLOperation, RangeOf, RangeVarConstraint, VarConstraint, irdl_op_definition)

LEVEL = "other"
EXPLANATION = (
    "IRDL operation classes are generated from definition shapes (for each construct - operands, results, regions, successors - "
    "every sequence of single/optional/variadic definitions up to length 3 (2 for regions/successors) x every admissible "
    "segment option: none, SameVariadic*Size, AttrSized*Segments as property and as attribute). An instance with n elements "
    "(n enumerated 0..5) is created through Operation.create, with the segment-size array holding SYMBOLIC i32 values; the real "
    "OpDef.verify runs on it and z3 decides, for all size values, that verification passes exactly when the reference predicate "
    "holds (sizes non-negative, 1 for single, 0/1 for optional, sum equal to n; same-size and single-variadic arithmetic), and "
    "that on acceptance every generated accessor returns exactly the reference slice. Type-constraint families put SYMBOLIC "
    "integer-type widths on operands/results/properties under shared constraint variables (VarConstraint across singles, "
    "variadics and optionals, RangeVarConstraint across two variadic segments incl. empty ones, equality and union "
    "constraints, required/optional/unknown properties and attributes): verification passes iff the reference formula over "
    "the widths holds. Constructor families build ops through the generated `build` from per-segment arguments; whenever the "
    "arguments satisfy the definition the op must verify and the accessors must return the given segments."
)
FUNCTIONS = ["OpDef.verify", "verify_variadic_size / verify_variadic_same_size / verify_variadic_attr_size", "irdl_op_verify_arg_list / irdl_op_verify_regions", "irdl_build_arg_list / IRDLOperation.build",
             "segment accessors (Single/Optional/Variadic x none/SameVariadic/Attr)", "VarConstraint / RangeVarConstraint / EqAttrConstraint / AnyOf / BaseAttr verify", "irdl_op_definition / OpDef.from_pyrdl (definition-time)"]
ASSUMPTIONS = ["reference: the segment rules as stated in the property (sizes >= 0, single = 1, optional in {0,1}, sum = list length; same-size: all variadic-like segments share one size k, k <= 1 if one of them is optional)"]
OUTSIDE = ["definition sequences, list lengths and segment sizes beyond the bounds stated under 'bounds'", "the operations of the registered dialects (concrete, no symbolic dimension)",
           "traits, custom verify_ methods, region entry-argument constraints"]
STUBS = ["segment-size attribute: a DenseArrayBase subclass instance whose get_values() returns the symbolic tuple (elt_type = i32 is real)"]

CONSTRUCTS = ("operand", "result", "region", "successor")
DEFS = {
    "operand": {"S": irdl.operand_def, "O": irdl.opt_operand_def, "V": irdl.var_operand_def},
    "result": {"S": irdl.result_def, "O": irdl.opt_result_def, "V": irdl.var_result_def},
    "region": {"S": irdl.region_def, "O": irdl.opt_region_def, "V": irdl.var_region_def},
    "successor": {"S": irdl.successor_def, "O": irdl.opt_successor_def, "V": irdl.var_successor_def},
}
SAME = {"operand": irdl.SameVariadicOperandSize, "result": irdl.SameVariadicResultSize, "region": irdl.SameVariadicRegionSize, "successor": irdl.SameVariadicSuccessorSize}
ATTR = {"operand": irdl.AttrSizedOperandSegments, "result": irdl.AttrSizedResultSegments, "region": irdl.AttrSizedRegionSegments, "successor": irdl.AttrSizedSuccessorSegments}
SIZE_LO, SIZE_HI = -2, 7
NMAX = 5
TH = {"quick": dict(nmax=5, lo=-2, hi=7, seqlen=3), "thorough": dict(nmax=8, lo=-3, hi=10, seqlen=4)}

_CLS = {}
import vx.symx as _symx
_symx.FORMAT_LIMIT[0] = 1  # diagnostics never fork on symbolic widths/sizes


def make_cls(construct, seq, option, constraints=None):
    """returns the IRDL op class or None if the definition is refused at definition time"""
    key = (construct, seq, option, repr(constraints))
    if key in _CLS:
        return _CLS[key]
    ns = {"name": f"gen.{construct}_{seq or 'none'}_{option}"}
    for i, k in enumerate(seq):
        if construct in ("operand", "result"):
            ns[f"s{i}"] = DEFS[construct][k](constraints[i] if constraints else AnyAttr())
        else:
            ns[f"s{i}"] = DEFS[construct][k]()
    if option == "same":
        ns["irdl_options"] = (SAME[construct](),)
    elif option == "attr_prop":
        ns["irdl_options"] = (ATTR[construct](as_property=True),)
    elif option == "attr_attr":
        ns["irdl_options"] = (ATTR[construct](as_property=False),)
    try:
        cls = irdl_op_definition(type("GenOp", (IRDLOperation,), ns))
    except Exception:
        cls = None
    _CLS[key] = cls
    return cls


def seqs(maxlen):
    out = [""]
    for n in range(1, maxlen + 1):
        out += ["".join(p) for p in itertools.product("SOV", repeat=n)]
    return out


def sym_dense(vals):
    """carrier of symbolic segment sizes: a real DenseArrayBase (elt_type i32) whose get_values() returns the symbolic tuple"""
    d = DenseArrayBase.from_list(i32, [0] * len(vals))
    vals = tuple(vals)
    object.__setattr__(d, "get_values", lambda: vals)
    return d


def ref_split(seq, option, n, sizes):
    """(accept condition, [segment (start, length)] valid when accepted) - the property's definition"""
    if option.startswith("attr"):
        conds = []
        for k, s in zip(seq, sizes):
            conds.append(s >= 0)
            if k == "S":
                conds.append(s == 1)
            elif k == "O":
                conds.append(s <= 1)
        tot = 0
        segs = []
        for s in sizes:
            segs.append((tot, s))
            tot = tot + s
        conds.append(tot == n)
        return _and(*conds), segs
    nv = sum(1 for k in seq if k in "OV")
    ns = len(seq) - nv
    if nv == 0:
        return n == ns, [(i, 1) for i in range(ns)]
    rest = n - ns
    if rest < 0 or rest % nv:
        return False, None
    k = rest // nv
    if "O" in seq and k > 1:
        return False, None
    segs, pos = [], 0
    for c in seq:
        ln = 1 if c == "S" else k
        segs.append((pos, ln))
        pos += ln
    return True, segs


def conc(x):
    return x.concretize() if isinstance(x, SymInt) else x


def make_instance(construct, cls, n, extra_props=None, types=None, attrs=None):
    kw = {"properties": dict(extra_props or {}), "attributes": dict(attrs or {})}
    holder = None
    if construct == "operand":
        kw["operands"] = list(TestOp(result_types=types if types is not None else [i32] * n).results)
    elif construct == "result":
        kw["result_types"] = types if types is not None else [i32] * n
    elif construct == "region":
        kw["regions"] = [Region(Block()) for _ in range(n)]
    else:
        blocks = [Block() for _ in range(n)]
        kw["successors"] = blocks
    op = cls.create(**kw)
    if construct == "successor":
        holder = Region([Block([op])] + kw["successors"])
    return op, holder


def elements(construct, op):
    return {"operand": op.operands, "result": op.results, "region": op.regions, "successor": op.successors}[construct]


def same_seg(got, want_elems, kind):
    if kind == "S":
        return got is want_elems[0] if len(want_elems) == 1 else False
    if kind == "O":
        return (got is None and not want_elems) or (len(want_elems) == 1 and got is want_elems[0])
    return got is not None and len(tuple(got)) == len(want_elems) and all(a is b for a, b in zip(tuple(got), want_elems))


OPT_NAME = {"operand": "operandSegmentSizes", "result": "resultSegmentSizes", "region": "regionSegmentSizes", "successor": "successorSegmentSizes"}


def size_obligations(tier):
    obs = []
    for c in CONSTRUCTS:
        for seq in seqs(TH[tier]["seqlen"] if c in ("operand", "result") else TH[tier]["seqlen"] - 1):
            for option in ("none", "same", "attr_prop", "attr_attr"):
                if tier == "quick" and option == "attr_attr" and c != "operand":
                    continue
                if make_cls(c, seq, option) is None:
                    continue
                obs.append({"id": f"C10/sizes/{c}/{seq or 'empty'}/{option}", "kind": "sizes", "construct": c, "seq": seq, "option": option, "weight": 1 + len(seq), "tier": tier})
    return obs


def h_sizes(ob, concrete=None):
    c, seq, option = ob["construct"], ob["seq"], ob["option"]

    def h(ex):
        cls = make_cls(c, seq, option)
        th = TH[ob.get("tier", "quick")]
        n = ex.choose(th["nmax"] + 1, "n") if concrete is None else concrete.get("n", 0)
        if concrete is None:
            ex.named["n"] = n
        sizes = None
        props, attrs = {}, {}
        if option.startswith("attr"):
            sizes = [SymInt.var(f"size{i}", th["lo"], th["hi"]) if concrete is None else concrete.get(f"size{i}", 0) for i in range(len(seq))]
            carrier = sym_dense(sizes) if concrete is None else DenseArrayBase.from_list(i32, sizes)
            (props if option == "attr_prop" else attrs)[OPT_NAME[c]] = carrier
        op, holder = make_instance(c, cls, n, props, attrs=attrs)
        accept, segs = ref_split(seq, option, n, sizes)
        try:
            op.verify_()
            ok = True
        except Exception:
            ok = False
        if not ok:
            return sym_not(accept) if not isinstance(accept, bool) else (not accept)
        # accepted: the reference must accept, and the accessors must return the reference slices
        if isinstance(accept, bool):
            if not accept:
                return {"prop": False, "detail": "verification passed although the list cannot be split into the declared segments"}
        else:
            if not bool(accept):
                return {"prop": False, "detail": "verification passed although the segment sizes do not describe the list"}
        elems = tuple(elements(c, op))
        for i, k in enumerate(seq):
            st, ln = segs[i]
            st, ln = conc(st), conc(ln)
            want = elems[st:st + ln]
            got = getattr(op, f"s{i}")
            if not same_seg(got, want, k):
                return {"prop": False, "detail": f"accessor s{i} ({k}) returned {got!r}, declared segment is elements [{st}:{st + ln}]"}
        return True

    return h


# ---- type-constraint families: symbolic widths -----------------------------------------------------------------
def T():
    return VarConstraint("T", AnyAttr())


def R():
    return RangeVarConstraint("R", RangeOf(AnyAttr()))


def _eqall(ws):
    c = True
    for a, b in zip(ws, ws[1:]):
        e = a == b
        c = e if c is True else c & e
    return c


def _and(*cs):
    c = True
    for e in cs:
        if e is True:
            continue
        if e is False or c is False:
            c = False
            continue
        c = e if c is True else c & e
    return c


def _or(a, b):
    if a is True or b is True:
        return True
    return a | b


# each: name -> (operand kinds, operand constraint makers, result kinds, result constraint makers, property spec, reference(ws_o segs, ws_r segs, wp))
def constraint_layouts():
    L = {}
    L["var_ss_s"] = ("SS", [T, T], "S", [T], None, lambda o, r, p: _eqall(o[0] + o[1] + r[0]))
    L["var_v_s"] = ("V", [T], "S", [T], None, lambda o, r, p: _eqall(o[0] + r[0]))
    L["var_v_v"] = ("V", [T], "V", [T], None, lambda o, r, p: _eqall(o[0] + r[0]))
    L["var_o_o"] = ("O", [T], "O", [T], None, lambda o, r, p: _eqall(o[0] + r[0]))
    L["var_sv_o"] = ("SV", [T, T], "O", [T], None, lambda o, r, p: _eqall(o[0] + o[1] + r[0]))
    L["eq_s_var"] = ("SS", [lambda: EqAttrConstraint(i32), T], "S", [T], None, lambda o, r, p: _and(o[0][0] == 32, _eqall(o[1] + r[0])))
    L["anyof"] = ("S", [lambda: AnyOf([EqAttrConstraint(IntegerType(8)), BaseAttr(IndexType)])], "S", [T], None, lambda o, r, p: o[0][0] == 8)
    L["base"] = ("V", [lambda: BaseAttr(IntegerType)], "", [], None, lambda o, r, p: True)
    L["range_v_v"] = ("V", [R], "V", [R], None, lambda o, r, p: (len(o[0]) == len(r[0])) and _and(*[a == b for a, b in zip(o[0], r[0])]))
    L["range_vv"] = ("VV", [R, R], "", [], "same", lambda o, r, p: (len(o[0]) == len(o[1])) and _and(*[a == b for a, b in zip(o[0], o[1])]))
    L["range_v_var_s"] = ("V", [R], "VS", [R, T], None, lambda o, r, p: (len(o[0]) == len(r[0])) and _and(*[a == b for a, b in zip(o[0], r[0])]))
    L["prop_var"] = ("S", [T], "", [], "propT", lambda o, r, p: o[0][0] == p)
    L["prop_var_v"] = ("V", [T], "S", [T], "propT", lambda o, r, p: _eqall(o[0] + r[0] + [p]))
    return L


def make_constraint_cls(name):
    ok, oc, rk, rc, pspec, _ = constraint_layouts()[name]
    key = ("layout", name)
    if key in _CLS:
        return _CLS[key]
    ns = {"name": f"gen.layout_{name}"}
    for i, k in enumerate(ok):
        ns[f"o{i}"] = DEFS["operand"][k](oc[i]())
    for i, k in enumerate(rk):
        ns[f"r{i}"] = DEFS["result"][k](rc[i]())
    opts = []
    if sum(1 for k in ok if k in "OV") > 1:
        opts.append(irdl.SameVariadicOperandSize())
    if sum(1 for k in rk if k in "OV") > 1:
        opts.append(irdl.SameVariadicResultSize())
    if pspec == "propT":
        ns["p"] = irdl.prop_def(T())
    ns["irdl_options"] = tuple(opts)
    cls = irdl_op_definition(type("LayoutOp", (IRDLOperation,), ns))
    _CLS[key] = cls
    return cls


def seg_lengths(kinds, tier, quickmax=2):
    """enumerate admissible per-segment lengths (sizes are decided by the size family; here they are valid)"""
    opts = []
    for k in kinds:
        opts.append([1] if k == "S" else ([0, 1] if k == "O" else list(range(0, (quickmax if tier == "quick" else 3) + 1))))
    out = []
    for combo in itertools.product(*opts):
        vl = [l for k, l in zip(kinds, combo) if k in "OV"]
        if len(vl) > 1 and len(set(vl)) > 1:
            continue
        out.append(combo)
    return out


def constraint_obligations(tier):
    obs = []
    for name, (ok, oc, rk, rc, pspec, _) in constraint_layouts().items():
        for lo in seg_lengths(ok, tier):
            for lr in seg_lengths(rk, tier):
                obs.append({"id": f"C10/constraints/{name}/o{''.join(map(str, lo)) or '-'}_r{''.join(map(str, lr)) or '-'}", "kind": "constraints", "layout": name, "lo": list(lo), "lr": list(lr), "weight": 2})
    return obs


def wty(w):
    return IntegerType(IntAttr(w))


def h_constraints(ob, concrete=None):
    name = ob["layout"]
    ok, oc, rk, rc, pspec, ref = constraint_layouts()[name]

    def h(ex):
        cls = make_constraint_cls(name)
        cnt = [0]

        def fresh():
            nm = f"w{cnt[0]}"
            cnt[0] += 1
            return SymInt.var(nm, 1, 64) if concrete is None else concrete.get(nm, 1)

        o = [[fresh() for _ in range(l)] for l in ob["lo"]]
        r = [[fresh() for _ in range(l)] for l in ob["lr"]]
        p = fresh() if pspec == "propT" else None
        operands = list(TestOp(result_types=[wty(w) for seg in o for w in seg]).results)
        props = {"p": wty(p)} if p is not None else {}
        op = cls.create(operands=operands, result_types=[wty(w) for seg in r for w in seg], properties=props)
        want = ref(o, r, p)
        try:
            op.verify_()
            ok_ = True
        except Exception:
            ok_ = False
        if isinstance(want, bool):
            return want == ok_
        return want if ok_ else sym_not(want)

    return h


# ---- properties / attributes presence ------------------------------------------------------------------------
def h_props(ob, concrete=None):
    def h(ex):
        key = ("props",)
        if key not in _CLS:
            ns = {"name": "gen.props", "req": irdl.prop_def(IntegerType), "opt": irdl.opt_prop_def(IntegerType), "areq": irdl.attr_def(IntegerType), "aopt": irdl.opt_attr_def(IntegerType), "irdl_options": ()}
            _CLS[key] = irdl_op_definition(type("PropsOp", (IRDLOperation,), ns))
        cls = _CLS[key]
        pres = {}
        for nm in ("req", "opt", "unknown", "areq", "aopt", "aunknown"):
            pres[nm] = bool(ex.choose(2, nm)) if concrete is None else bool(concrete.get(nm, 0))
            if concrete is None:
                ex.named[nm] = int(pres[nm])
        kinds = {}
        for nm in ("req", "opt", "areq", "aopt"):
            kinds[nm] = (ex.choose(2, "kind_" + nm) if concrete is None else concrete.get("kind_" + nm, 0)) if pres[nm] else 0
            if concrete is None:
                ex.named["kind_" + nm] = kinds[nm]
        val = lambda k: i32 if k == 0 else IntAttr(3)
        props = {nm: val(kinds.get(nm, 0)) for nm in ("req", "opt", "unknown") if pres[nm]}
        attrs = {nm[1:] if nm == "aunknown" else nm: val(kinds.get(nm, 0)) for nm in ("areq", "aopt", "aunknown") if pres[nm]}
        op = cls.create(properties=props, attributes=attrs)
        want = pres["req"] and pres["areq"] and not pres["unknown"] and all(kinds[nm] == 0 for nm in ("req", "opt", "areq", "aopt"))
        try:
            op.verify_()
            ok_ = True
        except Exception:
            ok_ = False
        return ok_ == want

    return h


# ---- constructor + accessors ------------------------------------------------------------------------------------
def build_obligations(tier):
    obs = []
    for c in CONSTRUCTS:
        for seq in seqs(3 if c in ("operand", "result") else 2):
            if not seq:
                continue
            for option in ("none", "same", "attr_prop"):
                if make_cls(c, seq, option) is None:
                    continue
                obs.append({"id": f"C10/build/{c}/{seq}/{option}", "kind": "build", "construct": c, "seq": seq, "option": option, "weight": 1 + len(seq)})
    return obs


def h_build(ob, concrete=None):
    c, seq, option = ob["construct"], ob["seq"], ob["option"]

    def h(ex):
        cls = make_cls(c, seq, option)
        lens = []
        for i, k in enumerate(seq):
            if k == "S":
                lens.append(1)
                continue
            l = ex.choose(2 if k == "O" else 4, f"len{i}") if concrete is None else concrete.get(f"len{i}", 0)
            if concrete is None:
                ex.named[f"len{i}"] = l
            lens.append(l)
        total = sum(lens)
        if c == "operand":
            pool = list(TestOp(result_types=[i32] * total).results)
        elif c == "result":
            pool = [IntegerType(8 + j) for j in range(total)]
        elif c == "region":
            pool = [Region(Block()) for _ in range(total)]
        else:
            pool = [Block() for _ in range(total)]
        segs, pos = [], 0
        for k, l in zip(seq, lens):
            part = pool[pos:pos + l]
            pos += l
            segs.append(part[0] if k == "S" else ((part[0] if part else None) if k == "O" else part))
        kwname = {"operand": "operands", "result": "result_types", "region": "regions", "successor": "successors"}[c]
        # do the arguments satisfy the definition?
        vl = [l for k, l in zip(seq, lens) if k in "OV"]
        satisfies = True
        if option in ("none", "same") and len(vl) > 1:
            satisfies = len(set(vl)) == 1
        try:
            op = cls.build(**{kwname: segs})
        except Exception as e:
            return {"prop": not satisfies, "detail": f"build refused arguments that satisfy the definition: {type(e).__name__}"} if satisfies else True
        holder = Region([Block([op])] + pool) if c == "successor" else None
        if not satisfies:
            return True  # nothing promised
        try:
            op.verify_()
        except Exception as e:
            return {"prop": False, "detail": f"op built from arguments satisfying the definition does not verify: {type(e).__name__}"}
        elems = tuple(elements(c, op))
        if c == "result":
            elems_cmp = [e.type for e in elems]
        pos = 0
        for i, (k, l) in enumerate(zip(seq, lens)):
            got = getattr(op, f"s{i}")
            want = elems[pos:pos + l]
            if not same_seg(got, want, k):
                return {"prop": False, "detail": f"accessor s{i} returned {got!r}, built segment was elements [{pos}:{pos + l}]"}
            if c == "result" and [e.type for e in want] != pool[pos:pos + l]:
                return {"prop": False, "detail": "result types misplaced"}
            if c in ("region", "successor") and any(a is not b for a, b in zip(want, pool[pos:pos + l])):
                return {"prop": False, "detail": "segment elements misplaced"}
            pos += l
        return True

    return h


def bounds(tier):
    th = TH[tier]
    return {"definition_sequences": f"S/O/V up to length {th['seqlen']} (operands, results), {th['seqlen'] - 1} (regions, successors); constructor family: 3 / 2", "options": ["none", "SameVariadic*Size", "AttrSized*Segments (property)", "AttrSized*Segments (attribute)"],
            "list_length": f"0..{th['nmax']}", "segment_sizes": f"symbolic in [{th['lo']},{th['hi']}]", "type_widths": "symbolic in [1,64]", "constraint_layouts": sorted(constraint_layouts())}


def obligations(tier):
    return size_obligations(tier) + constraint_obligations(tier) + build_obligations(tier) + [{"id": "C10/props", "kind": "props", "weight": 3}]


HARNESS = {"sizes": h_sizes, "constraints": h_constraints, "build": h_build, "props": h_props}


def run(ob, tier, stats, exclude):
    return decide(HARNESS[ob["kind"]](ob), timeout_ms=30000, budget_s=240, stats=stats, exclude=exclude, ob=ob, max_paths=6000)


def replay(ob, inputs):
    try:
        v = HARNESS[ob["kind"]](ob, concrete=inputs)(None)
    except Exception as e:
        return {"violates": True, "observed": f"exception {type(e).__name__}: {str(e)[:300]}"}
    if isinstance(v, dict):
        return {"violates": not v["prop"], "observed": v["detail"]}
    return {"violates": not bool(v), "observed": "verification outcome differs from the definition" if not v else "agrees"}
