"""C12 - Worklist, union-find and ScopedDict follow their abstract models (inductive step, M2)."""
from __future__ import annotations

import itertools

import z3

from vx.framework import decide
from vx.symcoll import SymDict, SymList
from vx.symx import SymBool, SymInt, as_z3_bool

from xdsl.utils import worklist as WL
from xdsl.utils.disjoint_set import DisjointSet, IntDisjointSet
from xdsl.utils.scoped_dict import ScopedDict

LEVEL = "other"
EXPLANATION = (
    "Inductive step on a symbolic state: the real methods of Worklist / IntDisjointSet / DisjointSet / ScopedDict run "
    "unmodified on an instance whose private containers hold an ARBITRARY state satisfying the representation invariant "
    "(symbolic items, symbolic parent forest with ghost ranks, symbolic keys), with symbolic arguments. The post-state must "
    "satisfy the invariant again and equal the abstract model's step; return values must equal the model's. One step from "
    "every valid state covers operation histories of any length while sizes stay within the bound."
)
FUNCTIONS = ["xdsl.utils.worklist.Worklist.push/pop/remove/__bool__", "xdsl.utils.disjoint_set.IntDisjointSet.__getitem__/union/union_left/connected/add/roots",
             "xdsl.utils.disjoint_set.DisjointSet.find/union/union_left/connected/add", "xdsl.utils.scoped_dict.ScopedDict.get/__getitem__/__contains__/__setitem__"]
ASSUMPTIONS = ["representation invariants written in vx/checks/c12.py (worklist: _map is exactly {item: index of its live cell}; union-find: parent array is a forest, root counts equal class sizes; DisjointSet: _index_by_value inverts _values)",
               "private containers replaced by vx.symcoll.SymList/SymDict (same list/dict API, symbolic cells/keys)", "z3 QF_BV"]
OUTSIDE = ["container sizes above the bound", "Worklist items that are unhashable or compare equal without being identical", "DisjointSet.__str__"]
STUBS = ["list/dict instances inside the objects under test -> SymList/SymDict"]

NMAX = {"quick": {"wl": 3, "ds": 4, "gds": 3, "sd_depth": 3}, "thorough": {"wl": 5, "ds": 6, "gds": 4, "sd_depth": 3}}


def bounds(tier):
    return {"worklist_stack_cells": NMAX[tier]["wl"], "union_find_elements": NMAX[tier]["ds"], "generic_disjoint_set_values": NMAX[tier]["gds"],
            "scoped_dict_depth": NMAX[tier]["sd_depth"], "scoped_dict_entries_per_scope": 2}


def obligations(tier):
    obs = []
    B = NMAX[tier]
    for n in range(B["wl"] + 1):
        for pat in itertools.product((0, 1), repeat=n):  # 1 = tombstone
            for m in ("push", "pop", "remove", "bool"):
                obs.append({"id": f"C12/worklist/{m}/n{n}/{''.join(map(str, pat)) or '-'}", "kind": "wl", "m": m, "pat": list(pat)})
    for n in range(1, B["ds"] + 1):
        for m in ("find", "union", "union_left", "connected", "add", "roots"):
            obs.append({"id": f"C12/intds/{m}/n{n}", "kind": "ds", "m": m, "n": n, "weight": n})
    for n in range(1, B["gds"] + 1):
        for m in ("find", "union", "union_left", "connected", "add"):
            obs.append({"id": f"C12/ds/{m}/n{n}", "kind": "gds", "m": m, "n": n, "weight": n})
    kinds = ("s", "n", "z")  # symbolic int, None, 0
    for depth in range(1, B["sd_depth"] + 1):
        shapes = list(itertools.product(range(0, 3), repeat=depth))  # entries per scope
        for shape in shapes:
            if tier == "quick" and sum(shape) > 4:
                continue
            for m in ("get", "get_default", "getitem", "contains", "setitem"):
                obs.append({"id": f"C12/scoped/{m}/{'-'.join(map(str, shape))}", "kind": "sd", "m": m, "shape": list(shape), "weight": sum(shape)})
    return obs


# ------------------------------------------------------------------------------------------------
def run(ob, tier, stats, exclude):
    k = ob["kind"]
    f = {"wl": h_worklist, "ds": h_intds, "gds": h_gds, "sd": h_scoped}[k]
    tmo = 20000 if tier == "quick" else 60000
    return decide(lambda ex: f(ex, ob), timeout_ms=tmo, budget_s=120 if tier == "quick" else 900, stats=stats, exclude=exclude, ob=ob,
                  on_raise=lambda exc, p: p.notes.get("expect_exc") == type(exc).__name__)


def _eqv(a, b):
    """z3 Bool: two items (SymInt/int) equal"""
    return as_z3_bool(SymInt.lift(a) == b)


def seq_eq(xs, ys):
    if len(xs) != len(ys):
        return z3.BoolVal(False)
    return z3.And(*[_eqv(a, b) for a, b in zip(xs, ys)]) if xs else z3.BoolVal(True)


def wl_invariant(stack_cells, map_entries):
    """_map is exactly {item: index} for the live cells; live items pairwise distinct"""
    live = [(i, c) for i, c in enumerate(stack_cells) if c is not WL._MISSING]
    cs = []
    if len(map_entries) != len(live):
        return z3.BoolVal(False)
    for i, c in live:
        cs.append(z3.Or(*[z3.And(_eqv(k, c), _eqv(v, i)) for k, v in map_entries]) if map_entries else z3.BoolVal(False))
    for (i, a), (j, b) in itertools.combinations(live, 2):
        cs.append(z3.Not(_eqv(a, b)))
    return z3.And(*cs) if cs else z3.BoolVal(True)


def h_worklist(ex, ob):
    pat = ob["pat"]
    n = len(pat)
    K = n + 2
    cells = []
    model = []
    entries = []
    for i, dead in enumerate(pat):
        if dead:
            cells.append(WL._MISSING)
        else:
            it = SymInt.var(f"item{i}", 0, K - 1)
            cells.append(it)
            model.append(it)
            entries.append([it, i])
    for a, b in itertools.combinations(model, 2):
        ex.assume(a != b)
    # the map may list its entries in any order; order is irrelevant to the code under test
    w = WL.Worklist()
    w._stack = SymList(cells)
    w._map = SymDict(entries)
    x = SymInt.var("x", 0, K - 1)
    m = ob["m"]
    x_in = z3.Or(*[_eqv(x, it) for it in model]) if model else z3.BoolVal(False)
    if m == "push":
        r = w.push(x)
        post = [c for c in w._stack.items if c is not WL._MISSING]
        eff = z3.If(x_in, seq_eq(post, model), seq_eq(post, model + [x]))
        return z3.And(wl_invariant(w._stack.items, w._map.entries), eff, z3.BoolVal(r is None))
    if m == "pop":
        if not model:
            ex.note("expect_exc", "IndexError")
        r = w.pop()
        post = [c for c in w._stack.items if c is not WL._MISSING]
        if not model:
            return z3.BoolVal(False)  # must have raised
        return z3.And(wl_invariant(w._stack.items, w._map.entries), _eqv(r, model[-1]), seq_eq(post, model[:-1]))
    if m == "remove":
        r = w.remove(x)
        post = [c for c in w._stack.items if c is not WL._MISSING]
        # expected: model without x
        alts = [z3.And(z3.Not(x_in), seq_eq(post, model))]
        for j, it in enumerate(model):
            alts.append(z3.And(_eqv(x, it), seq_eq(post, model[:j] + model[j + 1:])))
        return z3.And(wl_invariant(w._stack.items, w._map.entries), z3.Or(*alts))
    if m == "bool":
        r = bool(w)
        post = [c for c in w._stack.items if c is not WL._MISSING]
        return z3.And(wl_invariant(w._stack.items, w._map.entries), z3.BoolVal(r == bool(model)), seq_eq(post, model))
    raise KeyError(m)


# ------------------------------------------------------------------------------------------------
W = 8


def _root_terms(parent_terms, n):
    def par(t):
        e = parent_terms[-1]
        for k in range(n - 2, -1, -1):
            e = z3.If(t == k, parent_terms[k], e)
        return e

    roots = []
    for j in range(n):
        x = z3.BitVecVal(j, W)
        for _ in range(n):
            x = par(x)
        roots.append(x)
    return roots, par


def _root_of(parent_terms, n, t):
    e = t
    for _ in range(n):
        nxt = parent_terms[-1]
        for k in range(n - 2, -1, -1):
            nxt = z3.If(e == k, parent_terms[k], nxt)
        e = nxt
    return e


def sym_forest(ex, n, prefix=""):
    par = [SymInt.var(f"{prefix}p{i}", 0, n - 1) for i in range(n)]
    cnt = [SymInt.var(f"{prefix}c{i}", 0, n) for i in range(n)]
    pt = [p.ext(W) for p in par]
    rank = [z3.BitVec(f"{prefix}rank{i}", W) for i in range(n)]
    inv = []
    roots, _ = _root_terms(pt, n)
    for i in range(n):
        inv.append(z3.Or(pt[i] == i, z3.And(*[z3.Implies(pt[i] == j, z3.ULT(rank[i], rank[j])) for j in range(n)])))
        size = sum([z3.If(roots[j] == i, z3.BitVecVal(1, W), z3.BitVecVal(0, W)) for j in range(n)])
        inv.append(z3.Implies(pt[i] == i, cnt[i].ext(W) == size))
    ex.assume(z3.And(*inv))
    return par, cnt, pt, roots


def post_forest_ok(ds, n2):
    """post-state: parent pointers in range, acyclic (n2-fold unrolling reaches a fixpoint), root counts = class sizes"""
    post = [SymInt.lift(x).ext(W) for x in ds._parent.items]
    cntp = [SymInt.lift(x).ext(W) for x in ds._count.items]
    roots, par = _root_terms(post, n2)
    cs = []
    for i in range(n2):
        cs.append(z3.ULT(post[i], n2))
        cs.append(par(roots[i]) == roots[i])  # really a root: no cycle
        size = sum([z3.If(roots[j] == i, z3.BitVecVal(1, W), z3.BitVecVal(0, W)) for j in range(n2)])
        cs.append(z3.Implies(post[i] == i, cntp[i] == size))
    return z3.And(*cs), roots


def h_intds(ex, ob):
    n, m = ob["n"], ob["m"]
    ds = IntDisjointSet(size=0)
    par, cnt, pt, pre_root = sym_forest(ex, n)
    ds._parent = SymList(par)
    ds._count = SymList(cnt)
    a = SymInt.var("a", -1, n)
    b = SymInt.var("b", -1, n)
    a_ok = z3.And(a.e >= 0, a.e < n)
    b_ok = z3.And(b.e >= 0, b.e < n)
    ra, rb = _root_of(pt, n, a.ext(W)), _root_of(pt, n, b.ext(W))
    if m in ("find",):
        if bool(SymBool(z3.Not(a_ok))):
            ex.note("expect_exc", "KeyError")
        r = ds[a]
        ok, post_root = post_forest_ok(ds, n)
        return z3.And(ok, a_ok, SymInt.lift(r).ext(W) == ra, *[post_root[j] == pre_root[j] for j in range(n)])
    if m in ("union", "union_left", "connected"):
        if bool(SymBool(z3.Not(z3.And(a_ok, b_ok)))):
            ex.note("expect_exc", "KeyError")
        r = getattr(ds, m)(a, b)
        ok, post_root = post_forest_ok(ds, n)
        props = [ok, a_ok, b_ok]
        rt = as_z3_bool(r)
        if m == "connected":
            props.append(rt == (ra == rb))
            props += [post_root[j] == pre_root[j] for j in range(n)]
            return z3.And(*props)
        merged = ra != rb
        props.append(rt == merged)
        for j in range(n):
            for k in range(j + 1, n):
                same_pre = pre_root[j] == pre_root[k]
                joined = z3.Or(same_pre, z3.And(z3.Or(pre_root[j] == ra, pre_root[j] == rb), z3.Or(pre_root[k] == ra, pre_root[k] == rb)))
                props.append((post_root[j] == post_root[k]) == joined)
        # representative is a member of the class: post_root[j] in the same pre-class as j or the merged one
        for j in range(n):
            props.append(z3.Or(*[z3.And(post_root[j] == k, z3.Or(pre_root[k] == pre_root[j], z3.And(z3.Or(pre_root[j] == ra, pre_root[j] == rb), z3.Or(pre_root[k] == ra, pre_root[k] == rb)))) for k in range(n)]))
        if m == "union_left":
            post = [SymInt.lift(x).ext(W) for x in ds._parent.items]
            props.append(_root_of(post, n, a.ext(W)) == ra)
        return z3.And(*props)
    if m == "add":
        r = ds.add()
        ok, post_root = post_forest_ok(ds, n + 1)
        props = [ok, z3.BoolVal(len(ds._parent) == n + 1), SymInt.lift(r).ext(W) == n, post_root[n] == n]
        props += [post_root[j] == pre_root[j] for j in range(n)]
        props.append(z3.BoolVal(ds.value_count() == n + 1))
        return z3.And(*props)
    if m == "roots":
        rs = list(ds.roots())
        # exactly the indices that are their own parent, each once, in increasing order
        props = []
        isroot = [pt[i] == i for i in range(n)]
        cnt_roots = sum([z3.If(c, z3.BitVecVal(1, W), z3.BitVecVal(0, W)) for c in isroot])
        props.append(cnt_roots == len(rs))
        for r in rs:
            props.append(z3.Or(*[z3.And(SymInt.lift(r).ext(W) == i, isroot[i]) for i in range(n)]))
        for x, y in itertools.combinations(rs, 2):
            props.append(as_z3_bool(SymInt.lift(x) != y))
        return z3.And(*props)
    raise KeyError(m)


def h_gds(ex, ob):
    n, m = ob["n"], ob["m"]
    K = n + 2
    vals = [SymInt.var(f"v{i}", 0, K - 1) for i in range(n)]
    for x, y in itertools.combinations(vals, 2):
        ex.assume(x != y)
    d = DisjointSet(())
    par, cnt, pt, pre_root = sym_forest(ex, n)
    d._base._parent = SymList(par)
    d._base._count = SymList(cnt)
    d._values = SymList(vals)
    d._index_by_value = SymDict([[v, i] for i, v in enumerate(vals)])
    x = SymInt.var("x", 0, K - 1)
    y = SymInt.var("y", 0, K - 1)

    def idx(t):  # index of a value term (W-bit), n if absent
        e = z3.BitVecVal(n, W)
        for i in range(n - 1, -1, -1):
            e = z3.If(_eqv(t, vals[i]), z3.BitVecVal(i, W), e)
        return e

    ix, iy = idx(x), idx(y)
    x_ok, y_ok = ix != n, iy != n
    rx, ry = _root_of(pt, n, ix), _root_of(pt, n, iy)

    def val_at(t):  # value term at index term
        r = vals[-1]
        for i in range(n - 2, -1, -1):
            r = __import__("vx.symx", fromlist=["ite_int"]).ite_int(t == i, vals[i], r)
        return r

    if m == "find":
        if bool(SymBool(z3.Not(x_ok))):
            ex.note("expect_exc", "KeyError")
        r = d.find(x)
        ok, post_root = post_forest_ok(d._base, n)
        return z3.And(ok, x_ok, _eqv(r, val_at(rx)), *[post_root[j] == pre_root[j] for j in range(n)])
    if m in ("union", "union_left", "connected"):
        if bool(SymBool(z3.Not(z3.And(x_ok, y_ok)))):
            ex.note("expect_exc", "KeyError")
        r = getattr(d, m)(x, y)
        ok, post_root = post_forest_ok(d._base, n)
        props = [ok, x_ok, y_ok]
        rt = as_z3_bool(r)
        if m == "connected":
            props.append(rt == (rx == ry))
            props += [post_root[j] == pre_root[j] for j in range(n)]
            return z3.And(*props)
        props.append(rt == (rx != ry))
        for j in range(n):
            for k in range(j + 1, n):
                joined = z3.Or(pre_root[j] == pre_root[k], z3.And(z3.Or(pre_root[j] == rx, pre_root[j] == ry), z3.Or(pre_root[k] == rx, pre_root[k] == ry)))
                props.append((post_root[j] == post_root[k]) == joined)
        if m == "union_left":
            post = [SymInt.lift(t).ext(W) for t in d._base._parent.items]
            props.append(_root_of(post, n, ix) == rx)
        # values and index untouched
        props.append(seq_eq(list(d._values.items), vals))
        return z3.And(*props)
    if m == "add":
        ex.assume(z3.Not(x_ok))  # adding a value already present is outside the documented use
        d.add(x)
        ok, post_root = post_forest_ok(d._base, n + 1)
        props = [ok, z3.BoolVal(len(d) == n + 1), post_root[n] == n, seq_eq(list(d._values.items), vals + [x])]
        props += [post_root[j] == pre_root[j] for j in range(n)]
        r = d.find(x)
        props.append(_eqv(r, x))
        return z3.And(*props)
    raise KeyError(m)


# ------------------------------------------------------------------------------------------------
KINDS = ("s", "n", "z")


def h_scoped(ex, ob):
    shape, m = ob["shape"], ob["m"]
    scopes = []  # outermost first
    sd = None
    spec = []
    for lvl, cnt in enumerate(shape):
        entries = []
        keys = []
        for j in range(cnt):
            k = SymInt.var(f"k{lvl}_{j}", 0, 3)
            kind = KINDS[ex.choose(3, "kind")]
            ex.notes.setdefault("kinds", []).append(kind)
            v = SymInt.var(f"val{lvl}_{j}", -2, 2) if kind == "s" else (None if kind == "n" else 0)
            entries.append([k, v])
            keys.append(k)
        for a, b in itertools.combinations(keys, 2):
            ex.assume(a != b)
        sd = ScopedDict(sd, local_scope=SymDict(entries))
        spec.append(entries)
        scopes.append(sd)
    key = SymInt.var("key", 0, 3)
    # reference: innermost scope first
    ordered = [(k, v) for entries in reversed(spec) for (k, v) in entries]

    def first_match_conds():
        out = []
        seen = []
        for k, v in ordered:
            out.append((z3.And(_eqv(key, k), *[z3.Not(s) for s in seen]), v))
            seen.append(_eqv(key, k))
        return out, z3.And(*[z3.Not(s) for s in seen]) if seen else z3.BoolVal(True)

    conds, absent = first_match_conds()

    def matches(r, v):
        if v is None:
            return z3.BoolVal(r is None)
        if r is None:
            return z3.BoolVal(False)
        return _eqv(r, v)

    if m in ("get", "get_default"):
        default = SymInt.var("dflt", 7, 8) if m == "get_default" else None
        r = sd.get(key, default) if m == "get_default" else sd.get(key)
        alts = [z3.And(c, matches(r, v)) for c, v in conds] + [z3.And(absent, matches(r, default))]
        return z3.Or(*alts)
    if m == "getitem":
        if bool(SymBool(absent)):
            ex.note("expect_exc", "KeyError")
        r = sd[key]
        return z3.Or(*[z3.And(c, matches(r, v)) for c, v in conds]) if conds else z3.BoolVal(False)
    if m == "contains":
        r = key in sd
        return z3.BoolVal(r) == z3.Not(absent)
    if m == "setitem":
        nv = SymInt.var("newval", 5, 6)
        outer_before = [list(e) for entries in spec[:-1] for e in entries]
        sd[key] = nv
        props = [_eqv(sd[key], nv), z3.BoolVal(key in sd), _eqv(sd.get(key), nv)]
        # parents untouched
        outer_after = [e for s in scopes[:-1] for e in s._local_scope.entries]
        props.append(z3.BoolVal(len(outer_after) == len(outer_before)))
        for (k0, v0), (k1, v1) in zip(outer_before, outer_after):
            props.append(_eqv(k0, k1))
            props.append(matches(v1, v0))
        # other keys of the local scope keep their values
        other = SymInt.var("other", 0, 3)
        ex.assume(other != key)
        before_other = [z3.And(_eqv(other, k), matches(sd._local_scope.get(other), v)) for k, v in spec[-1]]
        in_local_before = z3.Or(*[_eqv(other, k) for k, v in spec[-1]]) if spec[-1] else z3.BoolVal(False)
        props.append(z3.Implies(in_local_before, z3.Or(*before_other) if before_other else z3.BoolVal(False)))
        return z3.And(*props)
    raise KeyError(m)


# ------------------------------------------------------------------------------------------------
def replay(ob, inputs):
    """Concrete re-run on plain lists/dicts with the model's values; oracle = straightforward Python models."""
    k = ob["kind"]
    try:
        if k == "wl":
            return replay_wl(ob, inputs)
        if k == "ds":
            return replay_ds(ob, inputs)
        if k == "gds":
            return replay_gds(ob, inputs)
        if k == "sd":
            return replay_sd(ob, inputs)
    except Exception as e:
        return {"violates": True, "observed": f"unexpected exception {type(e).__name__}: {e}"}
    return {"violates": False}


def replay_wl(ob, inputs):
    pat, m = ob["pat"], ob["m"]
    w = WL.Worklist()
    model = []
    for i, dead in enumerate(pat):
        if dead:
            w._stack.append(WL._MISSING)
        else:
            it = inputs[f"item{i}"]
            w._stack.append(it)
            w._map[it] = i
            model.append(it)
    x = inputs["x"]

    def live():
        return [c for c in w._stack if c is not WL._MISSING]

    def inv():
        lv = [(i, c) for i, c in enumerate(w._stack) if c is not WL._MISSING]
        return len({c for _, c in lv}) == len(lv) and dict(w._map) == {c: i for i, c in lv}

    if m == "push":
        w.push(x)
        exp = model if x in model else model + [x]
        return {"violates": not (inv() and live() == exp), "observed": [repr(w._stack), repr(w._map)], "expected_model": exp}
    if m == "pop":
        try:
            r = w.pop()
        except IndexError:
            return {"violates": bool(model), "observed": "IndexError"}
        return {"violates": not (model and r == model[-1] and inv() and live() == model[:-1]), "observed": [r, repr(w._stack), repr(w._map)]}
    if m == "remove":
        w.remove(x)
        exp = [c for c in model if c != x]
        return {"violates": not (inv() and live() == exp), "observed": [repr(w._stack), repr(w._map)], "expected_model": exp}
    if m == "bool":
        r = bool(w)
        return {"violates": not (r == bool(model) and inv() and live() == model), "observed": r}


def _classes(parent):
    n = len(parent)

    def root(i):
        for _ in range(n + 1):
            if parent[i] == i:
                return i
            i = parent[i]
        return -1

    return [root(i) for i in range(n)]


def _ds_ok(ds, n):
    p, c = list(ds._parent), list(ds._count)
    if len(p) != n or any(not (0 <= x < n) for x in p):
        return False
    r = _classes(p)
    if -1 in r:
        return False
    return all(c[i] == r.count(i) for i in range(n) if p[i] == i)


def _partition(roots):
    return {frozenset(j for j in range(len(roots)) if roots[j] == r) for r in set(roots)}


def replay_ds(ob, inputs):
    n, m = ob["n"], ob["m"]
    ds = IntDisjointSet(size=n)
    ds._parent = [inputs[f"p{i}"] for i in range(n)]
    ds._count = [inputs[f"c{i}"] for i in range(n)]
    pre = _classes(ds._parent)
    a, b = inputs.get("a", 0), inputs.get("b", 0)
    if m == "find":
        try:
            r = ds[a]
        except KeyError:
            return {"violates": 0 <= a < n, "observed": "KeyError"}
        return {"violates": not (0 <= a < n and r == pre[a] and _ds_ok(ds, n) and _classes(ds._parent) == pre), "observed": [r, ds._parent]}
    if m in ("union", "union_left", "connected"):
        try:
            r = getattr(ds, m)(a, b)
        except KeyError:
            return {"violates": 0 <= a < n and 0 <= b < n, "observed": "KeyError"}
        if not (0 <= a < n and 0 <= b < n):
            return {"violates": True, "observed": "no KeyError for out-of-range"}
        post = _classes(ds._parent)
        if m == "connected":
            return {"violates": not (r == (pre[a] == pre[b]) and _partition(post) == _partition(pre) and _ds_ok(ds, n)), "observed": [r, ds._parent]}
        exp = set()
        A, Bc = frozenset(j for j in range(n) if pre[j] == pre[a]), frozenset(j for j in range(n) if pre[j] == pre[b])
        exp = {c for c in _partition(pre) if c not in (A, Bc)} | {A | Bc}
        okk = r == (pre[a] != pre[b]) and _partition(post) == exp and _ds_ok(ds, n)
        if m == "union_left":
            okk = okk and post[a] == pre[a]
        return {"violates": not okk, "observed": [r, ds._parent, ds._count], "pre": [pre]}
    if m == "add":
        r = ds.add()
        post = _classes(ds._parent)
        return {"violates": not (r == n and _ds_ok(ds, n + 1) and post[:n] == pre and post[n] == n), "observed": [r, ds._parent]}
    if m == "roots":
        rs = list(ds.roots())
        return {"violates": rs != [i for i in range(n) if ds._parent[i] == i], "observed": rs}


def replay_gds(ob, inputs):
    n, m = ob["n"], ob["m"]
    vals = [inputs[f"v{i}"] for i in range(n)]
    d = DisjointSet(vals)
    d._base._parent = [inputs[f"p{i}"] for i in range(n)]
    d._base._count = [inputs[f"c{i}"] for i in range(n)]
    pre = _classes(d._base._parent)
    x, y = inputs.get("x"), inputs.get("y")
    if m == "find":
        try:
            r = d.find(x)
        except KeyError:
            return {"violates": x in vals, "observed": "KeyError"}
        return {"violates": not (x in vals and r == vals[pre[vals.index(x)]] and _classes(d._base._parent) == pre), "observed": r}
    if m in ("union", "union_left", "connected"):
        try:
            r = getattr(d, m)(x, y)
        except KeyError:
            return {"violates": x in vals and y in vals, "observed": "KeyError"}
        if not (x in vals and y in vals):
            return {"violates": True, "observed": "no KeyError"}
        a, b = vals.index(x), vals.index(y)
        post = _classes(d._base._parent)
        if m == "connected":
            return {"violates": not (r == (pre[a] == pre[b]) and _partition(post) == _partition(pre)), "observed": r}
        A, Bc = frozenset(j for j in range(n) if pre[j] == pre[a]), frozenset(j for j in range(n) if pre[j] == pre[b])
        exp = {c for c in _partition(pre) if c not in (A, Bc)} | {A | Bc}
        okk = r == (pre[a] != pre[b]) and _partition(post) == exp and _ds_ok(d._base, n) and list(d._values) == vals
        if m == "union_left":
            okk = okk and post[a] == pre[a]
        return {"violates": not okk, "observed": [r, d._base._parent]}
    if m == "add":
        if x in vals:
            return {"violates": False}
        d.add(x)
        post = _classes(d._base._parent)
        return {"violates": not (len(d) == n + 1 and post[:n] == pre and post[n] == n and d.find(x) == x and list(d._values) == vals + [x]), "observed": [d._base._parent]}


def replay_sd(ob, inputs):
    shape, m = ob["shape"], ob["m"]
    # the per-entry value kinds are enumerated by forks (not in the model): try all kind assignments consistent with inputs
    total = sum(shape)
    viol = None
    noted = (inputs.get("__notes__") or {}).get("kinds")
    for kinds in ([tuple(noted)] if noted else itertools.product(KINDS, repeat=total)):
        it = iter(kinds)
        sd = None
        spec = []
        scopes = []
        okk = True
        for lvl, cnt in enumerate(shape):
            d = {}
            for j in range(cnt):
                kind = next(it)
                k = inputs[f"k{lvl}_{j}"]
                if kind == "s" and f"val{lvl}_{j}" not in inputs:
                    okk = False
                v = inputs.get(f"val{lvl}_{j}", 0) if kind == "s" else (None if kind == "n" else 0)
                d[k] = v
            sd = ScopedDict(sd, local_scope=dict(d))
            spec.append(dict(d))
            scopes.append(sd)
        if not okk:
            continue
        key = inputs["key"]
        MISSING = object()
        ref = MISSING
        for d in reversed(spec):
            if key in d:
                ref = d[key]
                break
        bad = False
        if m in ("get", "get_default"):
            default = inputs.get("dflt") if m == "get_default" else None
            r = sd.get(key, default) if m == "get_default" else sd.get(key)
            exp = default if ref is MISSING else ref
            bad = not (r is exp or (r is not None and exp is not None and r == exp))
        elif m == "getitem":
            try:
                r = sd[key]
                bad = ref is MISSING or not (r is ref or (r is not None and ref is not None and r == ref))
            except KeyError:
                bad = ref is not MISSING
        elif m == "contains":
            bad = (key in sd) != (ref is not MISSING)
        elif m == "setitem":
            nv = inputs["newval"]
            outer = [dict(s._local_scope) for s in scopes[:-1]]
            local_before = dict(sd._local_scope)
            sd[key] = nv
            bad = not (sd[key] == nv and key in sd and sd.get(key) == nv and outer == [dict(s._local_scope) for s in scopes[:-1]]
                       and all(sd._local_scope[k] is v or sd._local_scope[k] == v for k, v in local_before.items() if k != key))
        if bad:
            viol = {"kinds": kinds}
            break
    return {"violates": viol is not None, "observed": viol}
