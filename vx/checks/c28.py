"""C28 - equality saturation preserves program results (translation validation, symbolic arguments)."""
from __future__ import annotations

import itertools

import z3

from vx import refprog, tv
from vx.framework import decide

from xdsl.context import Context
from xdsl.dialects import arith, builtin, eqsat_pdl_interp, equivalence, func, pdl, pdl_interp
from xdsl.parser import Parser
from xdsl.utils.exceptions import VerifyException

LEVEL = "translation_validation"
EXPLANATION = (
    "Pure arith functions of the family are converted to e-classes (eqsat-create-eclasses), saturated with rule sets from "
    "{x+0->x, x*1->x, x+y->y+x, x*y->y*x, (x+y)+z->x+(y+z)} compiled by the real convert-pdl-to-pdl-interp + "
    "convert-pdl-interp-to-eqsat-pdl-interp and applied by apply-eqsat-pdl-interp, costed (eqsat-add-costs) and extracted "
    "(eqsat-extract); source and extracted function get meaning from the reference semantics on SYMBOLIC arguments and z3 "
    "decides equality of results for all inputs. Each rule is first proved sound under the same semantics. With no rules the "
    "extracted program must additionally not contain operations the source did not have (auxiliary concrete check)."
)
FUNCTIONS = ["EqsatCreateEclassesPass", "apply_eqsat_pdl_interp / EqsatPDLInterpFunctions (e-class merging, rebuilding)", "EqsatAddCostsPass", "EqsatExtractPass",
             "ConvertPDLToPDLInterpPass", "ConvertPDLInterpToEqsatPDLInterpPass", "xdsl.utils.disjoint_set (as used by the e-graph)"]
ASSUMPTIONS = ["reference semantics vx/refsem.py for arith.addi/muli/subi at i32", "the rule set is sound (each rule discharged as its own obligation)"]
OUTSIDE = ["programs with more than 5 ops", "rules outside the listed set", "constants are concrete (e-graph hashing)", "cost models other than default=1"]
STUBS = []

RULES = {
    "add0": ("""
pdl.pattern : benefit(1) {
  %t = pdl.type
  %x = pdl.operand
  %zero_attr = pdl.attribute = 0 : i32
  %zero_op = pdl.operation "arith.constant" {"value" = %zero_attr} -> (%t : !pdl.type)
  %zero = pdl.result 0 of %zero_op
  %op = pdl.operation "arith.addi" (%x, %zero : !pdl.value, !pdl.value) -> (%t : !pdl.type)
  pdl.rewrite %op {
    pdl.replace %op with (%x : !pdl.value)
  }
}""", lambda x, y, z: (x + 0, x)),
    "mul1": ("""
pdl.pattern : benefit(1) {
  %t = pdl.type
  %x = pdl.operand
  %one_attr = pdl.attribute = 1 : i32
  %one_op = pdl.operation "arith.constant" {"value" = %one_attr} -> (%t : !pdl.type)
  %one = pdl.result 0 of %one_op
  %op = pdl.operation "arith.muli" (%x, %one : !pdl.value, !pdl.value) -> (%t : !pdl.type)
  pdl.rewrite %op {
    pdl.replace %op with (%x : !pdl.value)
  }
}""", lambda x, y, z: (x * 1, x)),
    "addc": ("""
pdl.pattern : benefit(1) {
  %t = pdl.type
  %x = pdl.operand
  %y = pdl.operand
  %op = pdl.operation "arith.addi" (%x, %y : !pdl.value, !pdl.value) -> (%t : !pdl.type)
  pdl.rewrite %op {
    %new = pdl.operation "arith.addi" (%y, %x : !pdl.value, !pdl.value) -> (%t : !pdl.type)
    pdl.replace %op with %new
  }
}""", lambda x, y, z: (x + y, y + x)),
    "mulc": ("""
pdl.pattern : benefit(1) {
  %t = pdl.type
  %x = pdl.operand
  %y = pdl.operand
  %op = pdl.operation "arith.muli" (%x, %y : !pdl.value, !pdl.value) -> (%t : !pdl.type)
  pdl.rewrite %op {
    %new = pdl.operation "arith.muli" (%y, %x : !pdl.value, !pdl.value) -> (%t : !pdl.type)
    pdl.replace %op with %new
  }
}""", lambda x, y, z: (x * y, y * x)),
}
RULESETS = {"none": [], "ident": ["add0", "mul1"], "comm": ["addc"], "all": ["add0", "mul1", "addc"], "mulcomm": ["mulc", "mul1"]}

PROGRAMS = {
    "nest_ident": "%s = arith.addi %a, %zero : i32\n %m = arith.muli %s, %one : i32\n %t = arith.addi %m, %b : i32\n func.return %t : i32",
    "against_order": "%u = arith.addi %a, %b : i32\n %m = arith.muli %a, %one : i32\n %r = arith.addi %u, %m : i32\n func.return %r : i32",
    "comm_pair": "%u = arith.addi %a, %b : i32\n %v = arith.addi %b, %a : i32\n %r = arith.muli %u, %v : i32\n func.return %r : i32",
    "chain": "%u = arith.addi %a, %zero : i32\n %v = arith.addi %u, %zero : i32\n %w = arith.muli %v, %one : i32\n %r = arith.subi %w, %b : i32\n func.return %r : i32",
    "diamond": "%u = arith.muli %a, %one : i32\n %v = arith.addi %u, %b : i32\n %w = arith.addi %b, %u : i32\n %r = arith.subi %v, %w : i32\n func.return %r : i32",
    "shared": "%u = arith.addi %a, %b : i32\n %v = arith.muli %u, %u : i32\n %w = arith.addi %v, %zero : i32\n %r = arith.addi %w, %u : i32\n func.return %r : i32",
    "zero_both": "%u = arith.addi %zero, %zero : i32\n %v = arith.addi %a, %u : i32\n %r = arith.muli %v, %b : i32\n func.return %r : i32",
    "one_one": "%u = arith.muli %one, %one : i32\n %v = arith.muli %a, %u : i32\n %r = arith.addi %v, %b : i32\n func.return %r : i32",
    "use_before_merge": "%m = arith.muli %b, %one : i32\n %u = arith.subi %a, %m : i32\n %v = arith.subi %a, %b : i32\n %r = arith.muli %u, %v : i32\n func.return %r : i32",
    "cmp_preds": "%s = arith.addi %a, %zero : i32\n %l = arith.cmpi slt, %s, %b : i32\n %g = arith.cmpi sgt, %s, %b : i32\n %x = arith.select %l, %a, %b : i32\n %r = arith.select %g, %x, %one : i32\n func.return %r : i32",
    "cmp_preds_mul": "%s = arith.muli %a, %one : i32\n %l = arith.cmpi ult, %s, %b : i32\n %g = arith.cmpi uge, %s, %b : i32\n %q = arith.cmpi ult, %a, %b : i32\n %x = arith.select %l, %a, %b : i32\n %y = arith.select %g, %x, %zero : i32\n %r = arith.select %q, %y, %x : i32\n func.return %r : i32",
    "two_results": "%u = arith.addi %a, %zero : i32\n %v = arith.muli %b, %one : i32\n %r = arith.addi %u, %v : i32\n func.return %r : i32",
}


def text_of(name):
    return "func.func @f(%a: i32, %b: i32) -> i32 {\n %zero = arith.constant 0 : i32\n %one = arith.constant 1 : i32\n " + PROGRAMS[name] + "\n}"


def bounds(tier):
    return {"programs": sorted(PROGRAMS), "rulesets": RULESETS, "type": "i32", "max_ops": 5}


def obligations(tier):
    obs = [{"id": f"C28/rule_sound/{r}", "kind": "rule", "rule": r} for r in RULES]
    for p in PROGRAMS:
        for rs in RULESETS:
            obs.append({"id": f"C28/{rs}/{p}", "kind": "prog", "prog": p, "rules": rs, "weight": 3})
    return obs


def make_ctx():
    ctx = Context()
    for d in (builtin.Builtin, func.Func, arith.Arith, pdl.PDL, pdl_interp.PDLInterp, equivalence.Equivalence, eqsat_pdl_interp.EqSatPDLInterp):
        ctx.load_dialect(d)
    return ctx


def pipeline(module, ctx, rules):
    from xdsl.transforms.apply_eqsat_pdl_interp import apply_eqsat_pdl_interp
    from xdsl.transforms.convert_pdl_interp_to_eqsat_pdl_interp import ConvertPDLInterpToEqsatPDLInterpPass
    from xdsl.transforms.convert_pdl_to_pdl_interp.conversion import ConvertPDLToPDLInterpPass
    from xdsl.transforms.eqsat_add_costs import EqsatAddCostsPass
    from xdsl.transforms.eqsat_create_eclasses import EqsatCreateEclassesPass
    from xdsl.transforms.eqsat_extract import EqsatExtractPass

    EqsatCreateEclassesPass().apply(ctx, module)
    if rules:
        patterns = Parser(ctx, "\n".join(RULES[r][0] for r in rules)).parse_module()
        ConvertPDLToPDLInterpPass().apply(ctx, patterns)
        ConvertPDLInterpToEqsatPDLInterpPass().apply(ctx, patterns)
        apply_eqsat_pdl_interp(module, ctx, patterns)
    EqsatAddCostsPass(default=1).apply(ctx, module)
    EqsatExtractPass().apply(ctx, module)


def harness(ob, concrete=None):
    def h(ex):
        if ob["kind"] == "rule":
            x, y, z = z3.BitVecs("x y z", 32)
            l, r = RULES[ob["rule"]][1](x, y, z)
            if ex is not None and hasattr(ex, "named"):
                ex.named.update({"x": x, "y": y, "z": z})
            return l == r
        ctx = make_ctx()
        m = Parser(ctx, text_of(ob["prog"])).parse_module()
        m.verify()
        f = next(o for o in m.walk() if isinstance(o, func.FuncOp))
        args = tv.arg_terms(f) if concrete is None else tv.concrete_args(f, concrete)
        before = tv.meaning(m, "f", args)
        names_before = sorted(o.name for o in m.walk())
        pipeline(m, ctx, RULESETS[ob["rules"]])
        try:
            m.verify()
        except VerifyException as e:
            raise tv.InvalidIR(f"pipeline output does not verify: {e}")
        left = [o.name for o in m.walk() if o.name.startswith("equivalence.")]
        if left:
            raise tv.InvalidIR(f"e-class ops left after extraction: {left}")
        try:
            after = tv.meaning(m, "f", args)
        except refprog.RefUnsupported as e:
            raise tv.InvalidIR(str(e))
        props = [tv.refinement(before, after)]
        if ob["rules"] == "none":
            # nothing may be invented: the extracted ops are a sub-multiset of the source's (unused ops may be dropped)
            from collections import Counter

            ca, cb = Counter(o.name for o in m.walk()), Counter(names_before)
            props.append(z3.BoolVal(all(ca[k] <= cb[k] for k in ca)))
        return z3.And(*props)

    return h


def run(ob, tier, stats, exclude):
    return decide(harness(ob), timeout_ms=30000, budget_s=200, stats=stats, exclude=exclude, ob=ob)


def evidence_extra(tier, results):
    return {"programs": len(results), "disagreements_checked": sum(r["ok_paths"] for r in results)}


def replay(ob, inputs):
    try:
        v = harness(ob, concrete=inputs)(None)
        s = z3.Solver()
        s.add(z3.Not(v))
        return {"violates": s.check() == z3.sat}
    except Exception as e:
        return {"violates": True, "observed": f"exception {type(e).__name__}: {str(e)[:300]}"}
