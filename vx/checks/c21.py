"""C21 - x86 backend code computes the source results and honours the SysV ABI (instruction-level model)."""
from __future__ import annotations

import z3

from vx import refprog, tv, x86sem
from vx.framework import decide
from vx.symx import SymInt

from xdsl.context import Context
from xdsl.dialects import arith, builtin, func, x86, x86_func
from xdsl.parser import Parser
from xdsl.utils.exceptions import DiagnosticException, PassFailedException, VerifyException

LEVEL = "translation_validation"
EXPLANATION = (
    "Integer func/arith functions (add/mul/sub/and/or/xor chains, argument reuse, 1-6 arguments, enough simultaneously live "
    "values to force callee-saved registers, constants) are compiled by the real pipeline convert-func-to-x86-func, "
    "convert-arith-to-x86, reconcile-unrealized-casts, canonicalize, dce, x86-allocate-registers, canonicalize, "
    "x86-prologue-epilogue-insertion. The resulting x86-dialect function is executed on a 64-bit register-file + stack model "
    "with SYMBOLIC argument registers, symbolic initial callee-saved registers and rsp, and SYMBOLIC 64-bit constants in the "
    "source; z3 decides for all of them: rax equals the reference result of the source, rbx/rbp/r12-r15 and rsp are restored, "
    "and the caller's stack (addresses >= the initial rsp) is untouched. A pipeline that reports failure is accepted."
)
FUNCTIONS = ["ConvertFuncToX86FuncPass", "ConvertArithToX86Pass", "reconcile-unrealized-casts", "X86RegisterAllocator / x86-allocate-registers", "X86PrologueEpilogueInsertion",
             "x86 op classes (operand conventions of rs/ri/ds/di/dm/ms/push/pop forms)"]
ASSUMPTIONS = ["x86-64 integer subset semantics vx/x86sem.py (mov/add/sub/imul/and/or/xor/lea/push/pop; mov r64, imm32 sign-extends)", "SysV: args in rdi,rsi,rdx,rcx,r8,r9; result in rax; callee-saved rbx,rbp,r12-r15"]
OUTSIDE = ["that the text assembles with the system assembler and the native run (the text of each CONCRETE immediate and memory offset, produced by the real assembly_arg_str / assembly_line, is read back and must denote the operand the reference machine executes; text rendered from a symbolic 64-bit immediate is not modelled)", "more than eight arguments; stack-passed arguments of i32 functions", "i32 functions other than the live*_i32 / const_i32 programs; i8/i16", "floating point / AVX ops"]
STUBS = []

PIPE = "convert-func-to-x86-func,convert-arith-to-x86,reconcile-unrealized-casts,canonicalize,dce,x86-allocate-registers,canonicalize,x86-prologue-epilogue-insertion"

def _live(k, nargs=3):
    """k simultaneously live products, then summed"""
    lines = [f"%v{i} = arith.muli %a{i % nargs}, %a{(i + 1) % nargs} : i64" for i in range(k)]
    acc = "%v0"
    for i in range(1, k):
        lines.append(f"%w{i} = arith.addi {acc}, %v{i} : i64")
        acc = f"%w{i}"
    lines.append(f"%r = arith.muli {acc}, %a0 : i64")
    return "\n ".join(lines)


PROGRAMS = {
    "add1": (1, "%r = arith.addi %a0, %a0 : i64"),
    "addmul3": (3, "%s = arith.addi %a0, %a1 : i64\n %m = arith.muli %s, %a2 : i64\n %r = arith.addi %m, %a0 : i64"),
    "const_small": (2, "%k = arith.constant 1000 : i64\n %s = arith.addi %a0, %k : i64\n %r = arith.muli %s, %a1 : i64"),
    "const_neg_big": (2, "%k = arith.constant -100000 : i64\n %j = arith.constant -5 : i64\n %s = arith.addi %a0, %j : i64\n %t = arith.muli %s, %a1 : i64\n %r = arith.addi %t, %k : i64"),
    "const_boundaries": (1, "%k = arith.constant -2147483648 : i64\n %j = arith.constant 2147483647 : i64\n %i = arith.constant 65536 : i64\n %s = arith.addi %a0, %k : i64\n %t = arith.muli %s, %j : i64\n %r = arith.addi %t, %i : i64"),
    "const_two": (2, "%k = arith.constant 1000 : i64\n %j = arith.constant 1001 : i64\n %s = arith.muli %a0, %k : i64\n %t = arith.addi %s, %j : i64\n %r = arith.muli %t, %a1 : i64"),
    "reuse": (2, "%x = arith.muli %a0, %a0 : i64\n %y = arith.muli %x, %a1 : i64\n %z = arith.addi %y, %x : i64\n %r = arith.addi %z, %a1 : i64"),
    "six_args": (6, "%s1 = arith.addi %a0, %a1 : i64\n %s2 = arith.muli %s1, %a2 : i64\n %s3 = arith.addi %s2, %a3 : i64\n %s4 = arith.muli %s3, %a4 : i64\n %r = arith.addi %s4, %a5 : i64"),
    "six_args_rev": (6, "%s1 = arith.addi %a5, %a4 : i64\n %s2 = arith.muli %s1, %a3 : i64\n %s3 = arith.addi %s2, %a2 : i64\n %s4 = arith.muli %s3, %a1 : i64\n %s5 = arith.addi %s4, %a0 : i64\n %r = arith.muli %s5, %a5 : i64"),
}
for _k in range(4, 12):
    PROGRAMS[f"live{_k}"] = (3, _live(_k))
    PROGRAMS[f"live{_k}_6args"] = (6, _live(_k, 6))
# eight arguments: the 7th and 8th arrive on the caller's stack at [rsp+8], [rsp+16] (rsp on entry), read while callee-saved registers are pushed
def _stack(k):
    lines = [f"%v{i} = arith.muli %a{(i + 5) % 8}, %a{(i + 6) % 8} : i64" for i in range(k)]
    acc = "%v0"
    for i in range(1, k):
        lines.append(f"%w{i} = arith.addi {acc}, %v{i} : i64")
        acc = f"%w{i}"
    lines.append(f"%r = arith.addi {acc}, %a7 : i64")
    return "\n ".join(lines)


for _k in (2, 3, 4):
    PROGRAMS[f"stack8_{_k}"] = (8, _stack(_k))
# i32 functions: values live in the 32-bit names (ebx, r13d, ...) of the same physical registers, whose 64-bit contents the callee must preserve
for _k in range(3, 8):
    PROGRAMS[f"live{_k}_i32"] = (3, _live(_k).replace("i64", "i32"))
PROGRAMS["const_i32"] = (2, "%k = arith.constant -100000 : i32\n %s = arith.addi %a0, %k : i32\n %r = arith.muli %s, %a1 : i32")


def bounds(tier):
    return {"programs": sorted(PROGRAMS), "arguments": "1-6 x i64, 8 x i64 (two on the caller's stack), 2-3 x i32 (upper register halves arbitrary)", "constants": "symbolic 64 bit"}


def obligations(tier):
    return [{"id": f"C21/{p}", "prog": p, "weight": 3} for p in PROGRAMS]


_CTX = None


def ctx():
    global _CTX
    if _CTX is None:
        _CTX = Context()
        for d in (builtin.Builtin, arith.Arith, func.Func, x86.X86, x86_func.X86_FUNC):
            _CTX.load_dialect(d)
    return _CTX


def harness(ob, concrete=None):
    nargs, body = PROGRAMS[ob["prog"]]

    def h(ex):
        from xdsl.transforms import get_all_passes

        ty = "i32" if ob["prog"].endswith("_i32") else "i64"
        args_sig = ", ".join(f"%a{i}: {ty}" for i in range(nargs))
        text = f"builtin.module {{ func.func @f({args_sig}) -> {ty} {{\n {body}\n func.return %r : {ty}\n}} }}"
        m = Parser(ctx(), text).parse_module()
        for op in list(m.walk()):
            if isinstance(op, arith.ConstantOp) and isinstance(op.value.value.data, int) and op.value.value.data in (1000, 1001):
                name = f"c{op.value.value.data}"
                payload = concrete.get(name, 0) if concrete is not None else SymInt.var(name, -(1 << 63), (1 << 63) - 1)
                op.properties["value"] = builtin.IntegerAttr(payload, op.result.type)
        m.verify()
        f = next(o for o in m.walk() if isinstance(o, func.FuncOp))
        args = tv.arg_terms(f) if concrete is None else tv.concrete_args(f, concrete)
        before = tv.meaning(m, "f", args)
        try:
            for p in PIPE.split(","):
                get_all_passes()[p]()().apply(ctx(), m)
            m.verify()
        except (DiagnosticException, PassFailedException, VerifyException, NotImplementedError) as e:
            if ex is not None:
                ex.note("pipeline_failed", type(e).__name__)
                # constants that do not fit an imm32 make the pipeline refuse: accepted outcome
            return True
        xf = next(o for o in m.walk() if isinstance(o, x86_func.FuncOp))
        mach = x86sem.Machine("x")
        for r_, a in zip(x86sem.ARG_REGS, args):
            if a.size() < 64:
                # a 32-bit argument arrives in the low half; the upper half of the register is unspecified (arbitrary)
                up = z3.BitVec(f"upper_{r_}", 64 - a.size()) if concrete is None else z3.BitVecVal(concrete.get(f"upper_{r_}", 0), 64 - a.size())
                if concrete is None:
                    ex.named[f"upper_{r_}"] = SymInt.from_bv(up)
                a = z3.Concat(up, a)
            mach.r[r_] = a
            mach.init[r_] = a
        for r_ in x86sem.CALLEE_SAVED + ["rsp"]:
            mach.get(r_)
        if concrete is None:
            for r_ in x86sem.CALLEE_SAVED + ["rsp"]:
                ex.named[r_] = SymInt.from_bv(mach.init[r_])
            rsp0 = mach.init["rsp"]
            ex.assume(z3.And(z3.UGE(rsp0, 0x10000), z3.ULE(rsp0, 0x7FFFFFFF0000), z3.Extract(2, 0, rsp0) == 0))
        else:
            for r_ in x86sem.CALLEE_SAVED + ["rsp"]:
                mach.r[r_] = mach.init[r_] = z3.BitVecVal(concrete.get(r_, 0x20000 if r_ == "rsp" else 0), 64)
        if concrete is None:
            ex.named["ret_addr"] = SymInt.from_bv(mach.load(mach.init["rsp"], 8))
        else:
            # replay: memory is zero except for the return-address slot and the stack-passed arguments
            mach.mem = z3.K(z3.BitVecSort(64), z3.BitVecVal(0, 8))
            mach.store(mach.init["rsp"], z3.BitVecVal(concrete.get("ret_addr", 0), 64), 8)
        for k_, a in enumerate(args[len(x86sem.ARG_REGS):]):
            # SysV: arguments beyond the sixth are on the caller's stack above the return address
            mach.store(mach.init["rsp"] + 8 * (k_ + 1), a if a.size() == 64 else z3.SignExt(64 - a.size(), a), 8)
        mem0 = mach.mem
        del x86sem.EMIT[:]
        done = False
        for op in xf.body.blocks.first.ops:
            if x86sem.exec_op(mach, op) is not None:
                done = True
                break
        if not done:
            raise tv.InvalidIR("no ret")
        res, dfd = before[0][0], before[1]
        rax = mach.get("rax")
        props = [(rax if res.size() == 64 else z3.Extract(res.size() - 1, 0, rax)) == res, mach.get("rsp") == mach.init["rsp"]] + list(x86sem.EMIT)
        for r_ in x86sem.CALLEE_SAVED:
            props.append(mach.get(r_) == mach.init[r_])
        probe = z3.BitVec("probe_addr", 64) if concrete is None else z3.BitVecVal(concrete.get("probe_addr", 0), 64)
        if concrete is None:
            ex.named["probe_addr"] = SymInt.from_bv(probe)
        props.append(z3.Implies(z3.UGE(probe, mach.init["rsp"]), z3.Select(mach.mem, probe) == z3.Select(mem0, probe)))
        return z3.Implies(dfd, z3.And(*props))

    return h


def run(ob, tier, stats, exclude):
    return decide(harness(ob), timeout_ms=60000, budget_s=300, stats=stats, exclude=exclude, ob=ob, max_paths=200)


def evidence_extra(tier, results):
    return {"programs": len(results), "disagreements_checked": sum(r["ok_paths"] for r in results)}


def replay(ob, inputs):
    try:
        v = harness(ob, concrete=inputs)(None)
        if v is True:
            return {"violates": False, "why": "pipeline reported failure"}
        return {"violates": z3.is_false(z3.simplify(v))}
    except Exception as e:
        return {"violates": True, "observed": f"exception {type(e).__name__}: {str(e)[:300]}"}
