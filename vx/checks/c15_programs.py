"""Control-flow skeletons for C15: (name, mlir text, entry, arg ranges). Data is symbolic; shapes are enumerated."""

PROGRAMS = {}


def prog(name, text, entry="f", ranges=None):
    PROGRAMS[name] = {"text": text, "entry": entry, "ranges": ranges or {}}


prog("diamond", """
builtin.module {
  func.func @f(%a: i8, %b: i8, %c: i8) -> i8 {
    %cond = arith.cmpi slt, %a, %b : i8
    cf.cond_br %cond, ^t(%a, %c : i8, i8), ^e(%b : i8)
  ^t(%x: i8, %y: i8):
    %s = arith.addi %x, %y : i8
    cf.br ^m(%s : i8)
  ^e(%z: i8):
    %d = arith.subi %z, %c : i8
    cf.br ^m(%d : i8)
  ^m(%r: i8):
    %q = arith.muli %r, %a : i8
    func.return %q : i8
  }
}
""")

prog("cf_loop_sum", """
builtin.module {
  func.func @f(%n: i8, %s0: i8) -> i8 {
    %zero = arith.constant 0 : i8
    %one = arith.constant 1 : i8
    cf.br ^head(%zero, %s0 : i8, i8)
  ^head(%i: i8, %acc: i8):
    %c = arith.cmpi slt, %i, %n : i8
    cf.cond_br %c, ^body, ^exit
  ^body:
    %acc2 = arith.addi %acc, %i : i8
    %sq = arith.muli %acc2, %acc2 : i8
    %i2 = arith.addi %i, %one : i8
    cf.br ^head(%i2, %sq : i8, i8)
  ^exit:
    func.return %acc : i8
  }
}
""", ranges={"n": (-2, 3)})

prog("scf_if", """
builtin.module {
  func.func @f(%a: i32, %b: i32) -> i32 {
    %c = arith.cmpi sge, %a, %b : i32
    %r = scf.if %c -> (i32) {
      %x = arith.subi %a, %b : i32
      scf.yield %x : i32
    } else {
      %y = arith.xori %a, %b : i32
      scf.yield %y : i32
    }
    %z = arith.addi %r, %a : i32
    func.return %z : i32
  }
}
""")

prog("scf_for", """
builtin.module {
  func.func @f(%lb: index, %ub: index, %step: index, %init: i8, %k: i8) -> i8 {
    %r = scf.for %i = %lb to %ub step %step iter_args(%acc = %init) -> (i8) {
      %ii = arith.index_cast %i : index to i8
      %t = arith.muli %acc, %k : i8
      %u = arith.addi %t, %ii : i8
      scf.yield %u : i8
    }
    func.return %r : i8
  }
}
""", ranges={"lb": (-2, 2), "ub": (-2, 3), "step": (1, 2)})

prog("call", """
builtin.module {
  func.func @g(%x: i8, %y: i8) -> i8 {
    %s = arith.subi %x, %y : i8
    %m = arith.muli %s, %x : i8
    func.return %m : i8
  }
  func.func @f(%a: i8, %b: i8) -> i8 {
    %p = func.call @g(%a, %b) : (i8, i8) -> i8
    %q = func.call @g(%b, %p) : (i8, i8) -> i8
    %r = arith.addi %p, %q : i8
    %t = arith.addi %r, %a : i8
    func.return %t : i8
  }
}
""")

prog("rec_fact_cf", """
builtin.module {
  func.func @f(%n: i8, %k: i8) -> i8 {
    %one = arith.constant 1 : i8
    %c = arith.cmpi sle, %n, %one : i8
    cf.cond_br %c, ^base, ^rec
  ^base:
    func.return %k : i8
  ^rec:
    %n1 = arith.subi %n, %one : i8
    %r = func.call @f(%n1, %k) : (i8, i8) -> i8
    %p = arith.muli %r, %n : i8
    %q = arith.addi %p, %k : i8
    func.return %q : i8
  }
}
""", ranges={"n": (-1, 4)})

prog("rec_two_blocks_after_call", """
builtin.module {
  func.func @f(%n: i8, %k: i8) -> i8 {
    %zero = arith.constant 0 : i8
    %one = arith.constant 1 : i8
    %c = arith.cmpi sle, %n, %zero : i8
    cf.cond_br %c, ^base, ^rec
  ^base:
    func.return %k : i8
  ^rec:
    %n1 = arith.subi %n, %one : i8
    %r = func.call @f(%n1, %k) : (i8, i8) -> i8
    %d = arith.cmpi slt, %r, %n : i8
    cf.cond_br %d, ^x(%r : i8), ^y
  ^x(%v: i8):
    %s = arith.addi %v, %n : i8
    func.return %s : i8
  ^y:
    %t = arith.subi %n, %r : i8
    func.return %t : i8
  }
}
""", ranges={"n": (-1, 3)})

prog("float_branch", """
builtin.module {
  func.func @f(%a: f64, %b: f64) -> f64 {
    %c = arith.cmpf olt, %a, %b : f64
    cf.cond_br %c, ^t, ^e
  ^t:
    %s = arith.addf %a, %b : f64
    func.return %s : f64
  ^e:
    %d = arith.subf %b, %a : f64
    func.return %d : f64
  }
}
""")
