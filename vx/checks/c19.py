"""C19 - register allocation never gives one register to two live values (translation validation on a register machine)."""
from __future__ import annotations

import z3

from vx import rvsem
from vx.framework import decide
from vx.symx import SymBool, SymInt

from xdsl.backend.riscv.register_allocation import RegisterAllocatorLivenessBlockNaive
from xdsl.backend.riscv.register_stack import RiscvRegisterStack
from xdsl.context import Context
from xdsl.dialects import builtin, riscv, riscv_func, riscv_scf, rv32, test
from xdsl.dialects.builtin import IntegerAttr
from xdsl.parser import Parser
from xdsl.utils.exceptions import DiagnosticException

LEVEL = "translation_validation"
EXPLANATION = (
    "riscv-level functions with unallocated registers (straight-line code with many simultaneously live values, pre-assigned "
    "registers, the zero register, loops with values live across them, nested riscv_scf.for) are allocated by the real "
    "RegisterAllocatorLivenessBlockNaive with the full and with reduced register pools. The SSA dataflow meaning of the "
    "function (one cell per SSA value) and the execution of the ALLOCATED ops on a register file (each op reads its operand "
    "registers and writes its result register) are both computed on SYMBOLIC argument registers and li immediates, loops "
    "forking on their exit tests; z3 decides that the returned value and the stored memory agree for all inputs. Two live "
    "values sharing a register make the two meanings differ for some input. Allocation failure (DiagnosticException) is accepted."
)
FUNCTIONS = ["xdsl.backend.riscv.register_allocation.RegisterAllocatorLivenessBlockNaive.allocate_func", "xdsl.backend.block_naive_allocator.BlockNaiveAllocator",
             "xdsl.backend.register_allocator.ValueAllocator/live_ins_per_block", "xdsl.backend.register_stack.RegisterStack", "xdsl.backend.register_allocatable.RegisterAllocatableOperation",
             "riscv / riscv_scf ops' allocate_registers"]
ASSUMPTIONS = ["RV32IM reference semantics vx/rvsem.py; riscv_scf.for: iv := lb; while iv < ub (signed): body; iter args := yielded; iv += step",
               "trip counts bounded by the argument boxes"]
OUTSIDE = ["multi-block functions (rejected by the allocator)", "spilling (not implemented)", "x86 register allocation (see C21)", "float registers in loops"]
STUBS = []

PROGRAMS = {
    "pressure": ("""
    %c1 = rv32.li 1001 : !riscv.reg
    %c2 = rv32.li 1002 : !riscv.reg
    %c3 = rv32.li 1003 : !riscv.reg
    %s1 = riscv.add %n, %c1 : (!riscv.reg<a0>, !riscv.reg) -> !riscv.reg
    %s2 = riscv.mul %p, %c2 : (!riscv.reg<a1>, !riscv.reg) -> !riscv.reg
    %s3 = riscv.sub %s1, %c3 : (!riscv.reg, !riscv.reg) -> !riscv.reg
    %s4 = riscv.xor %s2, %s1 : (!riscv.reg, !riscv.reg) -> !riscv.reg
    %s5 = riscv.add %s3, %s4 : (!riscv.reg, !riscv.reg) -> !riscv.reg
    %s6 = riscv.add %s5, %c1 : (!riscv.reg, !riscv.reg) -> !riscv.reg
    %s7 = riscv.mul %s6, %s2 : (!riscv.reg, !riscv.reg) -> !riscv.reg
    %out = riscv.mv %s7 : (!riscv.reg) -> !riscv.reg<a0>""", {}),
    "prealloc": ("""
    %c1 = rv32.li 1001 : !riscv.reg<t0>
    %s1 = riscv.add %n, %c1 : (!riscv.reg<a0>, !riscv.reg<t0>) -> !riscv.reg
    %c2 = rv32.li 1002 : !riscv.reg
    %s2 = riscv.mul %p, %c2 : (!riscv.reg<a1>, !riscv.reg) -> !riscv.reg<t1>
    %s3 = riscv.sub %s1, %s2 : (!riscv.reg, !riscv.reg<t1>) -> !riscv.reg
    %s4 = riscv.add %s3, %c1 : (!riscv.reg, !riscv.reg<t0>) -> !riscv.reg<t0>
    %s5 = riscv.add %s4, %s1 : (!riscv.reg<t0>, !riscv.reg) -> !riscv.reg
    %out = riscv.mv %s5 : (!riscv.reg) -> !riscv.reg<a0>""", {}),
    "zero_reg": ("""
    %z = rv32.li 0 : !riscv.reg
    %c = rv32.li 1001 : !riscv.reg
    %s1 = riscv.add %n, %z : (!riscv.reg<a0>, !riscv.reg) -> !riscv.reg
    %s2 = riscv.sub %z, %p : (!riscv.reg, !riscv.reg<a1>) -> !riscv.reg
    %s3 = riscv.mul %s1, %c : (!riscv.reg, !riscv.reg) -> !riscv.reg
    %s4 = riscv.add %s3, %s2 : (!riscv.reg, !riscv.reg) -> !riscv.reg
    %out = riscv.mv %s4 : (!riscv.reg) -> !riscv.reg<a0>""", {}),
    "store_load": ("""
    %c = rv32.li 1001 : !riscv.reg
    %s1 = riscv.add %n, %c : (!riscv.reg<a0>, !riscv.reg) -> !riscv.reg
    riscv.sw %p, %s1, 4 : (!riscv.reg<a1>, !riscv.reg) -> ()
    %l = riscv.lw %p, 4 : (!riscv.reg<a1>) -> !riscv.reg
    %s2 = riscv.mul %l, %s1 : (!riscv.reg, !riscv.reg) -> !riscv.reg
    %out = riscv.mv %s2 : (!riscv.reg) -> !riscv.reg<a0>""", {}),
    "live_across_loop": ("""
    %lb = rv32.li 0 : !riscv.reg
    %one = rv32.li 1 : !riscv.reg
    %k = rv32.li 1001 : !riscv.reg
    riscv_scf.for %i : !riscv.reg = %lb to %n step %one {
      riscv.comment {comment = "loop body"} : () -> ()
      %x = riscv.mul %i, %i : (!riscv.reg, !riscv.reg) -> !riscv.reg<t0>
      riscv.sw %p, %x, 0 : (!riscv.reg<a1>, !riscv.reg<t0>) -> ()
    }
    %out = riscv.mv %k : (!riscv.reg) -> !riscv.reg<a0>""", {"a0": (-1, 3)}),
    "loop_iter_args": ("""
    %lb = rv32.li 0 : !riscv.reg
    %one = rv32.li 1 : !riscv.reg
    %init = rv32.li 1001 : !riscv.reg
    %k = riscv.addi %p, 3 : (!riscv.reg<a1>) -> !riscv.reg
    %res = riscv_scf.for %i : !riscv.reg = %lb to %n step %one iter_args(%acc = %init) -> (!riscv.reg) {
      %t = riscv.mul %i, %k : (!riscv.reg, !riscv.reg) -> !riscv.reg
      %u = riscv.add %acc, %t : (!riscv.reg, !riscv.reg) -> !riscv.reg
      riscv_scf.yield %u : !riscv.reg
    }
    %r2 = riscv.add %res, %k : (!riscv.reg, !riscv.reg) -> !riscv.reg
    %out = riscv.mv %r2 : (!riscv.reg) -> !riscv.reg<a0>""", {"a0": (-1, 3)}),
    "loop_init_then_temps": ("""
    %lb = rv32.li 0 : !riscv.reg
    %one = rv32.li 1 : !riscv.reg
    %init = rv32.li 1001 : !riscv.reg
    %u0 = riscv.addi %p, 2 : (!riscv.reg<a1>) -> !riscv.reg
    %u1 = riscv.addi %p, 5 : (!riscv.reg<a1>) -> !riscv.reg
    %u2 = riscv.addi %p, 3 : (!riscv.reg<a1>) -> !riscv.reg
    %u3 = riscv.addi %p, 4 : (!riscv.reg<a1>) -> !riscv.reg
    %v0 = riscv.mul %u0, %u1 : (!riscv.reg, !riscv.reg) -> !riscv.reg
    %v1 = riscv.mul %u2, %u3 : (!riscv.reg, !riscv.reg) -> !riscv.reg
    %w = riscv.mul %v0, %v1 : (!riscv.reg, !riscv.reg) -> !riscv.reg
    %ub = riscv.add %w, %n : (!riscv.reg, !riscv.reg<a0>) -> !riscv.reg
    %res = riscv_scf.for %i : !riscv.reg = %lb to %ub step %one iter_args(%acc = %init) -> (!riscv.reg) {
      %t = riscv.add %acc, %i : (!riscv.reg, !riscv.reg) -> !riscv.reg
      riscv_scf.yield %t : !riscv.reg
    }
    %out = riscv.mv %res : (!riscv.reg) -> !riscv.reg<a0>""", {"a0": (-1, 3), "a1": (-5, -2)}),
    "loop_init_two_temps": ("""
    %lb = rv32.li 1 : !riscv.reg
    %one = rv32.li 1 : !riscv.reg
    %init = rv32.li 1001 : !riscv.reg
    %u0 = rv32.li 1002 : !riscv.reg
    %u1 = riscv.addi %n, 1 : (!riscv.reg<a0>) -> !riscv.reg
    %ub = riscv.add %u0, %u1 : (!riscv.reg, !riscv.reg) -> !riscv.reg
    %res = riscv_scf.for %i : !riscv.reg = %lb to %ub step %one iter_args(%acc = %init) -> (!riscv.reg) {
      %t = riscv.add %acc, %i : (!riscv.reg, !riscv.reg) -> !riscv.reg
      riscv_scf.yield %t : !riscv.reg
    }
    %out = riscv.mv %res : (!riscv.reg) -> !riscv.reg<a0>""", {"a0": (-1, 2), "c1002": (0, 1)}),
    "nested_loops_same_carry": ("""
    %lb = rv32.li 0 : !riscv.reg
    %one = rv32.li 1 : !riscv.reg
    %m = riscv.addi %p, 2 : (!riscv.reg<a1>) -> !riscv.reg
    %init = rv32.li 1001 : !riscv.reg
    %res = riscv_scf.for %i : !riscv.reg = %lb to %n step %one iter_args(%acc = %init) -> (!riscv.reg) {
      %t = riscv.mul %i, %i : (!riscv.reg, !riscv.reg) -> !riscv.reg
      %u = riscv.addi %t, 11 : (!riscv.reg) -> !riscv.reg
      %a = riscv.add %acc, %u : (!riscv.reg, !riscv.reg) -> !riscv.reg
      %r = riscv_scf.for %j : !riscv.reg = %lb to %m step %one iter_args(%b = %a) -> (!riscv.reg) {
        %b2 = riscv.add %b, %j : (!riscv.reg, !riscv.reg) -> !riscv.reg
        riscv_scf.yield %b2 : !riscv.reg
      }
      riscv_scf.yield %r : !riscv.reg
    }
    %out = riscv.mv %res : (!riscv.reg) -> !riscv.reg<a0>""", {"a0": (-1, 3), "a1": (-3, 0)}),
    "nested_loops": ("""
    %lb = rv32.li 0 : !riscv.reg
    %one = rv32.li 1 : !riscv.reg
    %m = riscv.addi %p, 2 : (!riscv.reg<a1>) -> !riscv.reg
    %init = rv32.li 1001 : !riscv.reg
    %res = riscv_scf.for %i : !riscv.reg = %lb to %n step %one iter_args(%acc = %init) -> (!riscv.reg) {
      %a2 = riscv.mv %acc : (!riscv.reg) -> !riscv.reg
      %r = riscv_scf.for %j : !riscv.reg = %lb to %m step %one iter_args(%c = %a2) -> (!riscv.reg) {
        %c2 = riscv.addi %c, 1 : (!riscv.reg) -> !riscv.reg
        riscv_scf.yield %c2 : !riscv.reg
      }
      %t = riscv.mul %i, %i : (!riscv.reg, !riscv.reg) -> !riscv.reg
      %v = riscv.add %i, %i : (!riscv.reg, !riscv.reg) -> !riscv.reg
      %u = riscv.add %r, %t : (!riscv.reg, !riscv.reg) -> !riscv.reg
      %y = riscv.add %u, %v : (!riscv.reg, !riscv.reg) -> !riscv.reg
      riscv_scf.yield %y : !riscv.reg
    }
    %out = riscv.mv %res : (!riscv.reg) -> !riscv.reg<a0>""", {"a0": (-1, 2), "a1": (-3, 0)}),
}
POOLS = {"full": None, "t6": ("t0", "t1", "t2", "t3", "t4", "t5"), "small4": ("t0", "t1", "a2", "a3"), "small3": ("t2", "a4", "a5")}


def bounds(tier):
    return {"programs": sorted(PROGRAMS), "pools": {k: (list(v) if v else "default") for k, v in POOLS.items()}, "li_immediates": "symbolic 32 bit", "loop_trip_box": "n in [-1,3], m in [-1,2]"}


def obligations(tier):
    return [{"id": f"C19/riscv/{p}/{pool}", "prog": p, "pool": pool, "weight": 3} for p in PROGRAMS for pool in POOLS]


_CTX = None


def ctx():
    global _CTX
    if _CTX is None:
        _CTX = Context()
        for d in (builtin.Builtin, riscv.RISCV, riscv_func.RISCV_Func, riscv_scf.RISCV_Scf, rv32.RV32, test.Test):
            _CTX.load_dialect(d)
    return _CTX


def run_block(mach, block):
    """shared SSA-mode / register-mode executor (the machine decides by the value's register type)"""
    for op in block.ops:
        if isinstance(op, riscv_scf.ForOp):
            body = op.body.block
            iv, *carried = body.args
            for arg, init in zip(carried, op.iter_args):
                mach.write(arg, mach.read(init))
            mach.write(iv, mach.read(op.lb))
            trips = 0
            while bool(SymBool(z3.simplify(mach.read(iv) < mach.read(op.ub)))):
                trips += 1
                if trips > 6:
                    from vx.symx import Infeasible

                    raise Infeasible()
                run_block(mach, body)
                y = body.last_op
                vals = [mach.read(v) for v in y.operands]
                for arg, v in zip(carried, vals):
                    mach.write(arg, v)
                mach.write(iv, mach.read(iv) + mach.read(op.step))
            for result, arg in zip(op.results, carried):
                mach.write(result, mach.read(arg))
            continue
        if op.name in ("riscv_scf.yield", "riscv_func.return"):
            continue
        rvsem.exec_op(mach, op)


def build(ob, concrete, ex):
    body, boxes = PROGRAMS[ob["prog"]]
    text = ("builtin.module { riscv_func.func @f(%n : !riscv.reg<a0>, %p : !riscv.reg<a1>) -> !riscv.reg<a0> {" + body
            + "\n    riscv_func.return %out : !riscv.reg<a0>\n  } }")
    m = Parser(ctx(), text).parse_module()
    for op in list(m.walk()):
        if isinstance(op, rv32.LiOp) and isinstance(op.immediate, IntegerAttr) and isinstance(op.immediate.value.data, int) and 1000 < op.immediate.value.data < 1010:
            name = f"c{op.immediate.value.data}"
            payload = concrete.get(name, 0) if concrete is not None else SymInt.var(name, -(1 << 31), (1 << 31) - 1)
            op.attributes["immediate"] = IntegerAttr(payload, op.immediate.type)
    m.verify()
    return m, boxes


def harness(ob, concrete=None):
    def h(ex):
        m, boxes = build(ob, concrete, ex)
        f = next(o for o in m.walk() if isinstance(o, riscv_func.FuncOp))
        a0 = z3.BitVec("a0", 32) if concrete is None else z3.BitVecVal(concrete.get("a0", 0), 32)
        a1 = z3.BitVec("a1", 32) if concrete is None else z3.BitVecVal(concrete.get("a1", 0), 32)
        if concrete is None:
            ex.named["a0"], ex.named["a1"] = SymInt.from_bv(a0), SymInt.from_bv(a1)
            for r_, t in (("a0", a0), ("a1", a1)):
                if r_ in boxes:
                    ex.assume(z3.And(t >= boxes[r_][0], t <= boxes[r_][1]))
        # meaning before allocation (SSA cells)
        m1 = rvsem.Machine(32, "m")
        m1.x["a0"], m1.x["a1"] = a0, a1
        mem0 = m1.mem
        run_block(m1, f.body.block)
        ret = f.body.block.last_op
        expected = m1.read(ret.operands[0])
        # allocate
        pool = POOLS[ob["pool"]]
        try:
            stack = RiscvRegisterStack.get() if pool is None else RiscvRegisterStack.get(allocatable_registers=tuple(riscv.IntRegisterType.from_name(r) for r in pool))
            RegisterAllocatorLivenessBlockNaive(stack).allocate_func(f)
            m.verify()
        except DiagnosticException as e:
            if ex is not None:
                ex.note("allocation_failed", type(e).__name__)
            return True
        # every value must now live in a register
        for op in f.body.walk():
            for v in list(op.results) + list(op.operands):
                if hasattr(v.type, "is_allocated") and not v.type.is_allocated:
                    return z3.BoolVal(False)
        m2 = rvsem.Machine(32, "m")
        m2.x["a0"], m2.x["a1"] = a0, a1
        m2.mem = mem0
        run_block(m2, f.body.block)
        got = m2.rx("a0")
        probe = z3.BitVec("probe_addr", 32) if concrete is None else z3.BitVecVal(concrete.get("probe_addr", 0), 32)
        if concrete is None:
            ex.named["probe_addr"] = SymInt.from_bv(probe)
        return z3.And(got == expected, z3.Select(m1.mem, probe) == z3.Select(m2.mem, probe), z3.BoolVal(not m2.env))

    return h


def run(ob, tier, stats, exclude):
    return decide(harness(ob), timeout_ms=30000, budget_s=200, stats=stats, exclude=exclude, ob=ob, max_paths=2000)


def evidence_extra(tier, results):
    return {"programs": len(results), "disagreements_checked": sum(r["ok_paths"] for r in results)}


def replay(ob, inputs):
    from vx.symx import Explorer

    out = {"bad": 0}

    def h(ex):
        v = harness(ob, concrete=inputs)(ex)
        if v is True:
            return True
        if z3.is_false(z3.simplify(v)):
            out["bad"] += 1
        return True

    try:
        list(Explorer(max_paths=16).explore(h))
    except Exception as e:
        return {"violates": True, "observed": f"exception {type(e).__name__}: {str(e)[:300]}"}
    return {"violates": out["bad"] > 0}
