"""C07 - parsing any text ends promptly with IR or a parse/verification diagnostic, never with an internal error."""
from __future__ import annotations

import z3

from vx import shim_re, symstr
from vx.framework import decide
from vx.symstr import SymStr
from vx.symx import SymInt

symstr.install()

from xdsl.context import Context  # noqa: E402
from xdsl.dialects import builtin, test  # noqa: E402
from xdsl.ir import Dialect  # noqa: E402
from xdsl.irdl import IRDLOperation, irdl_op_definition, traits_def, var_region_def  # noqa: E402
from xdsl.parser import Parser  # noqa: E402
from xdsl.traits import NoTerminator  # noqa: E402
from xdsl.utils.exceptions import DiagnosticException, ParseError, VerifyException  # noqa: E402
from xdsl.utils.lexer import Input  # noqa: E402
from xdsl.utils.mlir_lexer import MLIRLexer, MLIRTokenKind  # noqa: E402

LEVEL = "other"
EXPLANATION = (
    "Three families. (lex) The real MLIRLexer runs on FULLY symbolic text of 1-2 (thorough 3) cells, every cell ranging over all "
    "Unicode scalar values: every path must end with tokens up to EOF or a ParseError. (parse) Representative generic-format "
    "chunks (attribute dictionaries with ints, hex, floats, strings with escapes, dense/array/affine/location/symbol/type "
    "syntax, properties, multi-result ops, blocks with arguments and successors, forward value references with several "
    "result indices) are edited at EVERY position - one cell replaced by a symbolic cell, a symbolic cell inserted, or the "
    "text cut there and a symbolic cell appended - and parsed by the real Parser (parse_module + verify): each path must end "
    "with IR, ParseError or a verification diagnostic; any other exception (ValueError, KeyError, IndexError, AssertionError, "
    "TypeError, UnicodeDecodeError ...) is a violation, decided by the solver for all values of the cell. (cost) For each "
    "token-start prefix followed by n cells of one character class (n up to 16, symbolic inside the class) the number of "
    "steps of the regex matcher - a backtracking matcher with sre's priority order walking CPython's parse tree of the "
    "lexer's own patterns - must stay below a linear bound, which exposes super-linear backtracking."
)
FUNCTIONS = ["MLIRLexer.lex and every _lex_* method with their regexes", "StringLiteral.bytes_contents / MLIRTokenKind.get_int_value / get_float_value / get_string_literal_value", "Parser.parse_module, parse_operation, _parse_generic_operation, _parse_block, parse_optional_region, resolve_operand, forward references",
             "AttrParser: builtin attribute and type parsers (xdsl/parser/attribute_parser.py), affine parser", "BaseParser.raise_error / ParseError / Span.print_with_context"]
ASSUMPTIONS = ["input text consists of Unicode scalar values (no lone surrogates)", "matcher steps of vx/shim_re.py are a faithful cost model of sre's backtracking (same priority order; validated for results, not for constants)"]
OUTSIDE = ["more than one edited cell per chunk (thorough: two adjacent cells at a subset of positions)", "custom assembly formats of dialect operations", "inputs longer than the chunks; wall-clock time (the cost family counts matcher steps instead)", "chunks outside the catalogue"]
STUBS = []

CELL = [(0, 31), (32, 32), (33, 47), (48, 57), (58, 64), (65, 90), (91, 96), (97, 122), (123, 127), (128, 0xD7FF), (0xE000, 0x10FFFF)]

CHUNKS = {
    "ints": '%0 = "test.op"() {a = 12 : i32, b = -0x1F : i8, c = 0 : index} : () -> i32',
    "strings": '"test.op"() {s = "a\\n\\22", d = dense<[1, 2]> : tensor<2xi32>} : () -> ()',
    "results": '%1:2 = "test.op"() : () -> (i32, index)\n"test.op"(%1#1) : (index) -> ()',
    "blocks": '"test.op"() ({\n^bb0(%a: i32):\n  "test.termop"(%a)[^bb1] : (i32) -> ()\n^bb1:\n  "test.termop"() : () -> ()\n}) : () -> ()',
    "forward": '"vx.graph"() ({\n  "test.op"(%0#0, %0#1) : (i32, i64) -> ()\n  %0:2 = "test.op"() : () -> (i32, i64)\n}) : () -> ()',
    "floats": '"test.op"() {f = 1.5e3 : f32, g = 0x7FC00000 : f32, h = [unit, @s::@n, loc("f":1:2)]} : () -> ()',
    "types": '"test.op"() {t = tensor<?x4xf32>, m = memref<2xi8, strided<[1], offset: 3>>, v = vector<[4]xi1>} : () -> ()',
    "misc": '"test.op"() {p = array<i32: 1, -2>, q = #builtin.int<5>, r = (i32) -> (), k = {x = true}} : () -> ()',
    "props": '"test.op"() <{prop1 = 1 : i64}> {a = affine_map<(d0)[s0] -> (d0 + s0)>} : () -> ()',
    "dense": '"test.op"() {a = dense<0x7F> : tensor<1xi8>, b = dense<"0x0102"> : tensor<2xi8>, c = dense<> : tensor<0xi1>} : () -> ()',
    "symstr": '"test.op"() {a = @"\\4F"::@"b", b = "\\4F", c = loc("\\41":1:2)} : () -> ()',
    "complex": '"test.op"() {c = dense<(1,2)> : tensor<1xcomplex<i32>>, d = dense<1> : tensor<2xcomplex<f32>>} : () -> ()',
    "zerowidth": '"test.op"() {a = array<i8: 0>, b = i1, c = 9 : i1} : () -> ()',
    "f80": '"test.op"() {a = dense<1.0> : tensor<1xf80>, b = 0x1 : f80, c = 1.0 : f128} : () -> ()',
    "affdiv": '"test.op"() {a = affine_map<(d0) -> (d0 floordiv 2, 5 mod 3, 7 ceildiv 1)>} : () -> ()',
    "metadata": '"test.op"() : () -> ()\n{-# external_resources: {} #-}',
    "blockdup": '"test.op"() ({\n  "test.termop"()[^a] : () -> ()\n^a:\n  "test.termop"()[^b] : () -> ()\n^b:\n  "test.termop"() : () -> ()\n}) : () -> ()',
}

ALLOWED = (ParseError, VerifyException, DiagnosticException)


@irdl_op_definition
class GraphOp(IRDLOperation):
    name = "vx.graph"
    regs = var_region_def()
    traits = traits_def(NoTerminator())


VX = Dialect("vx", [GraphOp], [])


def ctx():
    c = Context()
    c.load_dialect(builtin.Builtin)
    c.load_dialect(test.Test)
    c.load_dialect(VX)
    return c


shim_re.STEP_LIMIT[0] = 150_000  # far above the linear bound for the inputs used here; reached only by runaway backtracking


def flags():
    symstr.RENDER_INTS[0] = True
    symstr.SYM_BYTEARRAY[0] = True
    symstr.SYM_DICT[0] = True
    symstr.HAVOC_FLOAT[0] = True


def cell(ex, concrete, name="c", partition=CELL):
    if concrete is not None:
        return chr(concrete.get(f"{name}0", 97))
    return SymStr.var_split(name, 1, partition)


def h_lex(ob, concrete=None):
    def h(ex):
        flags()
        n = ob["n"]
        text = SymStr.var_split("t", n, CELL) if concrete is None else "".join(chr(concrete.get(f"t{i}", 97)) for i in range(n))
        lx = MLIRLexer(Input(text, "x"))
        for _ in range(n + 2):
            try:
                t = lx.lex()
            except ParseError:
                return True
            if t.kind is MLIRTokenKind.EOF:
                return True
        return {"prop": False, "detail": "the lexer does not reach EOF within n+2 tokens"}

    return h


def edit(ob, ex, concrete):
    base, pos, mode = CHUNKS[ob["chunk"]], ob["pos"], ob["mode"]
    c = cell(ex, concrete)
    if ob.get("two"):
        c = c + cell(ex, concrete, "e")
    if mode == "replace":
        return base[:pos] + c + base[pos + 1 + (1 if ob.get("two") else 0):]
    if mode == "insert":
        return base[:pos] + c + base[pos:]
    return base[:pos] + c  # truncate + append


def h_parse(ob, concrete=None):
    def h(ex):
        flags()
        text = edit(ob, ex, concrete)
        m = Parser(ctx(), text).parse_module()
        m.verify()
        return True

    return h


PREFIXES = {"string": '"', "string_esc": '"\\n', "comment": "//", "percent": "%", "caret": "^", "hash": "#", "bang": "!", "at_string": '@"', "at": "@", "hex": "0x", "digits": "1", "float": "1.", "floatexp": "1.e", "bare": "a", "space": " ",
            "arrow": "-", "brace": "{-"}
CLASSES = {"letters": (97, 122), "digits": (48, 57), "spaces": (32, 32), "controls": (1, 8), "nonascii": (0x100, 0x2FF), "punct_dot": (46, 46), "backslash": (92, 92), "quote": (34, 34), "newline": (10, 10), "hexletters": (65, 70),
           "dollar": (36, 36), "slash": (47, 47)}


def h_cost(ob, concrete=None):
    def h(ex):
        flags()
        lo, hi = CLASSES[ob["cls"]]
        n = ob["n"]
        if concrete is None:
            cells = []
            for i in range(n):
                v = SymInt.var(f"c{i}", 0, 0x10FFFF)
                ex.assume(z3.And(v.e >= lo, v.e <= hi))
                cells.append(lo if lo == hi else SymInt(v.e, lo, hi))
        else:
            cells = [concrete.get(f"c{i}", lo) for i in range(n)]
        # a SymStr (never collapsed to str) so that the modelled matcher, which counts steps, runs even if every cell is pinned
        text = SymStr([ord(c) for c in PREFIXES[ob["prefix"]]] + cells + [ord(c) for c in ob.get("suffix", "")])
        lx = MLIRLexer(Input(text, "x"))
        worst = 0
        orig = shim_re.SymPattern._run

        def counted(self, s, pos, endpos, full):
            nonlocal worst
            try:
                return orig(self, s, pos, endpos, full)
            finally:
                worst = max(worst, shim_re.STEPS[0])

        shim_re.SymPattern._run = counted
        try:
            for _ in range(len(text) + 2):
                try:
                    t = lx.lex()
                except ParseError:
                    break
                if t.kind is MLIRTokenKind.EOF:
                    break
        except shim_re.StepLimit:
            worst = shim_re.STEP_LIMIT[0]
        finally:
            shim_re.SymPattern._run = orig
        bound = 60 * (len(text) + 4)
        if ex is not None:
            ex.note("steps", worst)
        if worst > bound:
            return {"prop": False, "detail": f"one regex match on {len(text)} characters takes {worst} matcher steps (linear bound {bound}): super-linear backtracking"}
        return True

    return h


def bounds(tier):
    return {"lex_cells": 2 if tier == "quick" else 3, "chunks": {k: len(v) for k, v in CHUNKS.items()}, "edits": "replace / insert / truncate+append one symbolic cell at every position" + ("" if tier == "quick" else "; two adjacent cells at every 3rd position"),
            "cost_shapes": f"{len(PREFIXES)} prefixes x {len(CLASSES)} classes x n in (8, 16) x suffix in ('', '\"')", "cell_partition": CELL}


def obligations(tier):
    obs = []
    for n in range(1, (2 if tier == "quick" else 3) + 1):
        obs.append({"id": f"C07/lex/{n}", "kind": "lex", "n": n, "weight": 1 + 6 * n, "budget_s": 900})
    for name, text in CHUNKS.items():
        for pos in range(len(text) + 1):
            for mode in ("replace", "insert", "truncate"):
                if mode == "replace" and pos >= len(text):
                    continue
                if tier == "quick" and mode == "insert" and pos % 2:
                    continue
                obs.append({"id": f"C07/parse/{name}/{mode}/{pos}", "kind": "parse", "chunk": name, "pos": pos, "mode": mode, "weight": 2})
            if tier != "quick" and pos % 3 == 0 and pos + 1 < len(text):
                obs.append({"id": f"C07/parse/{name}/replace2/{pos}", "kind": "parse", "chunk": name, "pos": pos, "mode": "replace", "two": True, "weight": 8, "budget_s": 600})
    for p in PREFIXES:
        for c in CLASSES:
            for n in (8, 16):
                for suf in ("", '"'):
                    if suf and n == 8:
                        continue
                    obs.append({"id": f"C07/cost/{p}/{c}/{n}{'q' if suf else ''}", "kind": "cost", "prefix": p, "cls": c, "n": n, "suffix": suf, "weight": 1})
    return obs


HARNESS = {"lex": h_lex, "parse": h_parse, "cost": h_cost}


def run(ob, tier, stats, exclude):
    return decide(HARNESS[ob["kind"]](ob), allowed_exc=ALLOWED, timeout_ms=30000, budget_s=ob.get("budget_s", 300), stats=stats, exclude=exclude, ob=ob, max_paths=100000, fuel=2000000)


def replay(ob, inputs):
    import time

    if ob["kind"] == "cost":
        # the concrete witness: time CPython's own regex engine on growing instances of the same shape
        lo, hi = CLASSES[ob["cls"]]
        ch = chr(inputs.get("c0", lo))
        times = []
        for n in (16, 20, 24):
            text = PREFIXES[ob["prefix"]] + ch * n + ob.get("suffix", "")
            t = time.time()
            lx = MLIRLexer(Input(text, "x"))
            try:
                for _ in range(n + 4):
                    if lx.lex().kind is MLIRTokenKind.EOF:
                        break
            except ParseError:
                pass
            times.append(time.time() - t)
        grows = times[2] > 8 * max(times[0], 1e-4) and times[2] > 0.05
        return {"violates": bool(grows), "observed": {"seconds_for_n_16_20_24": [round(x, 4) for x in times]}}
    import signal

    class _Slow(BaseException):
        pass

    def _on_alarm(*a):
        raise _Slow()

    signal.signal(signal.SIGALRM, _on_alarm)
    signal.alarm(20)
    try:
        v = HARNESS[ob["kind"]](ob, concrete=inputs)(None)
    except _Slow:
        return {"violates": True, "observed": "no result within 20 s for an input of under 200 characters"}
    except ALLOWED:
        return {"violates": False, "observed": "diagnostic"}
    except Exception as e:
        return {"violates": True, "observed": f"internal error {type(e).__name__}: {str(e)[:300]}"}
    finally:
        signal.alarm(0)
    if isinstance(v, dict):
        return {"violates": not v["prop"], "observed": v["detail"]}
    return {"violates": False, "observed": "parsed"}
