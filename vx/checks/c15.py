"""C15 - the interpreter computes MLIR semantics (unit-symbolic M1 + small compositions)."""
from __future__ import annotations

import z3

from vx import refprog, refsem, symx, util
from vx.checks.c15_programs import PROGRAMS
from vx.framework import decide
from vx.symfloat import F32, F64, RNE, SymFloat, fp_same
from vx.symx import SymBool, SymInt

from xdsl.dialects import arith, builtin, func
from xdsl.dialects.builtin import IndexType, IntegerType, ModuleOp, f32, f64
from xdsl.interpreter import Interpreter
from xdsl.interpreters.arith import ArithFunctions
from xdsl.interpreters.func import FuncFunctions
from xdsl.interpreters.cf import CfFunctions
from xdsl.interpreters.scf import ScfFunctions
from xdsl.context import Context
from xdsl.parser import Parser
from xdsl.ir import Block, Region
from xdsl.utils.test_value import create_ssa_value

LEVEL = "other"
EXPLANATION = (
    "Each ArithFunctions.run_* implementation of /repo is executed (through Interpreter.run_op) on symbolic operands "
    "(exact Python ints as ranged bit-vectors, floats as z3 FP terms). Per (op, type, input-regime) the SMT query "
    "'exists operands on which MLIR defines the result and the interpreter's result is out of the type's range or has a "
    "different bit pattern than the reference semantics' is discharged by z3 (cvc5 on unknown). unsat = holds for every "
    "operand value of that width. Compositions op2(op1(a,b),c) are run through the real Interpreter on a func.func."
)
FUNCTIONS = ["xdsl.interpreters.arith.ArithFunctions.run_*", "xdsl.interpreters.arith._truncate/_sign_extend/_int_bitwidth",
             "xdsl.utils.comparisons.to_signed/to_unsigned", "xdsl.interpreter.Interpreter.run_op/call_op/run_ssacfg_region",
             "xdsl.interpreters.func.FuncFunctions"]
ASSUMPTIONS = [
    "z3 4.x/5.x QF_BV and QF_FP decision procedures; cvc5 as fallback on unknown",
    "reference semantics vx/refsem.py (MLIR arith: two's complement wrap, unsigned predicates on bit patterns, IEEE-754 RNE in the op's precision)",
    "NaN payloads are not distinguished (all NaNs identified); hardware NaN propagation is outside the claim",
    "integer operands are the canonical signed representation [-2^(W-1), 2^(W-1)) that IntegerAttr normalisation and every wrapping op produce; results must lie in the signless range [-2^(W-1), 2^W) of xdsl/utils/comparisons.py with the reference's bit pattern; consumer/producer conventions are cross-checked by the 2-op composition obligations",
    "float operands of an f32 op are doubles exactly representable in f32 (what FloatAttr(x, f32) stores)",
    "index is 64 bit (Interpreter default index_bitwidth)",
]
OUTSIDE = ["dialects other than arith/func", "NaN payload propagation", "integer operands that are not the canonical signed representation",
           "signed division/remainder at widths above 16 (quick) / 32 (thorough): solver does not finish", "programs deeper than two arith ops"]
STUBS = ["math.isnan/math.copysign -> z3 fpIsNaN / sign-bit model (vx/shim_math.py)"]


def bounds(tier):
    return {"int_widths": WIDTHS[tier], "float_types": ["f32", "f64"], "regimes": REGIMES[tier],
            "solver_timeout_ms": 20000 if tier == "quick" else 120000, "composition_depth": 2}


WIDTHS = {"quick": [1, 8, 32, 64, "index"], "thorough": [1, 2, 8, 16, 32, 64, "index"]}
HARD_DIV = {"arith.divsi", "arith.remsi", "arith.floordivsi", "arith.divui", "arith.remui", "arith.ceildivsi", "arith.ceildivui"}
REGIMES = {"quick": ["canonical"], "thorough": ["canonical"]}


def ty_of(w):
    return IndexType() if w == "index" else IntegerType(w)


def width_of(w):
    return 64 if w == "index" else w


def impl_ops():
    d = getattr(ArithFunctions, "__impl_dict")
    return sorted(d.keys(), key=lambda c: c.name)


def obligations(tier):
    obs = []
    for cls in impl_ops():
        n = cls.name
        if n in refsem.INT_BIN:
            ws = WIDTHS[tier]
            if n in HARD_DIV:
                # 32/64-bit signed-division equivalence does not finish in either solver within the budget (measured:
                # z3 and cvc5 unknown at 120 s); the code path is width-independent Python-int code, decided at <= 16
                # (quick) / <= 32 attempted (thorough). Wider widths are outside the claim.
                ws = [1, 8, 16] if tier == "quick" else [1, 2, 8, 16, 24, 32]
            for w in ws:
                for reg in REGIMES[tier]:
                    obs.append({"id": f"C15/run/{n}/{w}/{reg}", "kind": "intbin", "op": n, "w": w, "regime": reg,
                                "weight": 5 if (width_of(w) >= 32 and n in ("arith.muli", "arith.divsi", "arith.remsi", "arith.floordivsi")) else 1})
        elif n == "arith.cmpi":
            for w in WIDTHS[tier]:
                for p in range(10):
                    for reg in REGIMES[tier]:
                        obs.append({"id": f"C15/run/arith.cmpi/{refsem.CMPI_NAMES[p]}/{w}/{reg}", "kind": "cmpi", "pred": p, "w": w, "regime": reg})
        elif n in refsem.FLOAT_BIN:
            for ft in ("f32", "f64"):
                obs.append({"id": f"C15/run/{n}/{ft}", "kind": "floatbin", "op": n, "ft": ft, "weight": 4})
        elif n == "arith.cmpf":
            for ft in ("f32", "f64"):
                for p in range(16):
                    obs.append({"id": f"C15/run/arith.cmpf/{refsem.CMPF_NAMES[p]}/{ft}", "kind": "cmpf", "pred": p, "ft": ft})
        elif n == "arith.index_cast":
            ws = [1, 8, 32, 64] if tier == "quick" else [1, 8, 16, 32, 64]
            for w in ws:
                for direction in ("to_index", "from_index"):
                    for reg in REGIMES[tier]:
                        obs.append({"id": f"C15/run/arith.index_cast/{direction}/{w}/{reg}", "kind": "index_cast", "w": w, "dir": direction, "regime": reg})
        elif n == "arith.constant":
            for w in (1, 8, 64):
                obs.append({"id": f"C15/run/arith.constant/{w}", "kind": "constant", "w": w})
        else:
            obs.append({"id": f"C15/run/{n}/no-reference", "kind": "noref", "op": n})
    for name in PROGRAMS:
        obs.append({"id": f"C15/prog/{name}", "kind": "prog", "prog": name, "weight": 6})
    # bug hunting at widths where the equivalence proof does not finish: a short search for a counterexample only
    for n in sorted(HARD_DIV & {c.name for c in impl_ops()}):
        for w in ([32, 64] if tier == "quick" else [64]):
            obs.append({"id": f"C15/bughunt/{n}/{w}", "kind": "intbin", "op": n, "w": w, "regime": "canonical", "bughunt": True, "weight": 4})
    # one operand pinned to a boundary constant, the other symbolic at full width (decidable where the general
    # two-variable division equivalence is not)
    for n in sorted(HARD_DIV & {c.name for c in impl_ops()}):
        for w in ([32, 64] if tier == "quick" else [32, 64, "index"]):
            W = width_of(w)
            consts = [1, -1, 2, 3, -3, (1 << (W - 1)) - 1, -(1 << (W - 1)), 10] if tier == "thorough" else [1, -1, 3, (1 << (W - 1)) - 1]
            for c in consts:
                for side in ("rhs", "lhs"):
                    if side == "lhs" and c != -1:
                        continue  # a constant dividend does not make the query easier (measured: unknown at 20 s)
                    obs.append({"id": f"C15/run/{n}/{w}/{side}={c}", "kind": "intbin", "op": n, "w": w, "regime": "canonical", "pin": [side, c], "weight": 2})
    # compositions through the real Interpreter on a func.func
    comp_ops = ["arith.addi", "arith.subi", "arith.muli", "arith.andi", "arith.ori", "arith.xori", "arith.shli", "arith.shrsi", "arith.divsi", "arith.remsi", "arith.floordivsi"]
    comp_ws = [8] if tier == "quick" else [8, 32]
    names = {c.name for c in impl_ops()}
    for w in comp_ws:
        for o1 in comp_ops:
            for o2 in comp_ops:
                if o1 in names and o2 in names:
                    if tier == "quick" and not (o1 in ("arith.shli", "arith.muli", "arith.addi", "arith.xori") or o2 in ("arith.shrsi", "arith.divsi")):
                        continue
                    obs.append({"id": f"C15/comp/{o2}({o1}(a,b),c)/{w}", "kind": "comp", "op1": o1, "op2": o2, "w": w, "weight": 3})
        for o1 in comp_ops:
            if o1 in names and "arith.cmpi" in names:
                for p in ([2, 6, 0] if tier == "quick" else range(10)):
                    obs.append({"id": f"C15/comp/cmpi.{refsem.CMPI_NAMES[p]}({o1}(a,b),c)/{w}", "kind": "comp_cmpi", "op1": o1, "pred": p, "w": w, "weight": 2})
    return obs


def op_class(name):
    for c in impl_ops():
        if c.name == name:
            return c
    raise KeyError(name)


def make_interp():
    interp = Interpreter(ModuleOp([]))
    interp.register_implementations(ArithFunctions())
    interp.register_implementations(FuncFunctions())
    return interp


def in_range(lo, hi, regime, W):
    return (-(1 << (W - 1)), (1 << (W - 1)) - 1) if regime == "canonical" else (-(1 << (W - 1)), (1 << W) - 1)


def result_ok(r, ref, W):
    """interpreter result r (python int / SymInt / bool) is within the signless range and has the reference's bits"""
    if isinstance(r, (bool, SymBool)):
        r = SymInt.lift(r)
    if not isinstance(r, (int, SymInt)):
        return z3.BoolVal(False)
    r = SymInt.lift(r)
    w = max(r.e.size(), W + 2)
    x = r.ext(w)
    lo, hi = -(1 << (W - 1)), (1 << W) - 1
    return z3.And(x >= lo, x <= hi, z3.Extract(W - 1, 0, x) == ref)


def build_binop(cls, T):
    return cls(create_ssa_value(T), create_ssa_value(T))


def sym_inputs(ob, W, names=("a", "b")):
    lo, hi = in_range(None, None, ob.get("regime", "signless"), W)
    return [SymInt.var(n, lo, hi) for n in names]


def concrete_float(v, ft):
    return util.float_from_input(v)


def fsort(ft):
    return F32 if ft == "f32" else F64


def fty(ft):
    return f32 if ft == "f32" else f64


def float_result_ok(r, ref, sort, zero_sign_free=False):
    """r: SymFloat/float/int result; must be bit-identical to ref (computed in `sort`) when converted exactly."""
    if isinstance(r, (bool, int)):
        r = float(r)
    if isinstance(r, float):
        r = SymFloat.lift(r)
    if not isinstance(r, SymFloat):
        return z3.BoolVal(False)
    refd = ref if sort == F64 else z3.fpToFP(RNE, ref, F64)  # exact widening
    ok = fp_same(r.e, refd)
    if zero_sign_free:
        ok = z3.Or(ok, z3.And(z3.fpIsZero(r.e), z3.fpIsZero(refd)))
    return ok


def run(ob, tier, stats, exclude):
    kind = ob["kind"]
    tmo = 20000 if tier == "quick" else 120000
    budget = 90 if tier == "quick" else 900
    if kind == "noref":
        return {"status": "inconclusive", "reasons": [f"no reference semantics for {ob['op']}"], "paths": 0, "ok_paths": 0}
    interp = make_interp()

    if kind == "intbin":
        W = width_of(ob["w"])
        cls = op_class(ob["op"])
        opx = build_binop(cls, ty_of(ob["w"]))

        def h(ex):
            a, b = sym_inputs(ob, W)
            if ob.get("pin"):
                side, c = ob["pin"]
                ex.assume((b if side == "rhs" else a) == c)
            ab, bb = a.ext(max(W, a.e.size())), b.ext(max(W, b.e.size()))
            ab, bb = z3.Extract(W - 1, 0, ab), z3.Extract(W - 1, 0, bb)
            ref, dfd = refsem.INT_BIN[ob["op"]](ab, bb, W)
            ex.assume(dfd)
            (r,) = interp.run_op(opx, (a, b))
            return result_ok(r, ref, W)

        r = decide(h, timeout_ms=(8000 if ob.get("bughunt") else tmo), budget_s=budget, stats=stats, exclude=exclude, ob=ob)
        if ob.get("bughunt") and r["status"] == "inconclusive":
            r["reasons"] = ["bug-hunt only: no counterexample within 8 s; equivalence at this width is outside the claim"]
        return r

    if kind == "prog":
        return run_prog(ob, tier, stats, exclude)

    if kind == "cmpi":
        W = width_of(ob["w"])
        T = ty_of(ob["w"])
        opx = arith.CmpiOp(create_ssa_value(T), create_ssa_value(T), ob["pred"])

        def h(ex):
            a, b = sym_inputs(ob, W)
            ab = z3.Extract(W - 1, 0, a.ext(max(W, a.e.size())))
            bb = z3.Extract(W - 1, 0, b.ext(max(W, b.e.size())))
            ref = refsem.b2bv(refsem.CMPI[ob["pred"]](ab, bb))
            (r,) = interp.run_op(opx, (a, b))
            return result_ok(r, ref, 1)

        return decide(h, timeout_ms=tmo, budget_s=budget, stats=stats, exclude=exclude, ob=ob)

    if kind == "index_cast":
        w = ob["w"]
        src, dst = (IntegerType(w), IndexType()) if ob["dir"] == "to_index" else (IndexType(), IntegerType(w))
        Ws, Wd = (w, 64) if ob["dir"] == "to_index" else (64, w)
        opx = arith.IndexCastOp(create_ssa_value(src), dst)

        def h(ex):
            (a,) = sym_inputs(ob, Ws, names=("a",))
            ab = z3.Extract(Ws - 1, 0, a.ext(max(Ws, a.e.size())))
            ref = z3.SignExt(Wd - Ws, ab) if Wd > Ws else (z3.Extract(Wd - 1, 0, ab) if Wd < Ws else ab)
            (r,) = interp.run_op(opx, (a,))
            return result_ok(r, ref, Wd)

        return decide(h, timeout_ms=tmo, budget_s=budget, stats=stats, exclude=exclude, ob=ob)

    if kind == "constant":
        W = ob["w"]

        def h(ex):
            c = SymInt.var("c", -(1 << (W - 1)), (1 << (W - 1)) - 1)
            opx = arith.ConstantOp(builtin.IntegerAttr(c, W))
            (r,) = interp.run_op(opx, ())
            return result_ok(r, c.ext(W), W)

        return decide(h, timeout_ms=tmo, budget_s=budget, stats=stats, exclude=exclude, ob=ob)

    if kind == "floatbin":
        sort = fsort(ob["ft"])
        cls = op_class(ob["op"])
        opx = build_binop(cls, fty(ob["ft"]))

        def h(ex):
            x = SymFloat.var_bits("a", sort)
            y = SymFloat.var_bits("b", sort)
            xs, ys = ex.named["a"], ex.named["b"]
            xt = z3.FP("a", sort)
            yt = z3.FP("b", sort)
            ref = refsem.FLOAT_BIN[ob["op"]](xt, yt)
            (r,) = interp.run_op(opx, (x, y))
            return float_result_ok(r, ref, sort, ob["op"] in refsem.ZERO_SIGN_FREE)

        return decide(h, timeout_ms=tmo, budget_s=budget, stats=stats, exclude=exclude, ob=ob)

    if kind == "cmpf":
        sort = fsort(ob["ft"])
        T = fty(ob["ft"])
        opx = arith.CmpfOp(create_ssa_value(T), create_ssa_value(T), ob["pred"])

        def h(ex):
            x = SymFloat.var_bits("a", sort)
            y = SymFloat.var_bits("b", sort)
            ref = refsem.b2bv(refsem.CMPF[ob["pred"]](z3.FP("a", sort), z3.FP("b", sort)))
            (r,) = interp.run_op(opx, (x, y))
            return result_ok(r, ref, 1)

        return decide(h, timeout_ms=tmo, budget_s=budget, stats=stats, exclude=exclude, ob=ob)

    if kind in ("comp", "comp_cmpi"):
        W = ob["w"]
        T = IntegerType(W)
        f = build_comp(ob, T)
        interp2 = Interpreter(ModuleOp([f]))
        interp2.register_implementations(ArithFunctions())
        interp2.register_implementations(FuncFunctions())

        def h(ex):
            lo, hi = -(1 << (W - 1)), (1 << (W - 1)) - 1  # function arguments: canonical (what xdsl-run passes)
            a, b, c = (SymInt.var(n, lo, hi) for n in "abc")
            ab, bb, cb = (v.ext(W) for v in (a, b, c))
            t, d1 = refsem.INT_BIN[ob["op1"]](ab, bb, W)
            ex.named["t"] = SymInt.from_bv(t)  # the intermediate value (reference), signed view
            if kind == "comp":
                ref, d2 = refsem.INT_BIN[ob["op2"]](t, cb, W)
                Wr = W
            else:
                ref, d2 = refsem.b2bv(refsem.CMPI[ob["pred"]](t, cb)), z3.BoolVal(True)
                Wr = 1
            ex.assume(z3.And(d1, d2))
            (r,) = interp2.call_op("f", (a, b, c))
            return result_ok(r, ref, Wr)

        return decide(h, timeout_ms=tmo, budget_s=budget, stats=stats, exclude=exclude, ob=ob)
    raise KeyError(kind)


_CTX = None


def parse_prog(name):
    global _CTX
    if _CTX is None:
        from xdsl.dialects import cf as cf_d, scf as scf_d

        _CTX = Context()
        for d in (builtin.Builtin, arith.Arith, func.Func, cf_d.Cf, scf_d.Scf):
            _CTX.load_dialect(d)
    m = Parser(_CTX, PROGRAMS[name]["text"]).parse_module()
    m.verify()
    return m


def prog_interp(m):
    it = Interpreter(m)
    for fns in (ArithFunctions(), FuncFunctions(), CfFunctions(), ScfFunctions()):
        it.register_implementations(fns)
    return it


def run_prog(ob, tier, stats, exclude):
    P = PROGRAMS[ob["prog"]]
    m = parse_prog(ob["prog"])
    f = next(o for o in m.walk() if isinstance(o, func.FuncOp) and o.sym_name.data == P["entry"])
    arg_types = list(f.function_type.inputs.data)
    res_types = list(f.function_type.outputs.data)
    names = [a.name_hint or f"arg{i}" for i, a in enumerate(f.body.blocks.first.args)]

    def h(ex):
        py_args, terms = [], []
        for nme, t in zip(names, arg_types):
            if refprog.is_int_type(t):
                W = refprog.width(t)
                lo, hi = P["ranges"].get(nme, (-(1 << (W - 1)), (1 << (W - 1)) - 1))
                a = SymInt.var(nme, lo, hi)
                py_args.append(a)
                terms.append(a.ext(W))
            else:
                sort = refprog.fsort(t)
                a = SymFloat.var_bits(nme, sort)
                py_args.append(a)
                terms.append(z3.FP(nme, sort))
        ref = refprog.Ref(m, loop_bound=8)
        try:
            exp = ref.call(f, terms)
        except refprog.RefFuel:
            ex.assume(False)
        ex.assume(ref.defined)
        it = prog_interp(m)
        res = it.call_op(P["entry"], tuple(py_args))
        props = [z3.BoolVal(len(res) == len(exp))]
        for r, e, t in zip(res, exp, res_types):
            if refprog.is_int_type(t):
                props.append(result_ok(r, e, refprog.width(t)))
            else:
                props.append(float_result_ok(r, e, refprog.fsort(t)))
        return z3.And(*props)

    tmo = 20000 if tier == "quick" else 60000
    return decide(h, timeout_ms=tmo, budget_s=150 if tier == "quick" else 900, stats=stats, exclude=exclude, ob=ob)


def replay_prog(ob, inputs):
    P = PROGRAMS[ob["prog"]]
    m = parse_prog(ob["prog"])
    f = next(o for o in m.walk() if isinstance(o, func.FuncOp) and o.sym_name.data == P["entry"])
    arg_types = list(f.function_type.inputs.data)
    res_types = list(f.function_type.outputs.data)
    names = [a.name_hint or f"arg{i}" for i, a in enumerate(f.body.blocks.first.args)]
    py_args, terms = [], []
    for nme, t in zip(names, arg_types):
        if refprog.is_int_type(t):
            py_args.append(inputs[nme])
            terms.append(z3.BitVecVal(inputs[nme], refprog.width(t)))
        else:
            x = util.float_from_input(inputs[nme])
            py_args.append(x)
            terms.append(util.fp_const(x, refprog.fsort(t)))
    from vx.symx import Explorer

    out = {}

    def h(ex):
        ref = refprog.Ref(m, loop_bound=64)
        exp = ref.call(f, terms)
        out["exp"] = [util.z3_to_py(e) for e in exp]
        out["defined"] = util.z3_to_py(ref.defined)
        return True

    list(Explorer().explore(h))
    if not out.get("defined"):
        return {"violates": False, "why": "undefined input"}
    it = prog_interp(m)
    res = it.call_op(P["entry"], tuple(py_args))
    ok = len(res) == len(out["exp"])
    for r, e, t in zip(res, out["exp"], res_types):
        if refprog.is_int_type(t):
            W = refprog.width(t)
            rr = int(r) if isinstance(r, (bool, int)) else None
            ok = ok and rr is not None and -(1 << (W - 1)) <= rr < (1 << W) and (rr & ((1 << W) - 1)) == e
        else:
            ok = ok and isinstance(r, float) and util.same_float(r, e)
    return {"violates": not ok, "observed": repr(res), "expected": repr(out["exp"])}


def build_comp(ob, T):
    blk = Block(arg_types=[T, T, T])
    o1 = op_class(ob["op1"])(blk.args[0], blk.args[1])
    if ob["kind"] == "comp":
        o2 = op_class(ob["op2"])(o1.results[0], blk.args[2])
    else:
        o2 = arith.CmpiOp(o1.results[0], blk.args[2], ob["pred"])
    blk.add_ops([o1, o2, func.ReturnOp(o2.results[0])])
    return func.FuncOp("f", ((T, T, T), (o2.results[0].type,)), Region(blk))


# ---------------------------------------------------------------------------------------
def _ref_concrete(term):
    return util.z3_to_py(term)


def replay(ob, inputs):
    """Concrete re-run on the uninstrumented interpreter; oracle = refsem evaluated on constants."""
    kind = ob["kind"]
    interp = make_interp()

    def bitsok(r, ref, W):
        if isinstance(r, bool):
            r = int(r)
        if not isinstance(r, int):
            return False
        return -(1 << (W - 1)) <= r < (1 << W) and (r & ((1 << W) - 1)) == ref

    try:
        if kind == "prog":
            return replay_prog(ob, inputs)
        if kind == "intbin":
            W = width_of(ob["w"])
            a, b = inputs["a"], inputs["b"]
            ref, dfd = refsem.INT_BIN[ob["op"]](z3.BitVecVal(a, W), z3.BitVecVal(b, W), W)
            if not util.z3_to_py(dfd):
                return {"violates": False, "why": "undefined input"}
            ref = util.z3_to_py(ref)
            (r,) = interp.run_op(build_binop(op_class(ob["op"]), ty_of(ob["w"])), (a, b))
            return {"violates": not bitsok(r, ref, W), "observed": repr(r), "expected_bits": ref}
        if kind == "cmpi":
            W = width_of(ob["w"])
            a, b = inputs["a"], inputs["b"]
            ref = util.z3_to_py(refsem.b2bv(refsem.CMPI[ob["pred"]](z3.BitVecVal(a, W), z3.BitVecVal(b, W))))
            T = ty_of(ob["w"])
            (r,) = interp.run_op(arith.CmpiOp(create_ssa_value(T), create_ssa_value(T), ob["pred"]), (a, b))
            return {"violates": not bitsok(r, ref, 1), "observed": repr(r), "expected_bits": ref}
        if kind == "index_cast":
            w = ob["w"]
            src, dst = (IntegerType(w), IndexType()) if ob["dir"] == "to_index" else (IndexType(), IntegerType(w))
            Ws, Wd = (w, 64) if ob["dir"] == "to_index" else (64, w)
            a = inputs["a"]
            ab = z3.BitVecVal(a, Ws)
            ref = z3.SignExt(Wd - Ws, ab) if Wd > Ws else (z3.Extract(Wd - 1, 0, ab) if Wd < Ws else ab)
            ref = util.z3_to_py(ref)
            (r,) = interp.run_op(arith.IndexCastOp(create_ssa_value(src), dst), (a,))
            return {"violates": not bitsok(r, ref, Wd), "observed": repr(r), "expected_bits": ref}
        if kind == "constant":
            W = ob["w"]
            c = inputs["c"]
            (r,) = interp.run_op(arith.ConstantOp(builtin.IntegerAttr(c, W)), ())
            return {"violates": not bitsok(r, c & ((1 << W) - 1), W), "observed": repr(r)}
        if kind in ("floatbin", "cmpf"):
            sort = fsort(ob["ft"])
            x, y = util.float_from_input(inputs["a"]), util.float_from_input(inputs["b"])
            xt, yt = util.fp_const(x, sort), util.fp_const(y, sort)
            T = fty(ob["ft"])
            if kind == "floatbin":
                ref = util.z3_to_py(refsem.FLOAT_BIN[ob["op"]](xt, yt))
                (r,) = interp.run_op(build_binop(op_class(ob["op"]), T), (x, y))
                ok = isinstance(r, (float, int)) and not isinstance(r, bool) and util.same_float(float(r), ref)
                if not ok and ob["op"] in refsem.ZERO_SIGN_FREE and isinstance(r, float) and r == 0 and ref == 0:
                    ok = True
                return {"violates": not ok, "observed": repr(r), "expected": repr(ref), "inputs": [repr(x), repr(y)]}
            ref = util.z3_to_py(refsem.b2bv(refsem.CMPF[ob["pred"]](xt, yt)))
            (r,) = interp.run_op(arith.CmpfOp(create_ssa_value(T), create_ssa_value(T), ob["pred"]), (x, y))
            return {"violates": not bitsok(r, ref, 1), "observed": repr(r), "expected_bits": ref, "inputs": [repr(x), repr(y)]}
        if kind in ("comp", "comp_cmpi"):
            W = ob["w"]
            T = IntegerType(W)
            f = build_comp(ob, T)
            interp2 = Interpreter(ModuleOp([f]))
            interp2.register_implementations(ArithFunctions())
            interp2.register_implementations(FuncFunctions())
            a, b, c = inputs["a"], inputs["b"], inputs["c"]
            t, d1 = refsem.INT_BIN[ob["op1"]](z3.BitVecVal(a, W), z3.BitVecVal(b, W), W)
            if kind == "comp":
                ref, d2 = refsem.INT_BIN[ob["op2"]](t, z3.BitVecVal(c, W), W)
                Wr = W
            else:
                ref, d2, Wr = refsem.b2bv(refsem.CMPI[ob["pred"]](t, z3.BitVecVal(c, W))), z3.BoolVal(True), 1
            if not (util.z3_to_py(d1) and util.z3_to_py(d2)):
                return {"violates": False, "why": "undefined input"}
            ref = util.z3_to_py(ref)
            (r,) = interp2.call_op("f", (a, b, c))
            return {"violates": not bitsok(r, ref, Wr), "observed": repr(r), "expected_bits": ref}
    except Exception as e:  # the real code raised on a defined input
        return {"violates": True, "observed": f"exception {type(e).__name__}: {e}"}
    return {"violates": False, "why": "unknown kind"}
