"""C16 - control-flow and loop lowerings preserve program results (symbolic translation validation)."""
from __future__ import annotations

import z3

from vx import refprog, tv
from vx.framework import decide
from vx.symx import SymInt

from xdsl.context import Context
from xdsl.dialects import arith, builtin, cf, func, memref, scf, test
from xdsl.dialects.builtin import IndexType, IntegerAttr, IntegerType
from xdsl.parser import Parser
from xdsl.utils.exceptions import VerifyException

LEVEL = "translation_validation"
EXPLANATION = (
    "Loop/branch skeletons (scf.for with iter_args, nested loops, scf.if with results, scf.while, loop-invariant and variant "
    "bodies incl. an external call and a possibly-trapping division) are transformed by the real passes (convert-scf-to-cf, "
    "scf-for-loop-unroll, -range-folding, -flatten, licm, control-flow-hoist). Loop bounds, steps, folded constants and initial "
    "values are SYMBOLIC - as function arguments, or as arith.constant payloads inside the IR where the pass needs constants "
    "(the pass then forks on them). Source and result run in the reference interpreter (forking on loop exits, trip count <= K) "
    "and z3 decides refinement of results and of the effect trace (external calls with their operands, in order), zero-trip and "
    "negative ranges included."
)
FUNCTIONS = ["xdsl.transforms.convert_scf_to_cf.*", "xdsl.transforms.scf_for_loop_unroll.UnrollLoopPattern", "xdsl.transforms.scf_for_loop_range_folding.ScfForLoopRangeFolding",
             "xdsl.transforms.scf_for_loop_flatten.FlattenNestedLoopsPattern", "xdsl.transforms.loop_invariant_code_motion.*", "xdsl.transforms.control_flow_hoist.*"]
ASSUMPTIONS = ["reference semantics vx/refprog.py (scf.for: step > 0 else undefined; index arithmetic 64-bit two's complement; division by zero undefined)",
               "loop bounds restricted to small boxes so that the trip bound K is meaningful (stated per program)"]
OUTSIDE = ["trip counts above K (3 quick / 5 thorough)", "lower-affine and desymref (no reference semantics for affine/symref built)", "memory aliasing"]
STUBS = []


def bounds(tier):
    return {"trip_bound": 3 if tier == "quick" else 5, "bound_box": "lb,ub in [-2,4], step in [1,3] (arguments) ; constants as listed per program"}


# %cN constants with value 1000+N are replaced by symbolic payloads (ranges in SYM)
PROGRAMS = {
    "for_iter": ("""
func.func private @ext(index, i8) -> i8
func.func @f(%lb: index, %ub: index, %step: index, %init: i8, %k: i8) -> (i8, i8) {
  %r:2 = scf.for %i = %lb to %ub step %step iter_args(%a = %init, %b = %k) -> (i8, i8) {
    %e = func.call @ext(%i, %a) : (index, i8) -> i8
    %t = arith.muli %a, %k : i8
    %u = arith.addi %t, %e : i8
    scf.yield %u, %a : i8, i8
  }
  func.return %r#0, %r#1 : i8, i8
}""", {"x0": (-2, 3), "x1": (-2, 4), "x2": (1, 3)}, {}),
    "nested_for": ("""
func.func private @ext(index, index) -> i8
func.func @f(%n: index, %m: index, %init: i8) -> i8 {
  %c0 = arith.constant 0 : index
  %c1 = arith.constant 1 : index
  %r = scf.for %i = %c0 to %n step %c1 iter_args(%a = %init) -> (i8) {
    %q = scf.for %j = %c0 to %m step %c1 iter_args(%b = %a) -> (i8) {
      %e = func.call @ext(%i, %j) : (index, index) -> i8
      %s = arith.addi %b, %e : i8
      scf.yield %s : i8
    }
    scf.yield %q : i8
  }
  func.return %r : i8
}""", {"x0": (-1, 2), "x1": (-1, 2)}, {}),
    "if_results": ("""
func.func private @ext(i8) -> i8
func.func @f(%c: i1, %x: i8, %y: i8) -> (i8, i8) {
  %r:2 = scf.if %c -> (i8, i8) {
    %a = func.call @ext(%x) : (i8) -> i8
    scf.yield %a, %x : i8, i8
  } else {
    %b = arith.subi %y, %x : i8
    scf.yield %b, %b : i8, i8
  }
  %s = arith.addi %r#0, %r#1 : i8
  func.return %s, %r#1 : i8, i8
}""", {}, {}),
    "while": ("""
func.func private @ext(i8) -> i8
func.func @f(%n: i8, %x: i8) -> i8 {
  %one = arith.constant 1 : i8
  %r:2 = scf.while (%i = %n, %acc = %x) : (i8, i8) -> (i8, i8) {
    %zero = arith.constant 0 : i8
    %c = arith.cmpi sgt, %i, %zero : i8
    scf.condition(%c) %i, %acc : i8, i8
  } do {
  ^bb0(%j: i8, %a: i8):
    %e = func.call @ext(%a) : (i8) -> i8
    %j2 = arith.subi %j, %one : i8
    scf.yield %j2, %e : i8, i8
  }
  func.return %r#1 : i8
}""", {"x0": (-2, 3)}, {}),
    "unroll_swap": ("""
func.func @f(%p: i8, %q: i8) -> (i8, i8) {
  %lb = arith.constant 1000 : index
  %ub = arith.constant 1001 : index
  %st = arith.constant 1002 : index
  %r:2 = scf.for %i = %lb to %ub step %st iter_args(%a = %p, %b = %q) -> (i8, i8) {
    %ii = arith.index_cast %i : index to i8
    %s = arith.addi %a, %ii : i8
    scf.yield %b, %s : i8, i8
  }
  func.return %r#0, %r#1 : i8, i8
}""", {}, {1000: (-2, 2), 1001: (-2, 4), 1002: (1, 3)}),
    "unroll_rotate": ("""
func.func @f(%p: i8, %q: i8, %w: i8) -> (i8, i8, i8) {
  %lb = arith.constant 1000 : index
  %ub = arith.constant 1001 : index
  %st = arith.constant 1002 : index
  %r:3 = scf.for %i = %lb to %ub step %st iter_args(%a = %p, %b = %q, %c = %w) -> (i8, i8, i8) {
    %ii = arith.index_cast %i : index to i8
    %s = arith.addi %a, %ii : i8
    scf.yield %s, %a, %b : i8, i8, i8
  }
  func.return %r#0, %r#1, %r#2 : i8, i8, i8
}""", {}, {1000: (-2, 2), 1001: (-2, 4), 1002: (1, 3)}),
    "unroll_reduce": ("""
func.func private @ext(index) -> i8
func.func @f(%p: i8) -> i8 {
  %lb = arith.constant 1000 : index
  %ub = arith.constant 1001 : index
  %st = arith.constant 1002 : index
  %r = scf.for %i = %lb to %ub step %st iter_args(%a = %p) -> (i8) {
    %e = func.call @ext(%i) : (index) -> i8
    %s = arith.muli %a, %e : i8
    scf.yield %s : i8
  }
  func.return %r : i8
}""", {}, {1000: (-2, 2), 1001: (-2, 4), 1002: (1, 3)}),
    "range_fold_add": ("""
func.func private @ext(index) -> i8
func.func @f(%lb: index, %ub: index, %p: i8) -> i8 {
  %st = arith.constant 1 : index
  %c = arith.constant 1000 : index
  %r = scf.for %i = %lb to %ub step %st iter_args(%a = %p) -> (i8) {
    %j = arith.addi %i, %c : index
    %e = func.call @ext(%j) : (index) -> i8
    %s = arith.addi %a, %e : i8
    scf.yield %s : i8
  }
  func.return %r : i8
}""", {"x0": (-2, 2), "x1": (-2, 3)}, {1000: (-3, 3)}),
    "range_fold_mul": ("""
func.func private @ext(index) -> i8
func.func @f(%lb: index, %ub: index, %p: i8) -> i8 {
  %st = arith.constant 1 : index
  %c = arith.constant 1000 : index
  %r = scf.for %i = %lb to %ub step %st iter_args(%a = %p) -> (i8) {
    %j = arith.muli %i, %c : index
    %e = func.call @ext(%j) : (index) -> i8
    %s = arith.addi %a, %e : i8
    scf.yield %s : i8
  }
  func.return %r : i8
}""", {"x0": (-2, 2), "x1": (-2, 3)}, {1000: (-2, 3)}),
    "range_fold_chain": ("""
func.func private @ext(index, index) -> i8
func.func @f(%lb: index, %ub: index, %p: i8) -> i8 {
  %st = arith.constant 1 : index
  %c = arith.constant 1000 : index
  %d = arith.constant 1001 : index
  %k = arith.constant 1002 : index
  %r = scf.for %i = %lb to %ub step %st iter_args(%a = %p) -> (i8) {
    %j = arith.addi %i, %c : index
    %m = arith.muli %j, %d : index
    %n = arith.addi %j, %k : index
    %e = func.call @ext(%m, %n) : (index, index) -> i8
    %s = arith.addi %a, %e : i8
    scf.yield %s : i8
  }
  func.return %r : i8
}""", {"x0": (-2, 2), "x1": (-2, 3)}, {1000: (1, 3), 1001: (1, 3), 1002: (1, 3)}),
    "range_fold_single_chain": ("""
func.func private @ext(index) -> i8
func.func @f(%lb: index, %ub: index, %p: i8) -> i8 {
  %st = arith.constant 1 : index
  %c = arith.constant 1000 : index
  %d = arith.constant 1001 : index
  %r = scf.for %i = %lb to %ub step %st iter_args(%a = %p) -> (i8) {
    %j = arith.addi %i, %c : index
    %m = arith.muli %j, %d : index
    %e = func.call @ext(%m) : (index) -> i8
    %s = arith.addi %a, %e : i8
    scf.yield %s : i8
  }
  func.return %r : i8
}""", {"x0": (-2, 2), "x1": (-2, 3)}, {1000: (1, 3), 1001: (1, 3)}),
    "flatten_unused_iv": ("""
func.func private @ext(i8) -> i8
func.func @f(%p: i8) -> i8 {
  %c0 = arith.constant 0 : index
  %ou = arith.constant 1000 : index
  %os = arith.constant 1001 : index
  %il = arith.constant 1002 : index
  %iu = arith.constant 1003 : index
  %is = arith.constant 1004 : index
  %r = scf.for %o = %c0 to %ou step %os iter_args(%a = %p) -> (i8) {
    %q = scf.for %i = %il to %iu step %is iter_args(%b = %a) -> (i8) {
      %e = func.call @ext(%b) : (i8) -> i8
      scf.yield %e : i8
    }
    scf.yield %q : i8
  }
  func.return %r : i8
}""", {}, {1000: (0, 3), 1001: (1, 2), 1002: (0, 1), 1003: (0, 3), 1004: (1, 2)}),
    "flatten_used_iv": ("""
func.func private @ext(index) -> i8
func.func @f(%n: index, %p: i8) -> i8 {
  %c0 = arith.constant 0 : index
  %os = arith.constant 1000 : index
  %iu = arith.constant 1001 : index
  %is = arith.constant 1002 : index
  %r = scf.for %o = %c0 to %n step %os iter_args(%a = %p) -> (i8) {
    %q = scf.for %i = %c0 to %iu step %is iter_args(%b = %a) -> (i8) {
      %k = arith.addi %o, %i : index
      %e = func.call @ext(%k) : (index) -> i8
      %s = arith.addi %b, %e : i8
      scf.yield %s : i8
    }
    scf.yield %q : i8
  }
  func.return %r : i8
}""", {"x0": (-1, 4)}, {1000: (1, 3), 1001: (1, 3), 1002: (1, 2)}),
    "licm_div": ("""
func.func private @ext(i8) -> i8
func.func @f(%lb: index, %ub: index, %x: i8, %d: i8) -> i8 {
  %st = arith.constant 1 : index
  %r = scf.for %i = %lb to %ub step %st iter_args(%a = %x) -> (i8) {
    %inv = arith.muli %x, %x : i8
    %q = arith.divsi %x, %d : i8
    %e = func.call @ext(%inv) : (i8) -> i8
    %s = arith.addi %a, %q : i8
    %t = arith.addi %s, %e : i8
    scf.yield %t : i8
  }
  func.return %r : i8
}""", {"x0": (-1, 2), "x1": (-1, 3)}, {}),
    "licm_nested_if": ("""
func.func private @ext(i8) -> i8
func.func @f(%ub: index, %x: i8, %d: i8, %c: i1) -> i8 {
  %c0 = arith.constant 0 : index
  %st = arith.constant 1 : index
  %r = scf.for %i = %c0 to %ub step %st iter_args(%a = %x) -> (i8) {
    %v = scf.if %c -> (i8) {
      %q = arith.remsi %x, %d : i8
      scf.yield %q : i8
    } else {
      %w = arith.xori %x, %d : i8
      scf.yield %w : i8
    }
    %s = arith.addi %a, %v : i8
    scf.yield %s : i8
  }
  func.return %r : i8
}""", {"x0": (-1, 3)}, {}),
    "hoist_if": ("""
func.func private @ext(i8) -> i8
func.func @f(%c: i1, %x: i8, %y: i8) -> i8 {
  %r = scf.if %c -> (i8) {
    %a = arith.addi %x, %y : i8
    %e = func.call @ext(%a) : (i8) -> i8
    scf.yield %e : i8
  } else {
    %b = arith.divsi %x, %y : i8
    scf.yield %b : i8
  }
  func.return %r : i8
}""", {}, {}),
}

PASS_FOR = {
    "convert-scf-to-cf": ["for_iter", "nested_for", "if_results", "while", "licm_div", "licm_nested_if", "hoist_if"],
    "scf-for-loop-unroll": ["unroll_swap", "unroll_rotate", "unroll_reduce", "flatten_unused_iv"],
    "convert-scf-to-cf ": ["unroll_rotate", "unroll_swap"],
    "scf-for-loop-range-folding": ["range_fold_add", "range_fold_mul", "range_fold_chain", "range_fold_single_chain", "for_iter"],
    "scf-for-loop-flatten": ["flatten_unused_iv", "flatten_used_iv", "nested_for"],
    "licm": ["licm_div", "licm_nested_if", "for_iter", "nested_for"],
    "control-flow-hoist": ["hoist_if", "if_results", "licm_nested_if"],
    "scf-for-loop-range-folding,scf-for-loop-unroll": ["unroll_reduce"],
    "licm,convert-scf-to-cf": ["licm_div"],
}


def obligations(tier):
    obs = []
    for p, progs in PASS_FOR.items():
        for name in progs:
            obs.append({"id": f"C16/{p}/{name}", "pass": p, "prog": name, "weight": 3})
    return obs


_CTX = None


def ctx():
    global _CTX
    if _CTX is None:
        _CTX = Context()
        for d in (builtin.Builtin, arith.Arith, func.Func, cf.Cf, scf.Scf, memref.MemRef, test.Test):
            _CTX.load_dialect(d)
    return _CTX


def apply(m, names):
    from xdsl.transforms import get_all_passes

    for n in names.split(","):
        get_all_passes()[n.strip()]()().apply(ctx(), m)


def inject(m, sym, ex, concrete):
    """replace marker constants (value 1000+N) by symbolic payloads (or the model's concrete value)"""
    for op in list(m.walk()):
        if isinstance(op, arith.ConstantOp) and isinstance(op.value, IntegerAttr):
            v = op.value.value.data
            if isinstance(v, int) and v in sym:
                lo, hi = sym[v]
                name = f"c{v}"
                payload = concrete.get(name, lo) if concrete is not None else SymInt.var(name, lo, hi)
                op.properties["value"] = IntegerAttr(payload, op.result.type)


def harness(ob, concrete=None):
    text, arg_ranges, sym = PROGRAMS[ob["prog"]]

    def h(ex):
        m = Parser(ctx(), "builtin.module {" + text + "}").parse_module()
        inject(m, sym, ex, concrete)
        m.verify()
        f = next(o for o in m.walk() if isinstance(o, func.FuncOp) and o.sym_name.data == "f")
        if concrete is None:
            args = tv.arg_terms(f)
            for i, a in enumerate(args):
                if f"x{i}" in arg_ranges:
                    lo, hi = arg_ranges[f"x{i}"]
                    ex.assume(z3.And(a >= lo, a <= hi))
        else:
            args = tv.concrete_args(f, concrete)
        K = ob.get("K", 3)
        try:
            before = tv.meaning(m, "f", args, loop_bound=K, fuel=400)
        except refprog.RefFuel:
            ex.assume(False)  # trip count above the bound: outside the claim
        apply(m, ob["pass"])
        try:
            m.verify()
        except VerifyException as e:
            raise tv.InvalidIR(f"pass output does not verify: {e}")
        try:
            after = tv.meaning(m, "f", args, loop_bound=4 * K + 4, fuel=2000)
        except refprog.RefFuel:
            # the source terminated within K trips but the result does not within 4K+4: divergence
            return z3.Not(before[1])
        except refprog.RefUnsupported as e:
            if "undefined value" in str(e) or "terminator" in str(e):
                raise tv.InvalidIR(str(e))
            raise
        return tv.refinement(before, after)

    return h


def run(ob, tier, stats, exclude):
    ob = dict(ob, K=3 if tier == "quick" else 5)
    return decide(harness(ob), timeout_ms=30000, budget_s=240 if tier == "quick" else 1200, stats=stats, exclude=exclude, ob=ob, max_paths=4000, fuel=3000)


def evidence_extra(tier, results):
    return {"programs": len(results), "disagreements_checked": sum(r["ok_paths"] for r in results)}


def replay(ob, inputs):
    from vx.symx import Explorer

    out = {"bad": 0, "paths": 0}
    ob = dict(ob, K=6)

    def h(ex):
        try:
            v = harness(ob, concrete=inputs)(ex)
        except tv.InvalidIR as e:
            out["bad"] += 1
            out["why"] = str(e)[:200]
            return True
        s = z3.Solver()
        s.add(*ex.pc)
        s.add(z3.Not(v) if z3.is_expr(v) else z3.BoolVal(not v))
        out["paths"] += 1
        if s.check() == z3.sat:
            out["bad"] += 1
        return True

    try:
        list(Explorer(max_paths=64).explore(h))
    except Exception as e:
        return {"violates": True, "observed": f"exception {type(e).__name__}: {str(e)[:300]}"}
    return {"violates": out["bad"] > 0, "detail": out}
