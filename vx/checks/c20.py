"""C20 - parallel-move lowering is a simultaneous assignment (M3: enumerated move graphs, symbolic register contents)."""
from __future__ import annotations

import itertools

import z3

from vx import rvsem
from vx.framework import decide
from vx.symx import Explorer

from xdsl.context import Context
from xdsl.dialects import builtin, riscv, test
from xdsl.parser import Parser
from xdsl.transforms.riscv_lower_parallel_mov import RISCVLowerParallelMovPass
from xdsl.utils.exceptions import PassFailedException

LEVEL = "translation_validation"
EXPLANATION = (
    "For every move graph of the family (all (source,destination) assignments with distinct destinations over the register "
    "pool, including chains, fan-out, cycles, several cycles, self-moves; every designated free-register choice; 32/64-bit "
    "widths per move) the real ParallelMovPattern lowers a riscv.parallel_mov; the emitted mv/fmv.s/fmv.d/xor sequence is "
    "executed on a RISC-V register-file model whose initial register contents are SYMBOLIC 64-bit vectors, and z3 decides that "
    "every destination holds its source's initial content (on the move's width) and that every register that is neither a "
    "destination nor a designated free register is unchanged, for all contents. PassFailedException is an accepted outcome."
)
FUNCTIONS = ["xdsl.transforms.riscv_lower_parallel_mov.ParallelMovPattern.match_and_rewrite/_insert_swap_ops/_insert_mv_op",
             "xdsl.backend.riscv.lowering.utils.move_ops_for_value", "xdsl.dialects.riscv.ParallelMovOp (verifier)"]
ASSUMPTIONS = ["RISC-V semantics of mv, xor, fmv.s (NaN-boxing: a single is the low 32 bits of a properly boxed register), fmv.d (vx/rvsem.py)",
               "32-bit float sources are properly NaN-boxed; a 32-bit move must preserve the low 32 bits, a 64-bit move all 64"]
OUTSIDE = ["register pools larger than the bound", "unallocated registers (the pass rejects them)"]
STUBS = []

INT_POOL = {"quick": ["a0", "a1", "a2"], "thorough": ["a0", "a1", "a2", "a3"]}
FLT_POOL = {"quick": ["fa0", "fa1"], "thorough": ["fa0", "fa1", "fa2"]}


def bounds(tier):
    return {"int_registers": INT_POOL[tier], "float_registers": FLT_POOL[tier], "free_register_choices": ["none", "t0", "ft0", "t0+ft0"], "widths": [32, 64],
            "mixed_graphs": "all int graphs over a0-a2 x all float graphs over fa0-fa1 with <= 4 (quick) / 5 (thorough) moves; thorough adds every int-only graph touching a3 and every float-only graph touching fa2"}


FREE_CHOICES = [(), ("t0",), ("ft0",), ("t0", "ft0")]


def graphs(pool):
    """all move lists with distinct destinations over the pool: list of (src, dst)"""
    out = []
    for k in range(len(pool) + 1):
        for dsts in itertools.combinations(pool, k):
            for srcs in itertools.product(pool, repeat=k):
                out.append(list(zip(srcs, dsts)))
    return out


def gid(g):
    return ",".join(f"{s}>{d}" for s, d in g) or "-"


def root_with_cycle(g):
    """a tree root (source of a non-self move that no non-self move writes) coexists with a cycle of length >= 2"""
    real = [(s, d) for s, d in g if s != d]
    dsts = {d for s, d in real}
    roots = {s for s, d in real if s not in dsts}
    src_of = {d: s for s, d in real}
    cyc = False
    for d in dsts:
        x, n = d, 0
        while x in src_of and n <= len(real):
            x = src_of[x]
            n += 1
            if x == d:
                cyc = True
                break
    return bool(roots) and cyc


def obligations(tier):
    obs = []

    def add(gi, gf):
        if not gi and not gf:
            return
        for fi, free in enumerate(FREE_CHOICES):
            kf = int((root_with_cycle(gi) and "t0" not in free) or (root_with_cycle(gf) and "ft0" not in free))
            obs.append({"id": f"C20/{gid(gi)}|{gid(gf)}/free={'+'.join(free) or 'none'}", "int": gi, "flt": gf, "free": list(free),
                        "kf_root_cycle": kf, "weight": len(gi) + len(gf)})

    ig = graphs(INT_POOL["quick"])
    fg = graphs(FLT_POOL["quick"])
    for gi in ig:
        for gf in fg:
            if len(gi) + len(gf) > (4 if tier == "quick" else 5):
                continue
            add(gi, gf)
    if tier == "thorough":
        for gi in graphs(INT_POOL["thorough"]):
            if len(gi) == 4 or any(s == "a3" or d == "a3" for s, d in gi):
                add(gi, [])
        for gf in graphs(FLT_POOL["thorough"]):
            if any(s == "fa2" or d == "fa2" for s, d in gf):
                add([], gf)
    seen = set()
    out = []
    for o in obs:
        if o["id"] not in seen:
            seen.add(o["id"])
            out.append(o)
    return out


_CTX = None


def ctx():
    global _CTX
    if _CTX is None:
        _CTX = Context()
        for d in (builtin.Builtin, riscv.RISCV, test.Test):
            _CTX.load_dialect(d)
    return _CTX


def rty(r):
    return f"!riscv.freg<{r}>" if r.startswith("f") else f"!riscv.reg<{r}>"


def build(moves, widths, free):
    """module text: sources produced by test.op (one value per distinct source register), parallel_mov, consumer"""
    srcs = []
    for s, d in moves:
        if s not in srcs:
            srcs.append(s)
    names = {s: f"%s{i}" for i, s in enumerate(srcs)}
    lines = ["builtin.module {"]
    if srcs:
        lines.append(f"  {', '.join(names[s] for s in srcs)} = \"test.op\"() : () -> ({', '.join(rty(s) for s in srcs)})")
    outs = [f"%o{i}" for i in range(len(moves))]
    fr = f" {{free_registers = [{', '.join(rty(r) for r in free)}]}}" if free else ""
    lines.append(f"  {', '.join(outs)} = riscv.parallel_mov {', '.join(names[s] for s, d in moves)} [{', '.join(str(w) for w in widths)}]{fr} : "
                 f"({', '.join(rty(s) for s, d in moves)}) -> ({', '.join(rty(d) for s, d in moves)})")
    lines.append(f"  \"test.op\"({', '.join(outs)}) : ({', '.join(rty(d) for s, d in moves)}) -> ()")
    lines.append("}")
    return "\n".join(lines)


def lower_and_execute(moves, widths, free):
    """returns (machine, result_values) or raises PassFailedException"""
    text = build(moves, widths, free)
    m = Parser(ctx(), text).parse_module()
    m.verify()
    RISCVLowerParallelMovPass().apply(ctx(), m)
    m.verify()
    mach = rvsem.Machine(64)
    # touch all involved registers first so that their initial contents are named
    for s, d in moves:
        (mach.rf if s.startswith("f") else mach.rx)(s)
        (mach.rf if d.startswith("f") else mach.rx)(d)
    for r in free:
        (mach.rf if r.startswith("f") else mach.rx)(r)
    consumer = None
    for op in m.body.block.ops:
        if op.name == "test.op":
            if op.operands:
                consumer = op
            continue
        if op.name == "riscv.parallel_mov":
            raise AssertionError("parallel_mov not lowered")
        rvsem.exec_op(mach, op)
    return mach, consumer, str(m)


def prop_for(moves, widths, free, mach, consumer):
    cs = []
    if consumer is None or len(consumer.operands) != len(moves):
        return z3.BoolVal(False)
    dests = set()
    for (s, d), w, v in zip(moves, widths, consumer.operands):
        # the value handed to later code must live in the destination register
        if rvsem.reg_name(v.type) != d:
            return z3.BoolVal(False)
        isf = d.startswith("f")
        init = (mach.init_f if isf else mach.init_x)[rvsem.canon(s)]
        final = (mach.f if isf else mach.x)[rvsem.canon(d)]
        if isf and w == 32:
            # source properly boxed (assumed); destination: low 32 bits equal and still boxed
            boxed = z3.Extract(63, 32, init) == 0xFFFFFFFF
            cs.append(z3.Implies(boxed, z3.And(z3.Extract(31, 0, final) == z3.Extract(31, 0, init), z3.Extract(63, 32, final) == 0xFFFFFFFF)))
        elif w == 32:
            cs.append(z3.Extract(31, 0, final) == z3.Extract(31, 0, init))
        else:
            cs.append(final == init)
        dests.add(rvsem.canon(d))
    allowed = dests | {rvsem.canon(r) for r in free}
    for name, init in mach.init_x.items():
        if name not in allowed:
            cs.append(mach.x[name] == init)
    for name, init in mach.init_f.items():
        if name not in allowed:
            cs.append(mach.f[name] == init)
    return z3.And(*cs) if cs else z3.BoolVal(True)


def run(ob, tier, stats, exclude):
    moves = [tuple(x) for x in ob["int"]] + [tuple(x) for x in ob["flt"]]
    nf = len(ob["flt"])

    def h(ex):
        free = tuple(ob["free"])
        ex.note("free", list(free))
        widths = [64] * len(ob["int"])
        if ob["int"] and ex.choose(2, "iw") == 1:
            widths = [32] * len(ob["int"])
        # one width per distinct source value (an SSA value has a single type)
        fsrc = {}
        for s_, d_ in ob["flt"]:
            if s_ not in fsrc:
                fsrc[s_] = 64 if ex.choose(2, "fw") == 0 else 32
        widths = widths + [fsrc[s_] for s_, d_ in ob["flt"]]
        ex.note("widths", widths)
        try:
            mach, consumer, text = lower_and_execute(moves, widths, free)
        except PassFailedException:
            ex.note("failed", True)
            return True
        # registers' initial contents are the symbolic inputs
        for n, v in list(mach.init_x.items()) + list(mach.init_f.items()):
            ex.named[n] = v
        return prop_for(moves, widths, free, mach, consumer)

    return decide(h, timeout_ms=20000, budget_s=120 if tier == "quick" else 600, stats=stats, exclude=exclude, ob=ob)


def evidence_extra(tier, results):
    return {"programs": sum(r["ok_paths"] for r in results), "disagreements_checked": sum(r["ok_paths"] for r in results),
            "move_graphs": len(results)}


def replay(ob, inputs):
    moves = [tuple(x) for x in ob["int"]] + [tuple(x) for x in ob["flt"]]
    notes = inputs.get("__notes__") or {}
    free = tuple(notes.get("free", ()))
    widths = notes.get("widths") or [64] * len(moves)
    try:
        mach, consumer, text = lower_and_execute(moves, widths, free)
    except PassFailedException as e:
        return {"violates": False, "observed": f"PassFailedException: {e}"}
    except Exception as e:
        return {"violates": True, "observed": f"exception {type(e).__name__}: {e}"}
    prop = prop_for(moves, widths, free, mach, consumer)
    subs = []
    for n, v in list(mach.init_x.items()) + list(mach.init_f.items()):
        subs.append((v, z3.BitVecVal(inputs.get(n, 0), v.size())))
    val = z3.simplify(z3.substitute(prop, *subs))
    return {"violates": z3.is_false(val), "lowered": text, "free": list(free), "widths": widths,
            "initial": {n: inputs.get(n, 0) for n in list(mach.init_x) + list(mach.init_f)}}
