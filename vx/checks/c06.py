"""C06 - builtin attributes and types round-trip through text with their payloads preserved bit for bit."""
from __future__ import annotations

import math
import struct

import z3

from vx import symstr
from vx.framework import decide
from vx.symstr import SymBytes, SymStr, SymStream
from vx.symx import SymBool, SymInt, sym_not

symstr.install()

from xdsl.context import Context  # noqa: E402
from xdsl.dialects import builtin  # noqa: E402
from xdsl.dialects.builtin import (ArrayAttr, BFloat16Type, BytesAttr, DenseArrayBase, DenseIntOrFPElementsAttr, DictionaryAttr, FileLineColLoc, Float16Type, Float32Type, Float64Type,  # noqa: E402
                                   FloatAttr, FunctionType, IndexType, IntAttr, IntegerAttr, IntegerType, MemRefType, Signedness, StringAttr, SymbolRefAttr, TensorType, TupleType,
                                   VectorType, i1, i8, i16, i32, i64)
from xdsl.ir import Attribute, Data, ParametrizedAttribute  # noqa: E402
from xdsl.parser import Parser  # noqa: E402
from xdsl.printer import Printer  # noqa: E402
from xdsl.utils.exceptions import ParseError, VerifyException  # noqa: E402
from xdsl.utils.mlir_lexer import MLIRTokenKind  # noqa: E402

LEVEL = "other"
EXPLANATION = (
    "A builtin attribute or type is built with SYMBOLIC payloads - text as bounded symbolic strings whose cells range over all "
    "of Unicode, bytes as symbolic bytes, integers as solver variables over the full range of their type, dense array / dense "
    "elements attributes from symbolic raw bytes (hence every element value), shapes and widths as solver variables - printed by "
    "the real Printer (print_string_literal/print_bytes_literal/print_int/print_builtin of each class), and the resulting symbolic "
    "text is lexed and parsed by the real MLIRLexer and Parser in a fresh context (regexes executed by a backtracking matcher "
    "over CPython's own pattern parse tree, escapes decoded by StringLiteral.bytes_contents over symbolic UTF-8, numbers by the "
    "int() grammar over symbolic digits). z3 decides for all payload values that the parse consumes the whole text and yields an "
    "attribute of the same class with identical payloads (dense data compared byte for byte). Floats: repr/format are C code, so "
    "finite floats are covered on an enumerated list of boundary values per float type (both zeros printed in one process, "
    "denormals, extremes, values that need 17 digits, NaN with payloads, infinities) with bit-pattern comparison."
)
FUNCTIONS = ["Printer.print_attribute / print_string_literal / print_bytes_literal / print_int / print_float / print_identifier_or_string_literal / print_symbol_name",
             "print_builtin of StringAttr, BytesAttr, IntAttr, IntegerAttr, FloatAttr, ArrayAttr, DictionaryAttr, SymbolRefAttr, FileLineColLoc, DenseArrayBase, DenseIntOrFPElementsAttr, IntegerType, TensorType, MemRefType, VectorType, FunctionType, TupleType",
             "MLIRLexer.lex and all its token regexes; StringLiteral.bytes_contents", "Parser.parse_attribute and the builtin attribute/type parsers of xdsl/parser/attribute_parser.py", "StructPackableType pack/unpack of integer element types"]
ASSUMPTIONS = ["vx/shim_re.py, vx/symstr.py (UTF-8 codec, int() grammar) and vx/shim_struct.py agree with CPython (validated by vx.selftest)", "string payloads are encodable text (no lone surrogates)"]
OUTSIDE = ["dictionary keys other than the enumerated list (the parser hashes keys)", "payload sizes beyond the bounds (strings/bytes of 2 cells, thorough 3; <= 2 dense elements; <= 2 dims)", "finite float values other than the enumerated list", "affine maps/sets (C26), opaque and dialect attributes, dense resources, complex element types",
           "hex-string form of dense attributes"]
STUBS = ["output stream: vx.symstr.SymStream instead of io.StringIO"]

TEXT_PARTITION = [(34, 34), (92, 92), (0, 31), (32, 33), (35, 91), (93, 126), (127, 127), (128, 0xD7FF), (0xE000, 0x10FFFF)]
IDENT_PARTITION = [(0, 47), (48, 57), (58, 64), (65, 90), (91, 96), (97, 122), (123, 127), (128, 0xD7FF), (0xE000, 0x10FFFF)]

F64_SPECIALS = [0.0, -0.0, 1.0, -1.5, 0.1, 1e-05, 1e22, 1e16, 123456789.125, 5e-324, 1.7976931348623157e308, 2.2250738585072014e-308, 0.30000000000000004, 1 / 3, 2.5e-07, 100.0, 6.02214076e23,
                float("inf"), float("-inf"), float("nan"), struct.unpack("<d", struct.pack("<Q", 0x7FF0000000000001))[0], struct.unpack("<d", struct.pack("<Q", 0xFFF8000000000123))[0]]
F32_SPECIALS = [0.0, -0.0, 1.0, -1.5, struct.unpack("<f", struct.pack("<f", 0.1))[0], 1.401298464324817e-45, 3.4028234663852886e38, 1.1754943508222875e-38, 16777216.0, 16777217.0 - 1, 1e-05 * 1.0,
                float("inf"), float("-inf"), float("nan"), struct.unpack("<f", struct.pack("<I", 0x7F800001))[0], struct.unpack("<f", struct.pack("<I", 0xFFC00123))[0]]
F16_SPECIALS = [0.0, -0.0, 1.0, -1.5, 65504.0, 6.103515625e-05, 5.960464477539063e-08, 0.0999755859375, float("inf"), float("-inf"), float("nan")]


DICT_KEYS = ["a", "a.b", "_x", "$", "1a", "a b", "", 'a"b', "\u00e9", "a-b", "true", "x\\y", "a\nb", "loc", "x$y.z_0", "\x7f"]


class Src:
    def __init__(self, ex, concrete):
        self.ex, self.c = ex, concrete

    def choose(self, name, n):
        if self.c is not None:
            return int(self.c.get(name, 0))
        v = self.ex.choose(n, name)
        self.ex.named[name] = v
        return v

    def text(self, name, n, partition=TEXT_PARTITION):
        if not n:
            return ""
        if self.c is not None:
            return "".join(chr(self.c.get(f"{name}{i}", 97)) for i in range(n))
        return SymStr.var_split(name, n, partition)

    def bytes(self, name, n, split=True):
        if self.c is not None:
            return bytes(self.c.get(f"{name}{i}", 0) & 255 for i in range(n))
        if not n:
            return b""
        if not split:
            return SymBytes.var(name, n)
        cells = []
        part = [(34, 34), (92, 92), (0, 31), (32, 33), (35, 91), (93, 126), (127, 255)]
        for i in range(n):
            k = self.ex.choose(len(part), f"{name}{i}__class")
            lo, hi = part[k]
            v = SymInt.var(f"{name}{i}", 0, 255)
            self.ex.assume(z3.And(v.e >= lo, v.e <= hi))
            cells.append(lo if lo == hi else SymInt(v.e, lo, hi))
        return symstr.normb(SymBytes(cells))

    def int(self, name, lo, hi):
        if self.c is not None:
            return int(self.c.get(name, lo if lo > 0 else 0))
        return SymInt.var(name, lo, hi)

    def flag(self, name):
        if self.ex is not None:
            self.ex.named[name] = 1


# ---- payload comparison (independent of Attribute.__eq__) ----------------------------------------------------------------
def band(a, b):
    if a is False or b is False:
        return False
    if a is True:
        return b
    if b is True:
        return a
    return a & b


def same(a, b):
    if isinstance(a, Attribute) or isinstance(b, Attribute):
        if type(a) is not type(b):
            return False
        if isinstance(a, ParametrizedAttribute):
            pa, pb = a.parameters, b.parameters
            if len(pa) != len(pb):
                return False
            r = True
            for x, y in zip(pa, pb):
                r = band(r, same(x, y))
                if r is False:
                    return False
            return r
        if isinstance(a, Data):
            return same(a.data, b.data)
        return a == b
    if isinstance(a, (str, SymStr)):
        return isinstance(b, (str, SymStr)) and (a == b)
    if isinstance(a, (bytes, SymBytes)):
        return isinstance(b, (bytes, SymBytes)) and (SymBytes.lift(a) == b if not isinstance(a, bytes) or not isinstance(b, bytes) else a == b)
    if isinstance(a, bool) or isinstance(b, bool):
        return isinstance(a, bool) and isinstance(b, bool) and a == b
    if isinstance(a, (int, SymInt)):
        return isinstance(b, (int, SymInt)) and (a == b)
    if isinstance(a, float):
        return isinstance(b, float) and (struct.pack("<d", a) == struct.pack("<d", b))
    if isinstance(a, (tuple, list)):
        if not isinstance(b, (tuple, list)) or len(a) != len(b):
            return False
        r = True
        for x, y in zip(a, b):
            r = band(r, same(x, y))
            if r is False:
                return False
        return r
    if hasattr(a, "items") and hasattr(b, "items"):
        ia, ib = list(a.items()), list(b.items())
        if len(ia) != len(ib):
            return False
        r = True
        for (k1, v1), (k2, v2) in zip(ia, ib):
            r = band(band(r, same(k1, k2)), same(v1, v2))
            if r is False:
                return False
        return r
    return a == b


def roundtrip(ex, a, as_type=False):
    st = SymStream()
    Printer(stream=st).print_attribute(a)
    text = st.getvalue()
    if ex is not None:
        ex.note("text", repr(text)[:100])
    ctx = Context()
    ctx.load_dialect(builtin.Builtin)
    try:
        p = Parser(ctx, text)
        b = p.parse_attribute()
        if p._current_token.kind is not MLIRTokenKind.EOF:
            return {"prop": False, "detail": "the parser stops before the end of the printed text"}
    except (ParseError, VerifyException) as e:
        return {"prop": False, "detail": f"printed text does not parse: {type(e).__name__}"}
    r = same(a, b)
    if r is False:
        return {"prop": False, "detail": f"parsed back as {type(b).__name__} with a different payload"}
    return r


def int_range(t):
    if isinstance(t, IndexType):
        return -(1 << 63), (1 << 63) - 1
    w = t.width.data
    sg = t.signedness.data
    if sg == Signedness.SIGNED:
        return -(1 << (w - 1)), (1 << (w - 1)) - 1
    if sg == Signedness.UNSIGNED:
        return 0, (1 << w) - 1
    return -(1 << (w - 1)), (1 << (w - 1)) - 1  # the constructor normalises signless values to this range


INT_TYPES = {"i1": i1, "i8": i8, "i16": i16, "i32": i32, "i64": i64, "si8": IntegerType(8, Signedness.SIGNED), "ui8": IntegerType(8, Signedness.UNSIGNED), "ui64": IntegerType(64, Signedness.UNSIGNED),
             "si64": IntegerType(64, Signedness.SIGNED), "index": IndexType(), "i128": IntegerType(128), "i3": IntegerType(3)}
ELT_TYPES = {"i8": i8, "i16": i16, "i32": i32, "i64": i64, "i1": i1, "ui8": IntegerType(8, Signedness.UNSIGNED), "si32": IntegerType(32, Signedness.SIGNED), "index": IndexType()}


def elt_bytes(src, t, name, count):
    """raw element bytes as the constructors produce them: every pattern for i8..i64/index, 0x00/0xFF for i1"""
    d = src.bytes(name, count * t.compile_time_size, split=False)
    if isinstance(t, IntegerType) and t.width.data == 1 and src.c is None:
        for b in SymBytes.lift(d).bs:
            if not isinstance(b, int):
                src.ex.assume(z3.Or(b.e == 0, b.e == 255))
    return d
FLOAT_TYPES = {"f16": (Float16Type(), F16_SPECIALS), "bf16": (BFloat16Type(), F16_SPECIALS[:5] + [float("inf"), float("-inf"), float("nan"), 3.3895313892515355e38]), "f32": (Float32Type(), F32_SPECIALS),
               "f64": (Float64Type(), F64_SPECIALS)}


def mk_int_attr(v, t):
    a = IntegerAttr.__new__(IntegerAttr)
    object.__setattr__(a, "value", IntAttr(v))
    object.__setattr__(a, "type", t)
    return a


def build(ob, src):
    k = ob["family"]
    n = ob.get("n", 1)
    if k == "str":
        s = src.text("s", n)
        if isinstance(s, SymStr) or any(ord(c) > 127 for c in s):
            pass
        return StringAttr(s)
    if k == "bytes":
        return BytesAttr(src.bytes("b", n))
    if k == "intattr":
        return IntAttr(src.int("v", -(1 << 70), 1 << 70))
    if k == "int":
        t = INT_TYPES[ob["type"]]
        lo, hi = int_range(t)
        return mk_int_attr(src.int("v", lo, hi), t)
    if k == "array":
        t = ELT_TYPES[ob["type"]]
        return DenseArrayBase(t, BytesAttr(elt_bytes(src, t, "d", n)))
    if k == "dense":
        t = ELT_TYPES[ob["type"]]
        shape = ob["shape"]
        ty = (VectorType if ob.get("vector") else TensorType)(t, shape)
        if ob.get("splat"):
            one = elt_bytes(src, t, "d", 1)
            data = one
            for _ in range(math.prod(shape) - 1):
                data = data + one
        else:
            data = elt_bytes(src, t, "d", math.prod(shape))
        return DenseIntOrFPElementsAttr(ty, BytesAttr(data))
    if k == "dictkey":
        # dictionary keys are hashed by the parser (duplicate detection): enumerated boundary keys, symbolic value
        key = DICT_KEYS[src.choose("key", len(DICT_KEYS))]
        if any(ord(c) > 127 for c in key):
            src.flag("kf_non_ascii_string")
        return DictionaryAttr({key: IntAttr(src.int("v", -999, 999)), "z": StringAttr(src.text("s", 1))})
    if k == "symref":
        root = src.text("r", n, IDENT_PARTITION)
        nested = [StringAttr(src.text("m", 1, IDENT_PARTITION))] if ob.get("nested") else []
        return SymbolRefAttr(StringAttr(root), ArrayAttr(nested))
    if k == "loc":
        return FileLineColLoc(StringAttr(src.text("f", n)), IntAttr(src.int("line", 0, 99999)), IntAttr(src.int("col", 0, 999)))
    if k == "array_attr":
        return ArrayAttr([IntAttr(src.int("v", -99999, 99999)), StringAttr(src.text("s", 1)), mk_int_attr(src.int("w", -128, 127), i8)])
    if k == "inttype":
        sg = [Signedness.SIGNLESS, Signedness.SIGNED, Signedness.UNSIGNED][src.choose("sign", 3)]
        return IntegerType(IntAttr(src.int("w", 1, (1 << 24) - 1)), sg)
    if k == "shaped":
        dims = []
        for i in range(n):
            if ob["skind"] != "vector" and src.choose(f"dyn{i}", 2):
                dims.append(builtin.DYNAMIC_INDEX)
            else:
                dims.append(src.int(f"d{i}", 1 if ob["skind"] == "vector" else 0, 99999))
        ctor = {"tensor": TensorType, "memref": MemRefType, "vector": VectorType}[ob["skind"]]
        return ctor(i32, [IntAttr(d) for d in dims])
    if k == "strided":
        from xdsl.dialects.builtin import NoneAttr, StridedLayoutAttr

        def int_or_dyn(tag, lo, hi):
            return NoneAttr() if src.choose(tag + "_dyn", 2) else IntAttr(src.int(tag, lo, hi))

        lay = StridedLayoutAttr(ArrayAttr([int_or_dyn(f"s{i}", -99, 9999) for i in range(n)]), int_or_dyn("off", -99, 99999))
        return MemRefType(i32, [2] * n, lay) if ob.get("in_memref") else lay
    if k == "shaped_extra":
        from xdsl.dialects.builtin import BoolAttr, NoneAttr, UnrankedMemRefType, UnrankedTensorType

        which = ob["which"]
        if which == "vector_scalable":
            flags = [bool(src.choose(f"sc{i}", 2)) for i in range(2)]
            return VectorType(i32, [IntAttr(src.int("d0", 1, 999)), IntAttr(src.int("d1", 1, 999))], ArrayAttr([BoolAttr(f, i1) for f in flags]))
        if which == "memref_space":
            return MemRefType(i32, [IntAttr(src.int("d0", 0, 999))], NoneAttr(), mk_int_attr(src.int("ms", -(1 << 63), (1 << 63) - 1), i64))
        if which == "tensor_encoding":
            return TensorType(i32, [IntAttr(src.int("d0", 0, 999))], StringAttr(src.text("e", 1)))
        if which == "unranked_tensor":
            return UnrankedTensorType(IntegerType(IntAttr(src.int("w", 1, 4096))))
        if which == "unranked_memref":
            return UnrankedMemRefType.from_type(IntegerType(IntAttr(src.int("w", 1, 4096))))
        if which == "complex":
            from xdsl.dialects.builtin import ComplexType

            return ComplexType(IntegerType(IntAttr(src.int("w", 1, 4096))))
        raise AssertionError(which)
    if k == "functype":
        return FunctionType.from_lists([IntegerType(IntAttr(src.int("w0", 1, 4096))), IndexType()], [IntegerType(IntAttr(src.int("w1", 1, 4096)))] if src.choose("res", 2) else [])
    if k == "tupletype":
        return TupleType([IntegerType(IntAttr(src.int("w0", 1, 4096))), TupleType([]), IntegerType(IntAttr(src.int("w1", 1, 4096)), Signedness.UNSIGNED)])
    raise AssertionError(k)


def h_sym(ob, concrete=None):
    def h(ex):
        symstr.RENDER_INTS[0] = True
        symstr.SYM_BYTEARRAY[0] = True
        symstr.SYM_DICT[0] = False
        symstr.HAVOC_FLOAT[0] = False
        src = Src(ex, concrete)
        a = build(ob, src)
        # known-finding flags (payload classes the text format cannot tell apart)
        texts = {"str": lambda: [a.data], "loc": lambda: [a.filename.data], "array_attr": lambda: [a.data[1].data], "dictkey": lambda: [a.data["z"].data], "shaped_extra": lambda: [a.encoding.data] if ob.get("which") == "tensor_encoding" else [],
                 "symref": lambda: [a.root_reference.data] + [x.data for x in a.nested_references.data]}.get(ob["family"], lambda: [])()
        for s_ in texts:
            for c in (SymStr.lift(s_).cps if s_ != "" else ()):
                if (c > 127) if isinstance(c, int) else bool(c > 127):
                    src.flag("kf_non_ascii_string")
        if ob["family"] == "bytes":
            allascii = True
            for c in SymBytes.lift(a.data).bs:
                if not ((c < 128) if isinstance(c, int) else bool(c < 128)):
                    allascii = False
            if allascii:
                src.flag("kf_ascii_bytes")
        return roundtrip(ex, a)

    return h


def bits_of(f, ty):
    return ty.pack([f])


def h_float(ob, concrete=None):
    def h(ex):
        ty, specials = FLOAT_TYPES[ob["type"]]
        results = []
        order = specials if not ob.get("reverse") else list(reversed(specials))
        for f in order:
            if ob["form"] == "attr":
                a = FloatAttr(f, ty)
            elif ob["form"] == "array":
                a = DenseArrayBase.from_list(ty, [f, f])
            else:
                a = DenseIntOrFPElementsAttr.from_list(TensorType(ty, [2]), [f, 1.0])
            st = SymStream()
            Printer(stream=st).print_attribute(a)
            text = st.getvalue()
            ctx = Context()
            ctx.load_dialect(builtin.Builtin)
            try:
                b = Parser(ctx, text).parse_attribute()
            except (ParseError, VerifyException) as e:
                return {"prop": False, "detail": f"{text!r} does not parse: {type(e).__name__}"}
            if type(a) is not type(b):
                return {"prop": False, "detail": f"{text!r} parses as {type(b).__name__}"}
            if ob["form"] == "attr":
                pa, pb = bits_of(a.value.data, ty), bits_of(b.value.data, ty)
                ok = pa == pb and a.type == b.type
            else:
                pa, pb = a.data.data, b.data.data
                ok = pa == pb
            if not ok:
                return {"prop": False, "detail": f"float payload bits changed through text {text!r}: {pa.hex()} -> {pb.hex()}"}
        return True

    return h


def bounds(tier):
    return {"text_cells": "StringAttr 3 (thorough 4), other strings 2 (thorough 3)", "bytes": 2 if tier == "quick" else 3, "integer_types": sorted(INT_TYPES), "dense_element_types": sorted(ELT_TYPES), "dense_elements": "1-2 (symbolic raw bytes)",
            "float_values": {k: len(v[1]) for k, v in FLOAT_TYPES.items()}, "shape_dims": "0-2, each symbolic in [0,99999] or dynamic", "integer_type_width": "[1, 2^24)"}


def obligations(tier):
    N = 2 if tier == "quick" else 3
    obs = []
    for n in range(0, 3 + 1 if tier == "quick" else 4 + 1):
        obs.append({"id": f"C06/str/{n}", "kind": "sym", "family": "str", "n": n, "weight": 1 + 4 * n, "budget_s": 600})
    for n in range(0, N + 1):
        obs.append({"id": f"C06/bytes/{n}", "kind": "sym", "family": "bytes", "n": n, "weight": 1 + 4 * n})
    obs.append({"id": "C06/intattr", "kind": "sym", "family": "intattr", "weight": 3})
    for t in INT_TYPES:
        if t == "i128" and tier == "quick":
            continue
        obs.append({"id": f"C06/int/{t}", "kind": "sym", "family": "int", "type": t, "weight": 3, "budget_s": 900 if t == "i128" else 200})
    for t in ELT_TYPES:
        if t == "index":
            continue  # not a dense array element type
        for n in ((0, 1, 2) if t in ("i8", "i1", "ui8", "i16") or tier != "quick" else (0, 1)):
            obs.append({"id": f"C06/array/{t}/{n}", "kind": "sym", "family": "array", "type": t, "n": n, "weight": 2 + 3 * n})
    for t in ELT_TYPES:
        shapes = [([1], False, False), ([2], False, False), ([4], True, False), ([1, 2], False, False), ([2], False, True)]
        if tier == "quick" and t not in ("i8", "i1", "i32"):
            shapes = shapes[:1] + shapes[2:3]
        for shape, splat, vec in shapes:
            if vec and t == "index":
                continue
            obs.append({"id": f"C06/dense/{t}/{'x'.join(map(str, shape))}{'splat' if splat else ''}{'vec' if vec else ''}", "kind": "sym", "family": "dense", "type": t, "shape": shape, "splat": splat, "vector": vec, "weight": 4})
    obs.append({"id": "C06/dictkey", "kind": "sym", "family": "dictkey", "weight": 6})
    for n in range(1, N + 1):
        obs.append({"id": f"C06/symref/{n}", "kind": "sym", "family": "symref", "n": n, "weight": 1 + 4 * n})
    obs.append({"id": "C06/symref/nested", "kind": "sym", "family": "symref", "n": 1, "nested": True, "weight": 5})
    obs.append({"id": "C06/loc/1", "kind": "sym", "family": "loc", "n": 1, "weight": 5})
    obs.append({"id": "C06/array_attr", "kind": "sym", "family": "array_attr", "weight": 5})
    obs.append({"id": "C06/inttype", "kind": "sym", "family": "inttype", "weight": 3})
    for kind in ("tensor", "memref", "vector"):
        for n in ((1, 2) if kind != "tensor" else (0, 1, 2)):
            obs.append({"id": f"C06/shaped/{kind}/{n}", "kind": "sym", "family": "shaped", "skind": kind, "n": n, "weight": 3})
    for n in (0, 1, 2):
        obs.append({"id": f"C06/strided/{n}", "kind": "sym", "family": "strided", "n": n, "weight": 4})
        if n:
            obs.append({"id": f"C06/strided/{n}/memref", "kind": "sym", "family": "strided", "n": n, "in_memref": True, "weight": 4})
    for which in ("vector_scalable", "memref_space", "tensor_encoding", "unranked_tensor", "unranked_memref", "complex"):
        obs.append({"id": f"C06/shaped_extra/{which}", "kind": "sym", "family": "shaped_extra", "which": which, "weight": 3})
    obs.append({"id": "C06/functype", "kind": "sym", "family": "functype", "weight": 3})
    obs.append({"id": "C06/tupletype", "kind": "sym", "family": "tupletype", "weight": 3})
    for t in FLOAT_TYPES:
        for form in ("attr", "array", "dense"):
            if form != "attr" and t in ("f16", "bf16") and tier == "quick":
                continue
            obs.append({"id": f"C06/float/{t}/{form}", "kind": "float", "type": t, "form": form, "weight": 2})
            obs.append({"id": f"C06/float/{t}/{form}/reverse", "kind": "float", "type": t, "form": form, "reverse": True, "weight": 2})
    return obs


HARNESS = {"sym": h_sym, "float": h_float}


def run(ob, tier, stats, exclude):
    return decide(HARNESS[ob["kind"]](ob), timeout_ms=30000, budget_s=400, stats=stats, exclude=exclude, ob=ob, max_paths=60000, fuel=400000)


def replay(ob, inputs):
    try:
        v = HARNESS[ob["kind"]](ob, concrete=inputs)(None)
    except Exception as e:
        return {"violates": True, "observed": f"exception {type(e).__name__}: {str(e)[:300]}"}
    if isinstance(v, dict):
        return {"violates": not v["prop"], "observed": v["detail"]}
    return {"violates": not bool(v), "observed": "payload differs after the round trip" if not v else "agrees"}
