"""C03 - structural equivalence holds exactly for isomorphic IR (symbolic single-point differences)."""
from __future__ import annotations

import z3

from vx import symheap
from vx.framework import decide
from vx.symheap import U, SymRef, as_id
from vx.symx import SymBool, SymInt, as_z3_bool

from xdsl.dialects import test
from xdsl.dialects.builtin import IntAttr, IntegerAttr, IntegerType, ModuleOp, i32, i64
from xdsl.ir import Block, Operation, Region, SSAValue, Use
from xdsl.ir.core import SSAValues
from xdsl.transforms.common_subexpression_elimination import OperationInfo

symheap.REF_CLASSES[:] = [Operation, Block, Region, SSAValue, Use]
LEVEL = "other"
EXPLANATION = (
    "A is a concrete IR skeleton; B is the same skeleton in which every comparable point is SYMBOLIC: result-type and "
    "block-argument-type widths, attribute and property payloads (bit-vectors), each operand slot and each successor slot "
    "(symbolic references over B's values/blocks and an outside value). The real is_structurally_equivalent of Operation/"
    "Block/Region runs on (A, B) and z3 decides 'reported equivalent <=> every point coincides with A's under the positional "
    "correspondence', symmetry, reflexivity (also for attached ops, forward references and graph regions) and equivalence "
    "with clones, for all payloads and wirings."
)
FUNCTIONS = ["Operation.is_structurally_equivalent", "Block.is_structurally_equivalent", "Region.is_structurally_equivalent",
             "OperationInfo.__eq__ (region equivalence)", "Operation.clone / Region.clone (as producer of isomorphic IR)"]
ASSUMPTIONS = ["the only candidate correspondence is positional (same op/block/argument/result positions)", "z3 QF_BV"]
OUTSIDE = ["equivalence up to block reordering", "skeletons larger than the bound (3 ops, 2 blocks, one nested region)", "ModulePass.schedule_space"]
STUBS = []

SK = ["flat", "nested", "cfg", "forward", "graph"]


def bounds(tier):
    return {"skeletons": SK, "ops": 3, "blocks": 2, "nested_regions": 1, "type_widths": "1..64", "payloads": "8-bit"}


def obligations(tier):
    obs = []
    for sk in SK:
        levels = ["region"] + (["block"] if sk in ("flat", "nested", "graph") else [])
        for level in levels:
            obs.append({"id": f"C03/eq_iff/{sk}/{level}", "kind": "eq_iff", "sk": sk, "level": level, "weight": 3})
            obs.append({"id": f"C03/sym/{sk}/{level}", "kind": "sym", "sk": sk, "level": level, "weight": 3})
        for level in ("region", "block", "op", "op_detached"):
            obs.append({"id": f"C03/refl/{sk}/{level}", "kind": "refl", "sk": sk, "level": level})
        for level in ("region", "op"):
            obs.append({"id": f"C03/clone/{sk}/{level}", "kind": "clone", "sk": sk, "level": level})
    for sk in SK:
        for var in VARIANTS:
            obs.append({"id": f"C03/variant/{sk}/{var}", "kind": "variant", "sk": sk, "var": var})
    for k in ("eq_iff", "sym"):
        obs.append({"id": f"C03/{k}/single_op/op", "kind": k, "sk": "single_op", "level": "op", "weight": 2})
    obs.append({"id": "C03/opinfo/single_op", "kind": "opinfo", "sk": "single_op", "weight": 2})
    return obs


VARIANTS = ["extra_op_end", "drop_last_op", "extra_block", "drop_block_arg", "extra_block_arg", "op_name", "extra_attr", "extra_result", "extra_region"]


def apply_variant(region, var, P):
    """single structural (non-payload) mutation of B; returns False if not applicable to this skeleton"""
    b0 = region.blocks.first
    last_block = region.blocks.last
    if var == "extra_op_end":
        last_block.add_op(test.TestOp(result_types=[IntegerType(P.width("extra.width", 32))]))
    elif var == "drop_last_op":
        op = last_block.last_op
        if any(True for r in op.results for _ in r.uses):
            return False
        last_block.erase_op(op, safe_erase=False)
    elif var == "extra_block":
        region.add_block(Block())
    elif var == "drop_block_arg":
        a = b0.args[0]
        b0.erase_arg(a, safe_erase=False)
    elif var == "extra_block_arg":
        b0.insert_arg(i64, len(b0.args))
    elif var == "op_name":
        op = b0.first_op
        new = test.TestPureOp(operands=list(op.operands), result_types=[r.type for r in op.results], attributes=dict(op.attributes), properties=dict(op.properties))
        from xdsl.rewriter import Rewriter

        Rewriter.replace_op(op, new)
    elif var == "extra_attr":
        b0.first_op.attributes["zz"] = IntAttr(P.payload("zz", 0))
    elif var == "extra_result":
        op = b0.first_op
        new = test.TestOp(operands=list(op.operands), result_types=[r.type for r in op.results] + [i64], attributes=dict(op.attributes), properties=dict(op.properties))
        from xdsl.rewriter import Rewriter

        Rewriter.replace_op(op, new, new_results=new.results[: len(op.results)])
    elif var == "extra_region":
        op = b0.first_op
        new = test.TestOp(operands=list(op.operands), result_types=[r.type for r in op.results], attributes=dict(op.attributes), properties=dict(op.properties), regions=[Region()])
        from xdsl.rewriter import Rewriter

        Rewriter.replace_op(op, new)
    return True


class Params:
    """comparable points of a skeleton: concrete defaults for A, symbolic for B"""

    def __init__(self, sym, prefix="B", small=False):
        self.sym = sym
        self.prefix = prefix
        self.small = small
        self.terms = []  # (z3 Bool: this point equals A's)

    def width(self, name, default):
        if not self.sym:
            return default
        w = SymInt.var(f"{self.prefix}.{name}", *((default - 2, default + 2) if self.small else (1, 64)))
        self.terms.append(as_z3_bool(w == default))
        return w

    def payload(self, name, default):
        if not self.sym:
            return default
        v = SymInt.var(f"{self.prefix}.{name}", *((-6, 6) if self.small else (-128, 127)))
        self.terms.append(as_z3_bool(v == default))
        return v


def build(sk, P: Params, outside):
    """returns (region, dict of named parts, slots) ; slots: list of (op, kind, index, expected-position-key)"""
    slots = []
    if sk == "single_op":
        ib = Block(arg_types=[IntegerType(P.width("inner_arg.width", 16))])
        inner = test.TestOp(operands=[outside, ib.args[0]], result_types=[IntegerType(P.width("inner_res.width", 8))], attributes={"k": IntAttr(P.payload("inner_attr", 2))})
        ib.add_op(inner)
        op = test.TestOp(operands=[outside], result_types=[IntegerType(P.width("res.width", 32))], attributes={"a": IntAttr(P.payload("attr", 3))},
                         properties={"prop1": IntegerAttr(P.payload("prop", 5), i64)}, regions=[Region([ib])])
        holder = Block([op])
        region = Region([holder])
        slots = [(inner, "operand", 0, "outside"), (inner, "operand", 1, "inner_arg")]
        return region, {"outside": outside, "inner_arg": ib.args[0], "inner_res": inner.results[0]}, {"ib": ib}, slots
    t0 = IntegerType(P.width("res0.width", 32))
    a0 = IntegerType(P.width("arg0.width", 32))
    b0 = Block(arg_types=[a0])
    op0 = test.TestOp(operands=[b0.args[0]], result_types=[t0], attributes={"a": IntAttr(P.payload("attr", 3))},
                      properties={"prop1": IntegerAttr(P.payload("prop", 5), i64)})
    vals = {"arg0": b0.args[0], "r0": op0.results[0], "outside": outside}
    blocks = {"b0": b0}
    ops = [op0]
    slots.append((op0, "operand", 0, "arg0"))
    if sk == "flat":
        op1 = test.TestOp(operands=[op0.results[0], outside], result_types=[IntegerType(8)])
        slots += [(op1, "operand", 0, "r0"), (op1, "operand", 1, "outside")]
        ops.append(op1)
        b0.add_ops(ops)
        region = Region([b0])
    elif sk == "nested":
        inner = test.TestOp(operands=[op0.results[0]], result_types=[i32])
        slots.append((inner, "operand", 0, "r0"))
        ib = Block([inner], arg_types=[IntegerType(P.width("inner_arg.width", 16))])
        vals["inner_arg"] = ib.args[0]
        op1 = test.TestOp(operands=[op0.results[0], b0.args[0]], result_types=[IntegerType(8)], regions=[Region([ib])])
        slots += [(op1, "operand", 0, "r0"), (op1, "operand", 1, "arg0")]
        ops.append(op1)
        b0.add_ops(ops)
        region = Region([b0])
    elif sk == "cfg":
        b1 = Block(arg_types=[IntegerType(P.width("arg1.width", 64))])
        blocks["b1"] = b1
        vals["arg1"] = b1.args[0]
        term = test.TestTermOp(operands=[op0.results[0]], successors=[b1])
        slots += [(term, "operand", 0, "r0"), (term, "succ", 0, "b1")]
        op3 = test.TestOp(operands=[b1.args[0], op0.results[0]], result_types=[i32])
        slots += [(op3, "operand", 0, "arg1"), (op3, "operand", 1, "r0")]
        t2 = test.TestTermOp(operands=[op3.results[0]], successors=[b0])
        vals["r3"] = op3.results[0]
        slots += [(t2, "operand", 0, "r3"), (t2, "succ", 0, "b0")]
        b0.add_ops([op0, term])
        b1.add_ops([op3, t2])
        region = Region([b0, b1])
    elif sk == "forward":
        # block 0 uses a value defined later in block 1 (legal in non-dominating graph-like IR / during construction)
        b1 = Block(arg_types=[])
        blocks["b1"] = b1
        late = test.TestOp(result_types=[IntegerType(P.width("late.width", 32))])
        vals["late"] = late.results[0]
        user = test.TestOp(operands=[late.results[0], op0.results[0]], result_types=[i32])
        slots += [(user, "operand", 0, "late"), (user, "operand", 1, "r0")]
        term = test.TestTermOp(successors=[b1])
        slots.append((term, "succ", 0, "b1"))
        b0.add_ops([op0, user, term])
        b1.add_ops([late, test.TestTermOp()])
        region = Region([b0, b1])
    elif sk == "graph":
        # single-block graph region: two ops using each other's results
        x = test.TestOp(operands=[op0.results[0]], result_types=[i32])
        y = test.TestOp(operands=[x.results[0]], result_types=[i32])
        vals["x"], vals["y"] = x.results[0], y.results[0]
        x.operands = [y.results[0]]
        slots += [(x, "operand", 0, "y"), (y, "operand", 0, "x")]
        b0.add_ops([op0, x, y])
        region = Region([b0])
    else:
        raise KeyError(sk)
    return region, vals, blocks, slots


def symbolize_slots(P, vals, blocks, slots, Avals, Ablocks):
    """replace B's operand/successor slots by symbolic references; record 'slot selects the corresponding object'"""
    for v in vals.values():
        U.add(v)
    for b in blocks.values():
        U.add(b)
    vlist = list(vals.values())
    blist = list(blocks.values())
    for n, (op, kind, idx, key) in enumerate(slots):
        if kind == "operand":
            r = SymRef.var(f"B.slot{n}.{key}", vlist, allow_none=False)
            expected = vals[key]
            new = list(op._operands)
            new[idx] = r
            # keep the use lists consistent is irrelevant for the comparison; write the tuple directly
            op._operands = SSAValues(tuple(new))
        else:
            r = SymRef.var(f"B.slot{n}.{key}", blist, allow_none=False)
            expected = blocks[key]
            new = list(op._successors)
            new[idx] = r
            op._successors = tuple(new)
        P.terms.append(as_id(r) == as_id(expected))


def pick(region, level):
    if level == "op" and len(region.blocks.first.ops) == 1:
        return region.blocks.first.first_op
    if level == "region":
        return region
    b = region.blocks.first
    if level == "block":
        return b
    ops = list(b.ops)
    return ops[1] if len(ops) > 1 else ops[0]


def run(ob, tier, stats, exclude):
    kind, sk = ob["kind"], ob["sk"]

    def h(ex):
        U.reset()
        outside = test.TestOp(result_types=[i32]).results[0]
        U.add(outside)
        if kind in ("eq_iff", "sym"):
            A, Av, Ab, As = build(sk, Params(False), outside)
            P = Params(True)
            B, Bv, Bb, Bs = build(sk, P, outside)
            symbolize_slots(P, Bv, Bb, Bs, Av, Ab)
            level = ob["level"]
            x, y = pick(A, level), pick(B, level)
            if level == "op":
                # an op-level comparison does not see the enclosing block's arguments: only the op's own points count
                pass
            r1 = x.is_structurally_equivalent(y)
            if kind == "sym":
                r2 = y.is_structurally_equivalent(x)
                return as_z3_bool(r1) == as_z3_bool(r2)
            relevant = relevant_terms(sk, level, P)
            return as_z3_bool(r1) == z3.And(*relevant)
        if kind == "variant":
            A, Av, Ab, As = build(sk, Params(False), outside)
            # B equals A in every payload (symbolic payloads constrained equal would be vacuous): concrete copy + one structural change
            P = Params(True)
            B, Bv, Bb, Bs = build(sk, P, outside)
            ex.assume(z3.And(*P.terms))
            if not apply_variant(B, ob["var"], P):
                return True
            return z3.And(z3.Not(as_z3_bool(A.is_structurally_equivalent(B))), z3.Not(as_z3_bool(B.is_structurally_equivalent(A))))
        if kind == "refl":
            P = Params(True, "X")
            X, Xv, Xb, Xs = build(sk, P, outside)
            level = ob["level"]
            if level == "op_detached":
                op = pick(X, "op")
                if sk in ("cfg", "forward", "graph") and False:
                    pass
                op2 = test.TestOp(operands=[outside], result_types=[IntegerType(P.width("det.width", 7))], attributes={"a": IntAttr(P.payload("det.attr", 1))})
                return as_z3_bool(op2.is_structurally_equivalent(op2))
            x = pick(X, level)
            return as_z3_bool(x.is_structurally_equivalent(x))
        if kind == "clone":
            P = Params(True, "X")
            X, Xv, Xb, Xs = build(sk, P, outside)
            if ob["level"] == "region":
                return z3.And(as_z3_bool(X.is_structurally_equivalent(X.clone())), as_z3_bool(X.clone().is_structurally_equivalent(X)))
            m = ModuleOp(X)
            return z3.And(as_z3_bool(m.is_structurally_equivalent(m.clone())), as_z3_bool(m.clone().is_structurally_equivalent(m)))
        if kind == "opinfo":
            A, Av, Ab, As = build(sk, Params(False), outside)
            P = Params(True, small=True)  # OperationInfo hashes attributes: C-level hash() must concretise the payloads
            B, Bv, Bb, Bs = build(sk, P, outside)
            symbolize_slots(P, Bv, Bb, Bs, Av, Ab)
            opa, opb = pick(A, "op"), pick(B, "op")
            r = OperationInfo(opa) == OperationInfo(opb)
            return as_z3_bool(r) == z3.And(*P.terms)
        raise KeyError(kind)

    return decide(h, timeout_ms=20000, budget_s=150 if tier == "quick" else 900, stats=stats, exclude=exclude, ob=ob, max_paths=4000)


def relevant_terms(sk, level, P):
    """all symbolic points are visible at the comparison levels used (whole region, sole block, or the single op)"""
    return P.terms


def replay(ob, inputs):
    """concrete rebuild: symbolic points take the model's values; slots select concrete objects"""
    kind, sk = ob["kind"], ob["sk"]
    outside = test.TestOp(result_types=[i32]).results[0]

    class CP(Params):
        def __init__(self, prefix):
            super().__init__(False, prefix)
            self.same = []

        def width(self, name, default):
            v = inputs.get(f"{self.prefix}.{name}", default)
            self.same.append((f"{name}", v == default))
            return v

        def payload(self, name, default):
            v = inputs.get(f"{self.prefix}.{name}", default)
            self.same.append((f"{name}", v == default))
            return v

    try:
        if kind in ("eq_iff", "sym", "opinfo"):
            A, Av, Ab, As = build(sk, Params(False), outside)
            P = CP("B")
            B, Bv, Bb, Bs = build(sk, P, outside)
            U.reset()
            U.add(outside)
            for v in Bv.values():
                U.add(v)
            for b in Bb.values():
                U.add(b)
            for n, (op, k, idx, key) in enumerate(Bs):
                sel = inputs.get(f"B.slot{n}.{key}")
                if sel is None:
                    continue
                obj = U.objs[sel]
                exp = Bv[key] if k == "operand" else Bb[key]
                P.same.append((f"slot{n}", obj is exp))
                if k == "operand":
                    new = list(op._operands)
                    new[idx] = obj
                    op._operands = SSAValues(tuple(new))
                else:
                    new = list(op._successors)
                    new[idx] = obj
                    op._successors = tuple(new)
            level = ob.get("level", "op")
            x, y = pick(A, level), pick(B, level)
            if kind == "opinfo":
                r1 = OperationInfo(x) == OperationInfo(y)
            else:
                r1 = x.is_structurally_equivalent(y)
            if kind == "sym":
                r2 = y.is_structurally_equivalent(x)
                return {"violates": r1 != r2, "ab": r1, "ba": r2}
            # expected: visible points all equal
            class T:
                def __init__(self, n, ok):
                    self.n, self.ok = n, ok

                def __str__(self):
                    return self.n
            P.terms = [T(("B." + n if not n.startswith("slot") else "B." + n + "."), ok) for n, ok in P.same]
            vis = relevant_terms(sk, level, P)
            exp = all(t.ok for t in vis)
            return {"violates": bool(r1) != exp, "reported": r1, "expected": exp, "points": P.same}
        if kind == "variant":
            A, Av, Ab, As = build(sk, Params(False), outside)
            P = CP("B")
            B, Bv, Bb, Bs = build(sk, P, outside)
            if not apply_variant(B, ob["var"], P):
                return {"violates": False}
            ab, ba = A.is_structurally_equivalent(B), B.is_structurally_equivalent(A)
            return {"violates": bool(ab) or bool(ba), "a_equiv_b": ab, "b_equiv_a": ba}
        if kind == "refl":
            P = CP("X")
            X, Xv, Xb, Xs = build(sk, P, outside)
            level = ob["level"]
            if level == "op_detached":
                op2 = test.TestOp(operands=[outside], result_types=[IntegerType(P.width("det.width", 7))], attributes={"a": IntAttr(P.payload("det.attr", 1))})
                return {"violates": not op2.is_structurally_equivalent(op2)}
            x = pick(X, level)
            return {"violates": not x.is_structurally_equivalent(x)}
        if kind == "clone":
            P = CP("X")
            X, Xv, Xb, Xs = build(sk, P, outside)
            if ob["level"] == "region":
                return {"violates": not (X.is_structurally_equivalent(X.clone()) and X.clone().is_structurally_equivalent(X))}
            m = ModuleOp(X)
            return {"violates": not (m.is_structurally_equivalent(m.clone()) and m.clone().is_structurally_equivalent(m))}
    except Exception as e:
        return {"violates": True, "observed": f"exception {type(e).__name__}: {e}"}
    return {"violates": False}
