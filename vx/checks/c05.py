"""C05 - custom assembly formats round-trip (core dialects, symbolic attribute payloads)."""
from __future__ import annotations

import z3

from vx import symstr
from vx.framework import decide
from vx.symstr import SymStr, SymStream
from vx.symx import SymInt

symstr.install()

from xdsl.context import Context  # noqa: E402
from xdsl.dialects import affine, arith, builtin, cf, func, llvm, memref, scf, tensor, test, vector  # noqa: E402
from xdsl.dialects.builtin import IntAttr, IntegerAttr, IntegerType, ModuleOp  # noqa: E402
from xdsl.ir import Attribute, Data, ParametrizedAttribute  # noqa: E402
from xdsl.parser import Parser  # noqa: E402
from xdsl.printer import Printer  # noqa: E402
from xdsl.utils.exceptions import ParseError, VerifyException  # noqa: E402

from xdsl.utils import diagnostic as _diagnostic  # noqa: E402
from vx.symx import Infeasible  # noqa: E402


def _raise_plain(self, ir, underlying_error):
    raise underlying_error  # the rendering of the offending module into the exception's notes is not the subject


_diagnostic.Diagnostic.raise_exception = _raise_plain

LEVEL = "other"
EXPLANATION = (
    "A catalogue of verified modules made of operations of arith, cf, func, memref, scf, builtin, llvm, vector, tensor and affine that have a custom (declarative or hand-written) "
    "assembly format - arith (constants of every integer kind, binary ops with overflow flags, comparisons with every "
    "predicate, casts, select, fast-math flags), cf (br/cond_br with block arguments), func (func/call/return, private "
    "declarations), memref (alloc with dynamic sizes and alignment, load/store/dim/cast/subview-free subset), scf (for with "
    "iter_args, if with results, while) - is built from generic text; integer attribute payloads marked in the text (constants, "
    "alignments) are replaced by SYMBOLIC integers over the full range of their type. Each module is printed in custom form by "
    "the real printer (FormatProgram.print / the ops' print methods), the symbolic text is parsed back by the real parser in a "
    "fresh context, and z3 decides for all payload values: the custom text parses; the parsed module has the same structure and "
    "payloads as the original (an absent property with a declared default counts as that default); printing the parsed module in "
    "custom form gives the same text; and the generic printing parses to the same module as the custom printing."
)
FUNCTIONS = ["xdsl.irdl.declarative_assembly_format.FormatProgram.print / parse and its directives", "print/parse overrides of arith, cf, func, memref, scf, llvm operations", "Parser.parse_operation (custom branch)", "Printer.print_op"]
ASSUMPTIONS = ["vx/shim_re.py, vx/symstr.py agree with CPython (vx.selftest)"]
OUTSIDE = ["dialects other than arith, cf, func, memref, scf, builtin, llvm, vector, tensor, affine", "the repository's .mlir corpus (concrete: no symbolic dimension)", "float payloads (repr is C code)", "operations not in the catalogue"]
STUBS = ["Diagnostic.raise_exception re-raises the error without rendering the module into its notes", "output stream: vx.symstr.SymStream", "Printer/Parser name tables: list-backed dictionaries"]

# generic-form modules; integer literals 100..109 in attribute position are markers replaced by symbolic payloads of the attribute's type
MODULES = {
    "probe": """
%0 = "arith.constant"() <{value = 100 : i32}> : () -> i32
"test.op"(%0) : (i32) -> ()
""",
    "arith_const_i32": """
%0 = "arith.constant"() <{value = 100 : i32}> : () -> i32
%4 = "arith.constant"() <{value = true}> : () -> i1
%5 = "arith.constant"() <{value = false}> : () -> i1
"test.op"(%0, %4, %5) : (i32, i1, i1) -> ()
""",
    "arith_const_i64": """
%1 = "arith.constant"() <{value = 101 : i64}> : () -> i64
"test.op"(%1) : (i64) -> ()
""",
    "arith_const_index_i8": """
%2 = "arith.constant"() <{value = 102 : index}> : () -> index
%3 = "arith.constant"() <{value = 103 : i8}> : () -> i8
"test.op"(%2, %3) : (index, i8) -> ()
""",
    "arith_const_i1": """
%3 = "arith.constant"() <{value = 0 : i1}> : () -> i1
%4 = "arith.constant"() <{value = 0 : i2}> : () -> i2
"test.op"(%3, %4) : (i1, i2) -> ()
""",
    "arith_bin": """
%a, %b = "test.op"() : () -> (i32, i32)
%0 = "arith.addi"(%a, %b) <{overflowFlags = #arith.overflow<none>}> : (i32, i32) -> i32
%1 = "arith.addi"(%a, %b) <{overflowFlags = #arith.overflow<nsw>}> : (i32, i32) -> i32
%2 = "arith.muli"(%0, %1) <{overflowFlags = #arith.overflow<nsw, nuw>}> : (i32, i32) -> i32
%3 = "arith.subi"(%2, %a) <{overflowFlags = #arith.overflow<nuw>}> : (i32, i32) -> i32
%4 = "arith.divsi"(%3, %b) : (i32, i32) -> i32
%5 = "arith.shli"(%4, %b) <{overflowFlags = #arith.overflow<none>}> : (i32, i32) -> i32
%6 = "arith.andi"(%5, %a) : (i32, i32) -> i32
"test.op"(%6) : (i32) -> ()
""",
    "arith_cmp": "%a, %b = \"test.op\"() : () -> (i32, i32)\n" + "\n".join(f'%c{p} = "arith.cmpi"(%a, %b) <{{predicate = {p} : i64}}> : (i32, i32) -> i1' for p in range(10))
                 + '\n%s = "arith.select"(%c0, %a, %b) : (i1, i32, i32) -> i32\n"test.op"(%s, ' + ", ".join(f"%c{p}" for p in range(10)) + ") : (i32, " + ", ".join(["i1"] * 10) + ") -> ()\n",
    "cmp1": """
%a, %b = "test.op"() : () -> (i32, i32)
%x, %y = "test.op"() : () -> (f32, f32)
%0 = "arith.cmpi"(%a, %b) <{predicate = 0 : i64}> : (i32, i32) -> i1
%1 = "arith.cmpf"(%x, %y) <{predicate = 0 : i64, fastmath = #arith.fastmath<none>}> : (f32, f32) -> i1
"test.op"(%0, %1) : (i1, i1) -> ()
""",
    "arith_float": """
%x, %y = "test.op"() : () -> (f32, f32)
%0 = "arith.addf"(%x, %y) <{fastmath = #arith.fastmath<none>}> : (f32, f32) -> f32
%1 = "arith.mulf"(%0, %y) <{fastmath = #arith.fastmath<fast>}> : (f32, f32) -> f32
%2 = "arith.divf"(%1, %x) <{fastmath = #arith.fastmath<nnan,nsz>}> : (f32, f32) -> f32
%3 = "arith.cmpf"(%2, %x) <{predicate = 4 : i64, fastmath = #arith.fastmath<none>}> : (f32, f32) -> i1
%4 = "arith.negf"(%2) <{fastmath = #arith.fastmath<none>}> : (f32) -> f32
"test.op"(%3, %4) : (i1, f32) -> ()
""",
    "arith_cast": """
%a, %i = "test.op"() : () -> (i32, index)
%0 = "arith.extsi"(%a) : (i32) -> i64
%1 = "arith.extui"(%a) : (i32) -> i64
%2 = "arith.trunci"(%0) : (i64) -> i8
%3 = "arith.index_cast"(%i) : (index) -> i64
%4 = "arith.index_cast"(%1) : (i64) -> index
%5 = "arith.sitofp"(%a) : (i32) -> f32
%6 = "arith.fptosi"(%5) : (f32) -> i32
%7 = "arith.bitcast"(%a) : (i32) -> f32
"test.op"(%2, %3, %4, %6, %7) : (i8, i64, index, i32, f32) -> ()
""",
    "cf": """
"func.func"() <{sym_name = "f", function_type = (i1, i32) -> i32}> ({
^bb0(%c: i1, %x: i32):
  %k = "arith.constant"() <{value = 100 : i32}> : () -> i32
  "cf.cond_br"(%c, %x, %k, %x) [^bb1, ^bb2] <{operandSegmentSizes = array<i32: 1, 1, 2>}> : (i1, i32, i32, i32) -> ()
^bb1(%p: i32):
  "cf.br"(%p, %p) [^bb2] : (i32, i32) -> ()
^bb2(%q: i32, %r: i32):
  %s = "arith.addi"(%q, %r) <{overflowFlags = #arith.overflow<none>}> : (i32, i32) -> i32
  "func.return"(%s) : (i32) -> ()
}) : () -> ()
""",
    "func": """
"func.func"() <{sym_name = "ext", function_type = (i32, i64) -> i32, sym_visibility = "private"}> ({
}) : () -> ()
"func.func"() <{sym_name = "f", function_type = (i32) -> (i32, i32)}> ({
^bb0(%x: i32):
  %k = "arith.constant"() <{value = 101 : i64}> : () -> i64
  %r = "func.call"(%x, %k) <{callee = @ext}> : (i32, i64) -> i32
  "func.return"(%r, %x) : (i32, i32) -> ()
}) : () -> ()
""",
    "memref": """
%n, %i = "test.op"() : () -> (index, index)
%m = "memref.alloc"(%n) <{operandSegmentSizes = array<i32: 1, 0>, alignment = 100 : i64}> : (index) -> memref<?x4xi32>
%a = "memref.alloc"() <{operandSegmentSizes = array<i32: 0, 0>}> : () -> memref<2xi8>
%v = "memref.load"(%m, %i, %i) : (memref<?x4xi32>, index, index) -> i32
"memref.store"(%v, %m, %i, %i) : (i32, memref<?x4xi32>, index, index) -> ()
%d = "memref.dim"(%m, %i) : (memref<?x4xi32>, index) -> index
%c = "memref.cast"(%m) : (memref<?x4xi32>) -> memref<?x?xi32>
"memref.dealloc"(%a) : (memref<2xi8>) -> ()
"test.op"(%d, %c) : (index, memref<?x?xi32>) -> ()
""",
    "scf": """
%lb, %ub, %st = "test.op"() : () -> (index, index, index)
%init = "arith.constant"() <{value = 100 : i32}> : () -> i32
%c = "test.op"() : () -> i1
%r = "scf.for"(%lb, %ub, %st, %init) ({
^bb0(%i: index, %acc: i32):
  %t = "scf.if"(%c) ({
    %k = "arith.constant"() <{value = 101 : i32}> : () -> i32
    "scf.yield"(%k) : (i32) -> ()
  }, {
    "scf.yield"(%acc) : (i32) -> ()
  }) : (i1) -> i32
  "scf.yield"(%t) : (i32) -> ()
}) : (index, index, index, i32) -> i32
"scf.if"(%c) ({
  "test.op"(%r) : (i32) -> ()
  "scf.yield"() : () -> ()
}, {
}) : (i1) -> ()
""",
    "switch": """
"func.func"() <{sym_name = "f", function_type = (i32, i32, i64) -> i32}> ({
^bb0(%flag: i32, %x: i32, %y: i64):
  "cf.switch"(%flag, %x, %x, %x, %y) [^bb1, ^bb1, ^bb2, ^bb3] <{case_operand_segments = array<i32: 1, 2, 0>, case_values = dense<[100, 101, 102]> : vector<3xi32>, operandSegmentSizes = array<i32: 1, 1, 3>}> : (i32, i32, i32, i32, i64) -> ()
^bb1(%a: i32):
  "func.return"(%a) : (i32) -> ()
^bb2(%b: i32, %c: i64):
  "func.return"(%b) : (i32) -> ()
^bb3:
  "func.return"(%x) : (i32) -> ()
}) : () -> ()
""",
    "switch_idx": """
"func.func"() <{sym_name = "f", function_type = (index, i32) -> i32}> ({
^bb0(%flag: index, %x: i32):
  "cf.switch"(%flag) [^bb1, ^bb1] <{case_operand_segments = array<i32: 0>, case_values = dense<103> : vector<1xindex>, operandSegmentSizes = array<i32: 1, 0, 0>}> : (index) -> ()
^bb1:
  "func.return"(%x) : (i32) -> ()
}) : () -> ()
""",
    "subview": """
%m, %i, %j = "test.op"() : () -> (memref<8x16x4xf32>, index, index)
%s = "memref.subview"(%m, %i, %j) <{static_offsets = array<i64: -9223372036854775808, 100, 0>, static_sizes = array<i64: 4, -9223372036854775808, 4>, static_strides = array<i64: 1, 101, 1>, operandSegmentSizes = array<i32: 1, 1, 1, 0>}> : (memref<8x16x4xf32>, index, index) -> memref<4x?x4xf32, strided<[?, ?, 1], offset: ?>>
"test.op"(%s) : (memref<4x?x4xf32, strided<[?, ?, 1], offset: ?>>) -> ()
""",
    "reinterpret": """
%m, %i, %j = "test.op"() : () -> (memref<8x16x4xf32>, index, index)
%r = "memref.reinterpret_cast"(%m, %i, %j) <{static_offsets = array<i64: 102>, static_sizes = array<i64: -9223372036854775808, 4>, static_strides = array<i64: -9223372036854775808, 1>, operandSegmentSizes = array<i32: 1, 0, 1, 1>}> : (memref<8x16x4xf32>, index, index) -> memref<?x4xf32, strided<[?, 1], offset: ?>>
"test.op"(%r) : (memref<?x4xf32, strided<[?, 1], offset: ?>>) -> ()
""",
    "global": """
"memref.global"() <{sym_name = "g", type = memref<2xi32>, initial_value = dense<[1, 2]> : tensor<2xi32>, sym_visibility = "private", constant, alignment = 64 : i64}> : () -> ()
"memref.global"() <{sym_name = "h", type = memref<2xi32>, initial_value, sym_visibility = "public"}> : () -> ()
%g = "memref.get_global"() <{name = @g}> : () -> memref<2xi32>
%a = "memref.alloca"() <{alignment = 32 : i64, operandSegmentSizes = array<i32: 0, 0>}> : () -> memref<3xi8>
%n = "test.op"() : () -> index
%b = "memref.alloca"(%n) <{operandSegmentSizes = array<i32: 1, 0>}> : (index) -> memref<?xi8>
"test.op"(%g) : (memref<2xi32>) -> ()
""",
    "scf2": """
%lb, %ub, %st = "test.op"() : () -> (i32, i32, i32)
%c = "test.op"() : () -> i1
"scf.for"(%lb, %ub, %st) ({
^bb0(%i: i32):
  "test.op"(%i) : (i32) -> ()
  "scf.yield"() : () -> ()
}) : (i32, i32, i32) -> ()
%w = "scf.while"(%lb) ({
^bb0(%a: i32):
  "scf.condition"(%c, %a) : (i1, i32) -> ()
}, {
^bb0(%b: i32):
  "scf.yield"(%b) : (i32) -> ()
}) : (i32) -> i32
%x, %y = "scf.if"(%c) ({
  "scf.yield"(%lb, %c) : (i32, i1) -> ()
}, {
  "scf.yield"(%ub, %c) : (i32, i1) -> ()
}) : (i1) -> (i32, i1)
%e = "scf.execute_region"() ({
  "scf.yield"(%w) : (i32) -> ()
}) : () -> i32
"test.op"(%x, %y, %e) : (i32, i1, i32) -> ()
""",
    "func2": """
"func.func"() <{sym_name = "decl", function_type = (i32, memref<?xf32>) -> (i32, f32), sym_visibility = "private"}> ({
}) : () -> ()
"func.func"() <{sym_name = "pub", function_type = (i32, f32) -> f32, sym_visibility = "public", arg_attrs = [{vx.k = 100 : i32}, {}]}> ({
^bb0(%a: i32, %b: f32):
  "func.return"(%b) : (f32) -> ()
}) {vx.note = 101 : i64} : () -> ()
"func.func"() <{sym_name = "nest", function_type = (memref<?xf32>) -> (), sym_visibility = "nested"}> ({
^bb0(%m: memref<?xf32>):
  %x, %y = "test.op"() : () -> (i32, f32)
  %r = "func.call"(%x, %y) <{callee = @pub}> : (i32, f32) -> f32
  %q, %q_1 = "func.call"(%x, %m) <{callee = @decl}> : (i32, memref<?xf32>) -> (i32, f32)
  "func.return"() : () -> ()
}) : () -> ()
""",
    "func_decl_attrs": """
"func.func"() <{sym_name = "decl", function_type = (i32, memref<?xf32>) -> (i32, f32), sym_visibility = "private", arg_attrs = [{llvm.noalias}, {}], res_attrs = [{vx.r = 100 : i8}, {}]}> ({
}) : () -> ()
"func.func"() <{sym_name = "def", function_type = (i32) -> (i32, f32), res_attrs = [{vx.r = 101 : i8}, {}]}> ({
^bb0(%a: i32):
  %f = "test.op"() : () -> f32
  "func.return"(%a, %f) : (i32, f32) -> ()
}) : () -> ()
""",
    "module": """
"builtin.module"() <{sym_name = "named"}> ({
  "builtin.module"() ({
    %0 = "arith.constant"() <{value = 101 : i16}> : () -> i16
  }) : () -> ()
  "builtin.module"() <{sym_name = "inner"}> ({
  ^bb0:
  }) : () -> ()
}) {vx.a = 100 : i32, vx.b} : () -> ()
""",
    "arith2": """
%a, %b, %c = "test.op"() : () -> (i32, i32, i1)
%v = "test.op"() : () -> vector<4xi32>
%0, %1 = "arith.addui_extended"(%a, %b) : (i32, i32) -> (i32, i1)
%2, %3 = "arith.mulsi_extended"(%a, %b) : (i32, i32) -> (i32, i32)
%4 = "arith.select"(%c, %v, %v) : (i1, vector<4xi32>, vector<4xi32>) -> vector<4xi32>
%7 = "arith.minsi"(%a, %b) : (i32, i32) -> i32
%8 = "arith.maxui"(%a, %b) : (i32, i32) -> i32
%9 = "arith.ceildivsi"(%a, %b) : (i32, i32) -> i32
%k = "arith.constant"() <{value = dense<[100, 101]> : tensor<2xi8>}> : () -> tensor<2xi8>
"test.op"(%0, %1, %2, %3, %4, %7, %8, %9, %k) : (i32, i1, i32, i32, vector<4xi32>, i32, i32, i32, tensor<2xi8>) -> ()
""",
    "llvm_arith": """
%a, %b = "test.op"() : () -> (i32, i32)
%0 = "llvm.add"(%a, %b) <{overflowFlags = 3 : i32}> : (i32, i32) -> i32
%1 = "llvm.sub"(%a, %b) <{overflowFlags = 0 : i32}> : (i32, i32) -> i32
%2 = "llvm.mul"(%a, %b) <{overflowFlags = 1 : i32}> : (i32, i32) -> i32
%3 = "llvm.udiv"(%a, %b) <{isExact}> : (i32, i32) -> i32
%4 = "llvm.sdiv"(%a, %b) : (i32, i32) -> i32
%5 = "llvm.or"(%a, %b) <{isDisjoint}> : (i32, i32) -> i32
%6 = "llvm.shl"(%a, %b) <{overflowFlags = 2 : i32}> : (i32, i32) -> i32
%7 = "llvm.lshr"(%a, %b) <{isExact}> : (i32, i32) -> i32
%8 = "llvm.trunc"(%a) <{overflowFlags = #llvm.overflow<nsw>}> : (i32) -> i16
%9 = "llvm.zext"(%a) <{nonNeg}> : (i32) -> i64
%10 = "llvm.sext"(%a) : (i32) -> i64
%11 = "llvm.icmp"(%a, %b) <{predicate = 2 : i64}> : (i32, i32) -> i1
%12 = "llvm.bitcast"(%a) : (i32) -> f32
"test.op"(%0, %1, %2, %3, %4, %5, %6, %7, %8, %9, %10, %11, %12) : (i32, i32, i32, i32, i32, i32, i32, i32, i16, i64, i64, i1, f32) -> ()
""",
    "llvm_const": """
%c1 = "llvm.mlir.constant"() <{value = false}> : () -> i1
%c2 = "llvm.mlir.constant"() <{value = 100 : i64}> : () -> i64
%c3 = "llvm.mlir.constant"() <{value = 101 : i32}> : () -> i32
%c4 = "llvm.mlir.constant"() <{value = 102 : i8}> : () -> i8
%z = "llvm.mlir.zero"() : () -> !llvm.ptr
%u = "llvm.mlir.undef"() : () -> !llvm.struct<(i32)>
"test.op"(%c1, %c2, %c3, %c4, %z, %u) : (i1, i64, i32, i8, !llvm.ptr, !llvm.struct<(i32)>) -> ()
""",
    "llvm_mem": """
%n = "test.op"() : () -> i64
%v = "test.op"() : () -> i32
%p = "llvm.alloca"(%n) <{elem_type = index, alignment = 32 : i64}> : (i64) -> !llvm.ptr
%q = "llvm.alloca"(%n) <{elem_type = i32}> : (i64) -> !llvm.ptr
%g = "llvm.getelementptr"(%p, %n) <{rawConstantIndices = array<i32: -2147483648>, elem_type = i32, noWrapFlags = 0 : i32}> : (!llvm.ptr, i64) -> !llvm.ptr
%gi = "llvm.getelementptr"(%p, %n) <{rawConstantIndices = array<i32: -2147483648>, elem_type = i32, noWrapFlags = 0 : i32, inbounds}> : (!llvm.ptr, i64) -> !llvm.ptr
%gm = "llvm.getelementptr"(%p, %n) <{rawConstantIndices = array<i32: 100, -2147483648, 1>, elem_type = !llvm.array<4 x !llvm.struct<(i32, i32, i32)>>, noWrapFlags = 0 : i32}> : (!llvm.ptr, i64) -> !llvm.ptr
%i = "llvm.ptrtoint"(%p) : (!llvm.ptr) -> i64
%r = "llvm.inttoptr"(%i) : (i64) -> !llvm.ptr
"test.op"(%q, %g, %gi, %gm, %r) : (!llvm.ptr, !llvm.ptr, !llvm.ptr, !llvm.ptr, !llvm.ptr) -> ()
""",
    "llvm_ldst": """
%n = "test.op"() : () -> i64
%v = "test.op"() : () -> i32
%p = "llvm.alloca"(%n) <{elem_type = index, alignment = 32 : i64}> : (i64) -> !llvm.ptr
%l0 = "llvm.load"(%p) <{ordering = 0 : i64}> : (!llvm.ptr) -> i32
%l1 = "llvm.load"(%p) <{ordering = 0 : i64, alignment = 16 : i64}> : (!llvm.ptr) -> index
%l2 = "llvm.load"(%p) <{ordering = 1 : i64, alignment = 32 : i64}> : (!llvm.ptr) -> index
"llvm.store"(%v, %p) <{ordering = 0 : i64}> : (i32, !llvm.ptr) -> ()
"llvm.store"(%v, %p) <{ordering = 0 : i64, alignment = 8 : i64}> : (i32, !llvm.ptr) -> ()
"llvm.store"(%v, %p) <{ordering = 0 : i64, alignment = 16 : i64, volatile_, nontemporal}> : (i32, !llvm.ptr) -> ()
"test.op"(%l0, %l1, %l2) : (i32, index, index) -> ()
""",
    "llvm_agg": """
%v = "test.op"() : () -> i32
%agg = "test.op"() : () -> !llvm.struct<(i32, !llvm.array<3 x i32>)>
%e0 = "llvm.extractvalue"(%agg) <{position = array<i64: 0>}> : (!llvm.struct<(i32, !llvm.array<3 x i32>)>) -> i32
%e1 = "llvm.extractvalue"(%agg) <{position = array<i64: 1, 2>}> : (!llvm.struct<(i32, !llvm.array<3 x i32>)>) -> i32
%i0 = "llvm.insertvalue"(%agg, %v) <{position = array<i64: 0>}> : (!llvm.struct<(i32, !llvm.array<3 x i32>)>, i32) -> !llvm.struct<(i32, !llvm.array<3 x i32>)>
%i1 = "llvm.insertvalue"(%agg, %v) <{position = array<i64: 1, 0>}> : (!llvm.struct<(i32, !llvm.array<3 x i32>)>, i32) -> !llvm.struct<(i32, !llvm.array<3 x i32>)>
%vec1, %vec2 = "test.op"() : () -> (vector<4xf32>, vector<4xf32>)
%s = "llvm.shufflevector"(%vec1, %vec2) <{mask = array<i32: 0, 5>}> : (vector<4xf32>, vector<4xf32>) -> vector<2xf32>
"test.op"(%e0, %e1, %i0, %i1, %s) : (i32, i32, !llvm.struct<(i32, !llvm.array<3 x i32>)>, !llvm.struct<(i32, !llvm.array<3 x i32>)>, vector<2xf32>) -> ()
""",
    "llvm_func": """
"llvm.func"() <{unnamed_addr = 0 : i64, sym_name = "external_func", function_type = !llvm.func<void (i64)>, CConv = #llvm.cconv<ccc>, linkage = #llvm.linkage<"external">, visibility_ = 0 : i64}> ({
}) : () -> ()
"llvm.func"() <{arg_attrs = [{llvm.noundef}], res_attrs = [{llvm.noundef}], unnamed_addr = 0 : i64, sym_name = "decl_attrs", function_type = !llvm.func<i32 (i64)>, CConv = #llvm.cconv<ccc>, linkage = #llvm.linkage<"external">, visibility_ = 0 : i64}> ({
}) : () -> ()
"llvm.func"() <{arg_attrs = [{llvm.noundef}, {}], res_attrs = [{llvm.noundef}], unnamed_addr = 0 : i64, sym_name = "add", function_type = !llvm.func<i32 (i32, i32)>, CConv = #llvm.cconv<ccc>, linkage = #llvm.linkage<"external">, visibility_ = 0 : i64}> ({
^bb0(%arg0: i32, %arg1: i32):
  "llvm.return"(%arg0) : (i32) -> ()
}) {hello = "world"} : () -> ()
"llvm.func"() <{unnamed_addr = 0 : i64, sym_name = "internal_func", function_type = !llvm.func<void ()>, CConv = #llvm.cconv<ccc>, linkage = #llvm.linkage<"internal">, visibility_ = 0 : i64}> ({
  "llvm.return"() : () -> ()
}) : () -> ()
"llvm.func"() <{unnamed_addr = 0 : i64, sym_name = "variadic_func", function_type = !llvm.func<void (i32, ...)>, CConv = #llvm.cconv<ccc>, linkage = #llvm.linkage<"external">, visibility_ = 0 : i64}> ({
^bb0(%arg0_1: i32):
  "llvm.return"() : () -> ()
}) : () -> ()
"llvm.func"() <{unnamed_addr = 0 : i64, sym_name = "variadic_decl", function_type = !llvm.func<void (i32, ...)>, CConv = #llvm.cconv<ccc>, linkage = #llvm.linkage<"external">, visibility_ = 0 : i64}> ({
}) : () -> ()
"llvm.func"() <{unnamed_addr = 0 : i64, sym_name = "variadic_with_return", function_type = !llvm.func<i64 (i32, ...)>, CConv = #llvm.cconv<ccc>, linkage = #llvm.linkage<"external">, visibility_ = 0 : i64}> ({
}) : () -> ()
"llvm.func"() <{unnamed_addr = 0 : i64, sym_name = "caller", function_type = !llvm.func<void (i32, !llvm.ptr, i64)>, CConv = #llvm.cconv<ccc>, linkage = #llvm.linkage<"external">, visibility_ = 0 : i64}> ({
^bb0(%arg0_2: i32, %fptr: !llvm.ptr, %x: i64):
  "llvm.call"(%x) <{fastmathFlags = #llvm.fastmath<none>, CConv = #llvm.cconv<ccc>, TailCallKind = #llvm.tailcallkind<none>, op_bundle_sizes = array<i32>, operandSegmentSizes = array<i32: 1, 0>, callee = @external_func}> : (i64) -> ()
  %0 = "llvm.call"(%fptr, %arg0_2) <{fastmathFlags = #llvm.fastmath<none>, CConv = #llvm.cconv<ccc>, TailCallKind = #llvm.tailcallkind<none>, op_bundle_sizes = array<i32>, operandSegmentSizes = array<i32: 2, 0>}> : (!llvm.ptr, i32) -> i32
  "llvm.call"(%x) <{fastmathFlags = #llvm.fastmath<none>, CConv = #llvm.cconv<ccc>, TailCallKind = #llvm.tailcallkind<tail>, op_bundle_sizes = array<i32>, operandSegmentSizes = array<i32: 1, 0>, callee = @external_func}> : (i64) -> ()
  "llvm.call"(%x) <{fastmathFlags = #llvm.fastmath<none>, CConv = #llvm.cconv<fastcc>, TailCallKind = #llvm.tailcallkind<none>, op_bundle_sizes = array<i32>, operandSegmentSizes = array<i32: 1, 0>, callee = @external_func}> : (i64) -> ()
  %1 = "llvm.call"(%arg0_2) <{fastmathFlags = #llvm.fastmath<none>, CConv = #llvm.cconv<ccc>, TailCallKind = #llvm.tailcallkind<none>, op_bundle_sizes = array<i32>, operandSegmentSizes = array<i32: 1, 0>, callee = @variadic_with_return, var_callee_type = !llvm.func<i64 (i32, ...)>}> : (i32) -> i64
  "llvm.return"() : () -> ()
}) : () -> ()
""",
    "llvm_global": """
"llvm.mlir.global"() <{global_type = !llvm.array<5 x i8>, sym_name = "str0", linkage = #llvm.linkage<"internal">, addr_space = 0 : i32, constant, value = "Hello"}> ({
}) : () -> ()
"llvm.mlir.global"() <{global_type = i32, sym_name = "x", linkage = #llvm.linkage<"external">, addr_space = 0 : i32}> ({
}) : () -> ()
"llvm.mlir.global"() <{global_type = i32, sym_name = "y", linkage = #llvm.linkage<"private">, addr_space = 0 : i32, value = 100 : i32}> ({
}) : () -> ()
"llvm.mlir.global"() <{global_type = i32, sym_name = "tl", linkage = #llvm.linkage<"external">, addr_space = 0 : i32, thread_local_}> ({
}) : () -> ()
"llvm.mlir.global"() <{global_type = i32, sym_name = "u", linkage = #llvm.linkage<"external">, addr_space = 0 : i32, unnamed_addr = 2 : i64}> ({
}) : () -> ()
%a = "llvm.mlir.addressof"() <{global_name = @y}> : () -> !llvm.ptr
"test.op"(%a) : (!llvm.ptr) -> ()
""",
    "vector": """
%v, %i, %s = "test.op"() : () -> (vector<4x8x16xf32>, index, f32)
%w, %base = "test.op"() : () -> (vector<4xf32>, memref<4x4xf32>)
%0 = "vector.extract"(%v) <{static_position = array<i64: 100>}> : (vector<4x8x16xf32>) -> vector<8x16xf32>
%1 = "vector.extract"(%v, %i, %i) <{static_position = array<i64: -9223372036854775808, 101, -9223372036854775808>}> : (vector<4x8x16xf32>, index, index) -> f32
%2 = "vector.extract"(%v) <{static_position = array<i64>}> : (vector<4x8x16xf32>) -> vector<4x8x16xf32>
%3 = "vector.insert"(%s, %v) <{static_position = array<i64: 3, 102, 3>}> : (f32, vector<4x8x16xf32>) -> vector<4x8x16xf32>
%4 = "vector.insert"(%s, %v, %i, %i) <{static_position = array<i64: -9223372036854775808, 3, -9223372036854775808>}> : (f32, vector<4x8x16xf32>, index, index) -> vector<4x8x16xf32>
%5 = "vector.broadcast"(%s) : (f32) -> vector<4xf32>
%6 = "vector.fma"(%w, %w, %w) : (vector<4xf32>, vector<4xf32>, vector<4xf32>) -> vector<4xf32>
%7 = "vector.reduction"(%w) <{kind = #vector.kind<add>, fastmath = #arith.fastmath<none>}> : (vector<4xf32>) -> f32
%8 = "vector.reduction"(%w, %s) <{kind = #vector.kind<add>, fastmath = #arith.fastmath<none>}> : (vector<4xf32>, f32) -> f32
%9 = "vector.create_mask"(%i) : (index) -> vector<2xi1>
%10 = "vector.load"(%base, %i, %i) : (memref<4x4xf32>, index, index) -> vector<2xf32>
"vector.store"(%10, %base, %i, %i) : (vector<2xf32>, memref<4x4xf32>, index, index) -> ()
"test.op"(%0, %1, %2, %3, %4, %5, %6, %7, %8, %9) : (vector<8x16xf32>, f32, vector<4x8x16xf32>, vector<4x8x16xf32>, vector<4x8x16xf32>, vector<4xf32>, vector<4xf32>, f32, f32, vector<2xi1>) -> ()
""",
    "tensor": """
%t, %i, %j, %f = "test.op"() : () -> (tensor<?x?xf32>, index, index, f32)
%st = "test.op"() : () -> tensor<8x16xf32>
%0 = "tensor.extract"(%t, %i, %j) : (tensor<?x?xf32>, index, index) -> f32
%1 = "tensor.insert"(%f, %t, %i, %j) : (f32, tensor<?x?xf32>, index, index) -> tensor<?x?xf32>
%2 = "tensor.dim"(%t, %i) : (tensor<?x?xf32>, index) -> index
%3 = "tensor.empty"() : () -> tensor<4x4xf32>
%4 = "tensor.empty"(%i) : (index) -> tensor<?x4xf32>
%5 = "tensor.cast"(%t) : (tensor<?x?xf32>) -> tensor<4x4xf32>
%6 = "tensor.collapse_shape"(%st) <{reassociation = [[0 : i64, 1 : i64]]}> : (tensor<8x16xf32>) -> tensor<128xf32>
"test.op"(%0, %1, %2, %3, %4, %5, %6) : (f32, tensor<?x?xf32>, index, tensor<4x4xf32>, tensor<?x4xf32>, tensor<4x4xf32>, tensor<128xf32>) -> ()
""",
    "affine": """
%m, %z, %val = "test.op"() : () -> (memref<2x3xf64>, index, f64)
"affine.store"(%val, %m) <{map = affine_map<() -> (0, 0)>}> : (f64, memref<2x3xf64>) -> ()
%l = "affine.load"(%m, %z) <{map = affine_map<()[s0] -> (s0, s0)>}> : (memref<2x3xf64>, index) -> f64
%n = "affine.load"(%m, %z) <{map = affine_map<()[s0] -> ((((s0 * 7) + 3) + s0), (s0 + 7))>}> : (memref<2x3xf64>, index) -> f64
%a = "affine.apply"(%z, %z) <{map = affine_map<(d0)[s0] -> (((d0 + (s0 * 42)) + -1))>}> : (index, index) -> index
"test.op"(%l, %n, %a) : (f64, f64, index) -> ()
""",
    "vector_transfer": """
%base, %i, %pad = "test.op"() : () -> (memref<4x4xindex>, index, index)
%m = "test.op"() : () -> vector<4xi1>
%r0 = "vector.transfer_read"(%base, %i, %i, %pad) <{in_bounds = [true], permutation_map = affine_map<(d0, d1) -> (d0)>, operandSegmentSizes = array<i32: 1, 2, 1, 0>}> : (memref<4x4xindex>, index, index, index) -> vector<4xindex>
%r1 = "vector.transfer_read"(%base, %i, %i, %pad) <{in_bounds = [true], permutation_map = affine_map<(d0, d1) -> (d1)>, operandSegmentSizes = array<i32: 1, 2, 1, 0>}> : (memref<4x4xindex>, index, index, index) -> vector<4xindex>
%r2 = "vector.transfer_read"(%base, %i, %i, %pad) <{in_bounds = [true, false], permutation_map = affine_map<(d0, d1) -> (d0, d1)>, operandSegmentSizes = array<i32: 1, 2, 1, 0>}> : (memref<4x4xindex>, index, index, index) -> vector<2x4xindex>
%r3 = "vector.transfer_read"(%base, %i, %i, %pad, %m) <{in_bounds = [false], permutation_map = affine_map<(d0, d1) -> (d1)>, operandSegmentSizes = array<i32: 1, 2, 1, 1>}> : (memref<4x4xindex>, index, index, index, vector<4xi1>) -> vector<4xindex>
"vector.transfer_write"(%r0, %base, %i, %i) <{in_bounds = [true], permutation_map = affine_map<(d0, d1) -> (d0)>, operandSegmentSizes = array<i32: 1, 1, 2, 0>}> : (vector<4xindex>, memref<4x4xindex>, index, index) -> ()
"vector.transfer_write"(%r2, %base, %i, %i) <{in_bounds = [false, true], permutation_map = affine_map<(d0, d1) -> (d0, d1)>, operandSegmentSizes = array<i32: 1, 1, 2, 0>}> : (vector<2x4xindex>, memref<4x4xindex>, index, index) -> ()
"vector.transfer_write"(%r3, %base, %i, %i, %m) <{in_bounds = [false], permutation_map = affine_map<(d0, d1) -> (d1)>, operandSegmentSizes = array<i32: 1, 1, 2, 1>}> : (vector<4xindex>, memref<4x4xindex>, index, index, vector<4xi1>) -> ()
""",
}


# payloads that cannot carry a marker: module -> [(index among the ops of that name, op name, property, variable)]
EXTRA_SYMS = {
    "arith_const_i1": [(0, "arith.constant", "value", "k104"), (1, "arith.constant", "value", "k105")],
}

# symbol names made symbolic (definition and every reference), per obligation
NAME_PARTITION = [(34, 34), (92, 92), (0, 31), (32, 33), (35, 47), (48, 57), (58, 64), (65, 90), (91, 91), (93, 96), (97, 122), (123, 127)]


# ---- generated declarative-format operations ("generated instances ... with optional groups, variadic operands and default-valued properties")
class _Gen:
    ops = []


def _gen_ops():
    from typing import ClassVar

    from xdsl.dialects.builtin import I32, I64, BoolAttr, DenseArrayBase, IndexType, StringAttr, SymbolNameConstraint, UnitAttr, i32
    from xdsl.irdl import (AnyAttr, AttrSizedOperandSegments, IRDLOperation, ParsePropInAttrDict, VarConstraint, attr_def, irdl_op_definition, operand_def, opt_attr_def, opt_operand_def, opt_prop_def,
                           prop_def, result_def, var_operand_def, var_result_def)

    @irdl_op_definition
    class DfltBare(IRDLOperation):
        name = "vx.dflt_bare"
        p = prop_def(IntegerAttr[I32], default_value=IntegerAttr(5, i32))
        assembly_format = "$p attr-dict"

    @irdl_op_definition
    class DfltGroup(IRDLOperation):
        name = "vx.dflt_group"
        p = prop_def(IntegerAttr[I32], default_value=IntegerAttr(5, i32))
        q = opt_prop_def(IntegerAttr)
        assembly_format = "(`p` $p^)? (`q` $q^)? attr-dict"

    @irdl_op_definition
    class DfltDict(IRDLOperation):
        name = "vx.dflt_dict"
        p = prop_def(IntegerAttr[I32], default_value=IntegerAttr(5, i32))
        a = attr_def(IntegerAttr[I32], default_value=IntegerAttr(7, i32))
        irdl_options = (ParsePropInAttrDict(),)
        assembly_format = "attr-dict"

    @irdl_op_definition
    class Dense(IRDLOperation):
        name = "vx.dense"
        xs = prop_def(DenseArrayBase[I64])
        ys = prop_def(DenseArrayBase[I32], default_value=DenseArrayBase.from_list(i32, (9,)))
        zs = opt_prop_def(DenseArrayBase[I64])
        assembly_format = "$xs (`ys` $ys^)? (`zs` $zs^)? attr-dict"

    @irdl_op_definition
    class Sym(IRDLOperation):
        name = "vx.sym"
        sym_name = prop_def(SymbolNameConstraint())
        other = opt_prop_def(SymbolNameConstraint())
        assembly_format = "$sym_name (`other` $other^)? attr-dict"

    @irdl_op_definition
    class Str(IRDLOperation):
        name = "vx.str"
        s = prop_def(StringAttr)
        t = opt_attr_def(StringAttr)
        assembly_format = "$s (`t` $t^)? attr-dict"

    @irdl_op_definition
    class Typed(IRDLOperation):
        name = "vx.typed"
        i = prop_def(IntegerAttr[IndexType])
        j = prop_def(IntegerAttr[I32])
        k = opt_prop_def(IntegerAttr[I64])
        assembly_format = "$i `,` $j (`,` $k^)? attr-dict"

    @irdl_op_definition
    class Var(IRDLOperation):
        name = "vx.var"
        a = var_operand_def()
        o = opt_operand_def()
        r = var_result_def()
        irdl_options = (AttrSizedOperandSegments(as_property=True),)
        assembly_format = "$a (`opt` $o^ `:` type($o))? (`:` type($a)^)? (`->` type($r)^)? attr-dict"

    @irdl_op_definition
    class Unit(IRDLOperation):
        name = "vx.unit"
        flag = opt_prop_def(UnitAttr)
        b = prop_def(BoolAttr, default_value=BoolAttr.from_bool(False))
        n = opt_prop_def(IntegerAttr[I32])
        assembly_format = "(`flag` $flag^)? (`b` $b^)? (`n` $n^)? attr-dict"

    @irdl_op_definition
    class Same(IRDLOperation):
        name = "vx.same"
        T: ClassVar = VarConstraint("T", AnyAttr())
        lhs = operand_def(T)
        rhs = operand_def(T)
        res = result_def(T)
        k = prop_def(IntegerAttr[I32], default_value=IntegerAttr(0, i32))
        assembly_format = "$lhs `,` $rhs (`k` `=` $k^)? attr-dict `:` type($lhs)"

    return [DfltBare, DfltGroup, DfltDict, Dense, Sym, Str, Typed, Var, Unit, Same]


from xdsl.ir import Dialect  # noqa: E402

GEN_OPS = {c.name: c for c in _gen_ops()}
VX = Dialect("vx", list(GEN_OPS.values()), [])


def gen_module(ob, src):
    """instances of the generated operations; payloads symbolic, presence of optional parts enumerated through the engine"""
    from xdsl.dialects.builtin import BoolAttr, DenseArrayBase, IndexType, StringAttr, UnitAttr, f32, i32, i64

    def iattr(name, t):
        lo, hi = int_range(t)
        return IntegerAttr(src.int(name, lo, hi), t)

    def dense(name, t, n):
        lo, hi = -(1 << (t.width.data - 1)), (1 << (t.width.data - 1)) - 1
        return DenseArrayBase.from_list(t, [src.int(f"{name}{i}", lo, hi) for i in range(n)])

    g = ob["gen"]
    ops = []
    if g == "dflt_bare":
        ops.append(GEN_OPS["vx.dflt_bare"].build(properties={"p": iattr("p", i32)}))
    elif g == "dflt_group":
        props = {"p": iattr("p", i32)}
        if src.choose("has_q", 2):
            props["q"] = iattr("q", [i32, i64, IndexType()][src.choose("q_type", 3)])
        ops.append(GEN_OPS["vx.dflt_group"].build(properties=props))
    elif g == "dflt_dict":
        ops.append(GEN_OPS["vx.dflt_dict"].build(properties={"p": iattr("p", i32)}, attributes={"a": iattr("a", i32)}))
    elif g == "dense":
        nx, ny, hz = ob["counts"]
        props = {"xs": dense("x", i64, nx), "ys": dense("y", i32, ny)}
        if hz:
            props["zs"] = dense("z", i64, 1)
        ops.append(GEN_OPS["vx.dense"].build(properties=props))
    elif g == "sym":
        props = {"sym_name": StringAttr(src.text("s", ob.get("len", 1), NAME_PARTITION))}
        if src.choose("has_other", 2):
            props["other"] = StringAttr(src.text("o", 1, NAME_PARTITION))
        ops.append(GEN_OPS["vx.sym"].build(properties=props))
    elif g == "str":
        attrs = {}
        if src.choose("has_t", 2):
            attrs["t"] = StringAttr(src.text("t", 1, NAME_PARTITION))
        ops.append(GEN_OPS["vx.str"].build(properties={"s": StringAttr(src.text("s", ob.get("len", 1), NAME_PARTITION))}, attributes=attrs))
    elif g == "typed":
        props = {"i": iattr("i", IndexType()), "j": iattr("j", i32)}
        if src.choose("has_k", 2):
            props["k"] = iattr("k", i64)
        ops.append(GEN_OPS["vx.typed"].build(properties=props))
    elif g == "var":
        na, ho, nr = src.choose("na", 3), src.choose("has_o", 2), src.choose("nr", 3)
        prod = test.TestOp(result_types=[i32, f32, i64])
        ops.append(prod)
        ops.append(GEN_OPS["vx.var"].build(operands=[list(prod.results[:na]), [prod.results[2]] if ho else []], result_types=[[i32, f32][:nr]], attributes={"vx.d": iattr("d", i32)} if src.choose("has_d", 2) else {}))
    elif g == "unit":
        props = {"b": BoolAttr.from_bool(bool(src.choose("b", 2)))}
        if src.choose("has_flag", 2):
            props["flag"] = UnitAttr()
        if src.choose("has_n", 2):
            props["n"] = iattr("n", i32)
        ops.append(GEN_OPS["vx.unit"].build(properties=props))
    elif g == "same":
        prod = test.TestOp(result_types=[i32, i32])
        ops.append(prod)
        ops.append(GEN_OPS["vx.same"].build(operands=[prod.results[0], prod.results[1]], result_types=[i32], properties={"k": iattr("k", i32)}))
    last = ops[-1]
    if last.results:
        ops.append(test.TestOp(operands=list(last.results)))
    return ModuleOp(ops)


def ctx():
    c = Context()
    for d in (builtin.Builtin, arith.Arith, cf.Cf, func.Func, memref.MemRef, scf.Scf, llvm.LLVM, vector.Vector, tensor.Tensor, affine.Affine, test.Test, VX):
        c.load_dialect(d)
    return c


def ctx_all():
    from xdsl.dialects import get_all_dialects

    c = Context()
    for n, f in get_all_dialects().items():
        c.register_dialect(n, f)
    return c


def corpus_text(rel):
    import os

    import xdsl

    root = os.path.join(os.path.dirname(os.path.dirname(os.path.abspath(xdsl.__file__))), "tests", "filecheck", "dialects")
    with open(os.path.join(root, rel)) as f:
        return f.read()


def int_range(t):
    if not isinstance(t, IntegerType):
        return -(1 << 63), (1 << 63) - 1  # index
    lo, hi = t.value_range()  # signless: both the signed and the unsigned reading are accepted (the constructor normalises)
    return lo, hi - 1


class Src:
    """symbolic inputs. With several integer payloads in one module, one of them at a time (a choice made by the engine, so
    every one gets its turn) ranges over its full type; the others range over [-9, 9] (clipped to their type)."""

    def __init__(self, ex, concrete, nfocus=0, fixed_ints=False):
        self.ex, self.c, self.nfocus, self.fixed_ints = ex, concrete, nfocus, fixed_ints
        self.count, self.focus = 0, None

    def choose(self, name, n):
        if self.c is not None:
            return int(self.c.get(name, 0))
        v = self.ex.choose(n, name)
        self.ex.named[name] = v
        return v

    def int(self, name, lo, hi):
        if self.fixed_ints:
            return min(max(4, lo), hi)  # obligations about names and attribute dictionaries keep the other integer payloads concrete
        if self.c is not None:
            return int(self.c.get(name, 0))
        if self.nfocus > 1:
            if self.focus is None:
                self.focus = self.choose("wide_payload", self.nfocus)
            if self.count != self.focus:
                lo, hi = max(lo, -9), min(hi, 9)
            self.count += 1
        return SymInt.var(name, lo, hi)

    def text(self, name, n, partition):
        if self.c is not None:
            return "".join(chr(self.c.get(f"{name}{i}", 97)) for i in range(n))
        return SymStr.var_split(name, n, partition)


def band(a, b):
    if a is False or b is False:
        return False
    if a is True:
        return b
    if b is True:
        return a
    return a & b


def same_attr(a, b):
    if type(a) is not type(b):
        return False
    if isinstance(a, ParametrizedAttribute):
        if len(a.parameters) != len(b.parameters):
            return False
        r = True
        for x, y in zip(a.parameters, b.parameters):
            r = band(r, same_attr(x, y))
            if r is False:
                return False
        return r
    if isinstance(a, Data):
        x, y = a.data, b.data
        if isinstance(x, (int, SymInt)) and isinstance(y, (int, SymInt)) and not isinstance(x, bool):
            return x == y
        if isinstance(x, (tuple, list)) and isinstance(y, (tuple, list)) and all(isinstance(e, Attribute) for e in list(x) + list(y)):
            if len(x) != len(y):
                return False
            r = True
            for p, q in zip(x, y):
                r = band(r, same_attr(p, q))
            return r
        if hasattr(x, "items") and hasattr(y, "items"):
            if sorted(x) != sorted(y):
                return False
            r = True
            for k in x:
                r = band(r, same_attr(x[k], y[k]))
            return r
        e = x == y
        return e if not isinstance(e, bool) or e else False
    return a == b


def _has_sym(a):
    if isinstance(a, ParametrizedAttribute):
        return any(_has_sym(p) for p in a.parameters)
    if isinstance(a, Data):
        d = a.data
        if isinstance(d, (tuple, list)):
            return any(_has_sym(e) if isinstance(e, Attribute) else isinstance(e, (SymInt, SymStr)) for e in d)
        if hasattr(d, "values") and not isinstance(d, (str, bytes)):
            return any(_has_sym(e) for e in d.values() if isinstance(e, Attribute))
        return isinstance(d, (SymInt, SymStr)) or type(d).__module__.startswith("vx.")  # proxies of the engine; everything else (ints, strings, enums, maps, ...) is concrete
    return False


def defaults_of(op):
    try:
        d = type(op).get_irdl_definition()
    except Exception:
        return {}, {}
    pd = {n: x.default_value for n, x in d.properties.items() if getattr(x, "default_value", None) is not None}
    ad = {n: x.default_value for n, x in d.attributes.items() if getattr(x, "default_value", None) is not None}
    return pd, ad


def snapshot(module):
    """structure (compared concretely) with the attribute objects kept apart (compared through the solver). An absent
    property or attribute with a declared default counts as that default."""
    vid, bid = {}, {}
    for op in module.walk():
        for r in op.results:
            vid[r] = len(vid)
        for reg in op.regions:
            for b in reg.blocks:
                bid[b] = len(bid)
                for a in b.args:
                    vid[a] = len(vid)
    struct, attrs = [], []

    def rec(op):
        pdef, adef = defaults_of(op)
        props = dict(op.properties)
        ats = dict(op.attributes)
        for k, dv in pdef.items():
            props.setdefault(k, dv)  # an absent property with a declared default means that default
        for k, dv in adef.items():
            ats.setdefault(k, dv)
        struct.append((op.name, tuple(vid.get(o, -1) for o in op.operands), tuple(str(r.type) for r in op.results), tuple(sorted(props)), tuple(sorted(ats)), tuple(bid.get(s_, -1) for s_ in op.successors),
                       len(op.regions)))
        attrs.append((op.name, [(k, props[k]) for k in sorted(props)] + [(k, ats[k]) for k in sorted(ats)]))
        for reg in op.regions:
            struct.append(("region", len(reg.blocks)))
            for b in reg.blocks:
                struct.append(("block", tuple(str(a.type) for a in b.args), len(b.ops)))
                for o in b.ops:
                    rec(o)

    rec(module)
    return struct, attrs


def same_module(m1, m2):
    """-> (True | False | SymBool, where)"""
    s1, a1 = snapshot(m1)
    s2, a2 = snapshot(m2)
    if s1 != s2:
        for x, y in zip(s1, s2):
            if x != y:
                return False, f"{x[0]}: structure {str(x)[:160]} vs {str(y)[:160]}"
        return False, f"different number of operations/blocks ({len(s1)} vs {len(s2)})"
    r = True
    for (name, l1), (_, l2) in zip(a1, a2):
        for (k, x), (_, y) in zip(l1, l2):
            e = same_attr(x, y)
            if e is False:
                return False, f"{name}: {k} differs"
            r = band(r, e)
    return r, ""


def print_module(m, generic):
    from vx.symcoll import SymDict

    st = SymStream()
    p = Printer(stream=st, print_generic_format=generic)
    p._ssa_names = [SymDict()]
    p._block_names = [SymDict()]
    p.print_op(m)
    return st.getvalue()


def _is_marker(v):
    return isinstance(v, int) and not isinstance(v, bool) and 100 <= v < 110


def symbolise(attr, src, names):
    """rebuilds an attribute, replacing marker integers by symbolic payloads of the element type and renamed symbols"""
    from xdsl.dialects.builtin import ArrayAttr, DenseArrayBase, DenseIntOrFPElementsAttr, DictionaryAttr, IndexType, StringAttr, SymbolRefAttr

    if isinstance(attr, IntegerAttr):
        if _is_marker(attr.value.data):
            lo, hi = int_range(attr.type)
            return IntegerAttr(src.int(f"k{attr.value.data}", lo, hi), attr.type)
        return attr
    if isinstance(attr, DenseArrayBase) and isinstance(attr.elt_type, IntegerType):
        vals = list(attr.get_values())
        if any(_is_marker(v) for v in vals):
            w = attr.elt_type.width.data
            return DenseArrayBase.from_list(attr.elt_type, [src.int(f"k{v}", -(1 << (w - 1)), (1 << (w - 1)) - 1) if _is_marker(v) else v for v in vals])
        return attr
    if isinstance(attr, DenseIntOrFPElementsAttr) and isinstance(attr.get_element_type(), (IntegerType, IndexType)):
        vals = list(attr.get_values())
        if any(_is_marker(v) for v in vals):
            lo, hi = int_range(attr.get_element_type())
            return DenseIntOrFPElementsAttr.from_list(attr.type, [src.int(f"k{v}", lo, hi) if _is_marker(v) else v for v in vals])
        return attr
    if isinstance(attr, ArrayAttr):
        new = [symbolise(a, src, names) for a in attr.data]
        return ArrayAttr(new) if any(x is not y for x, y in zip(new, attr.data)) else attr
    if isinstance(attr, DictionaryAttr):
        new = {k: symbolise(a, src, names) for k, a in attr.data.items()}
        return DictionaryAttr(new) if any(new[k] is not attr.data[k] for k in new) else attr
    if isinstance(attr, SymbolRefAttr) and names and attr.root_reference.data in names and not attr.nested_references.data:
        return SymbolRefAttr(StringAttr(names[attr.root_reference.data]))
    return attr


# corpus files (tests/filecheck/dialects/) whose modules round-trip with a discardable attribute on every operation on the
# tree as repaired; (path, size in characters). Read from the tree under test at run time.
CORPUS = [
    ("wasm/wat.mlir", 75), ("bigint/attrs.mlir", 184), ("arm/test_registers.mlir", 242), ("arm_neon/test_registers.mlir", 262),
    ("x86/x86_registers_valid.mlir", 282), ("llvm/array.mlir", 286), ("builtin/packed.mlir", 320), ("mod_arith/mod_arith.mlir", 352),
    ("builtin/parse_with_location.mlir", 363), ("rv32/rv32_assembly_emission.mlir", 367), ("stim/attrs.mlir", 422), ("riscv_func/lower_riscv_func_main.mlir", 436),
    ("emitc/emitc_attrs.mlir", 441), ("wasm/ops.mlir", 463), ("arith/arith_constant_fold_interp.mlir", 471), ("memref/canonicalize.mlir", 489),
    ("asm/asm_ops_canonicalize.mlir", 534), ("scf/yield_implicit.mlir", 563), ("asm/asm_ops.mlir", 585), ("shard/attrs.mlir", 591),
    ("polynomial/types.mlir", 630), ("py/ops.mlir", 640), ("complex/complex_attr.mlir", 645), ("rv64/rv64_assembly_emission.mlir", 646),
    ("x86_func/x86_func_ops.mlir", 666), ("arm_func/arm_func_ops.mlir", 675), ("ltl/ltl_op.mlir", 689), ("llvm/attrs.mlir", 754),
    ("arith/arith_cfg.mlir", 754), ("vector/vector_pure_ops.mlir", 784), ("builtin/module.mlir", 787), ("transform/transform_interpreter.mlir", 804),
    ("symref/ops.mlir", 808), ("ub/ops.mlir", 922), ("transform/transform_named_sequence.mlir", 949), ("printf/printf_basics.mlir", 1006),
    ("wasmssa/types.mlir", 1054), ("mpi/memref_compat.mlir", 1082), ("arith/arith_attrs.mlir", 1103), ("vector/vector_attrs.mlir", 1140),
    ("riscv_debug/riscv_debug_ops.mlir", 1222), ("cmath/cmath_ops.mlir", 1317), ("builtin/unrealized_conv_cast.mlir", 1337), ("func/func_ops_generic.mlir", 1369),
    ("llvm/inline_asm.mlir", 1402), ("dmp/canonicalize.mlir", 1482), ("dmp/ops.mlir", 1540), ("snitch/snitch_ops.mlir", 1612),
    ("arm/test_ops.mlir", 1791), ("equivalence/equivalence_ops.mlir", 1843), ("polynomial/attrs.mlir", 1873), ("ptr/canonicalize.mlir", 1919),
    ("smt/bv_ops.mlir", 2029), ("llvm/global.mlir", 2125), ("varith/varith_ops.mlir", 2205), ("x86/canonicalize.mlir", 2315),
    ("riscv_cf/canonicalize.mlir", 2440), ("ematch/ops.mlir", 2443), ("riscv_func/riscv_func_ops.mlir", 2453), ("bigint/ops.mlir", 2561),
    ("emitc/emitc_ops.mlir", 2654), ("bufferization/bufferization_ops.mlir", 2875), ("math_xdsl/math_xdsl_ops.mlir", 2919), ("riscv_func/lower_riscv_func.mlir", 2920),
    ("snitch/snitch_to_riscv_lowering.mlir", 2970), ("rv32/rv32_ops.mlir", 3233), ("x86/x86_memory_effects.mlir", 3295), ("riscv_cf/assembly_emission.mlir", 3351),
    ("llvm/icmp.mlir", 3367), ("polynomial/ops.mlir", 3395), ("arm_neon/test_ops.mlir", 3470), ("accfg/accfg_ops.mlir", 3725),
    ("builtin/attrs.mlir", 3728), ("shard/ops.mlir", 3853), ("emitc/emitc_types.mlir", 3902), ("llvm/pointers.mlir", 4014),
    ("rv64/rv64_ops.mlir", 4025), ("llvm/example.mlir", 4360), ("func/func_ops.mlir", 4541), ("affine/examples.mlir", 4768),
    ("llvm/arithmetic.mlir", 4808), ("omp/attrs.mlir", 4835), ("comb/comb_ops.mlir", 4899), ("cf/cf_ops.mlir", 5161),
    ("scf/canonicalize.mlir", 5691), ("memref_stream/canonicalize.mlir", 5837), ("llvm/func.mlir", 6069), ("llvm/arith_vector_types.mlir", 6136),
    ("complex/ops.mlir", 6581), ("arith/arith_ops_custom.mlir", 7009), ("transform/transform_ops.mlir", 7212), ("arith/canonicalize.mlir", 7234),
    ("affine/affine_ops.mlir", 7348), ("snitch_runtime/snitch_runtime_ops.mlir", 7457), ("transform/transform_types.mlir", 7482), ("stim/stim_ops.mlir", 7607),
    ("fsm/fsm_op.mlir", 7672), ("csl/csl-wrapper-ops.mlir", 7759), ("snitch_stream/convert_snitch_stream_to_snitch.mlir", 7808), ("dlti/attrs.mlir", 7916),
    ("complex/canonicalize.mlir", 8018), ("memref/memref_ops.mlir", 8845), ("tensor/ops.mlir", 8846), ("scf/scf_ops.mlir", 9637),
    ("gpu/ops.mlir", 9816), ("vector/vector_ops.mlir", 10002), ("acc/attrs.mlir", 10686), ("llvm/llvm_intrinsics.mlir", 11254),
    ("wasmssa/ops.mlir", 12292), ("math/math_ops_custom.mlir", 15387),
]


def build_module(ob, src):
    if "gen" in ob:
        return gen_module(ob, src)
    if "corpus" in ob:
        return Parser(ctx_all(), corpus_text(ob["corpus"])).parse_module()
    from xdsl.dialects.builtin import StringAttr

    m = Parser(ctx(), "builtin.module {" + MODULES[ob["module"]] + "}").parse_module()
    names = {n: src.text(f"name_{n}_", ob.get("name_len", 1), NAME_PARTITION) for n in ob.get("sym_names", ())}
    seen = {}
    extra = {(i, n): (k, var) for i, n, k, var in EXTRA_SYMS.get(ob["module"], ())}
    enum_sel = None
    for op in list(m.walk()):
        idx = seen.get(op.name, 0)
        seen[op.name] = idx + 1
        for k, v in list(op.properties.items()):
            if extra.get((idx, op.name), (None,))[0] == k:
                lo, hi = int_range(v.type)
                op.properties[k] = IntegerAttr(src.int(extra[(idx, op.name)][1], lo, hi), v.type)
            elif k == "alignment" and isinstance(v, IntegerAttr):
                op.properties[k] = IntegerAttr(src.int(f"align_{op.name.split('.')[-1]}{idx}", 0, 1 << 40), v.type)
            elif k == "predicate" and op.name in ("arith.cmpi", "arith.cmpf", "llvm.icmp") and ob.get("sym_pred"):
                op.properties[k] = IntegerAttr(src.int(f"pred{idx}", 0, 15 if op.name == "arith.cmpf" else 9), v.type)
            elif k == "sym_name" and isinstance(v, StringAttr) and v.data in names:
                op.properties[k] = StringAttr(names[v.data])
            elif ob.get("sym_enum") and hasattr(type(v), "enum_type") and isinstance(v.data, frozenset):
                members = list(type(v).enum_type)
                variants = [[], *[[x] for x in members], members, members[:2]]
                if enum_sel is None:
                    enum_sel = src.choose("enum_sel", 8)
                op.properties[k] = type(v)(variants[(enum_sel + idx) % len(variants)])
            else:
                nv = symbolise(v, src, names)
                if nv is not v:
                    op.properties[k] = nv
        for k, v in list(op.attributes.items()):
            nv = symbolise(v, src, names)
            if nv is not v:
                op.attributes[k] = nv
    return m


# discardable attributes named like a property that the tree is known to lose in custom form (known_findings.json); the
# general variants leave these out and a dedicated obligation per entry keeps reporting them
KNOWN_CLASH = {("*", "operandSegmentSizes"), ("func.func", "sym_name"), ("func.func", "function_type"), ("func.func", "sym_visibility"), ("func.func", "arg_attrs"),
               ("memref.alloc", "alignment"), ("memref.alloca", "alignment"), ("llvm.*", "*"),
               ("vector.transfer_read", "in_bounds"), ("vector.transfer_read", "permutation_map"), ("vector.transfer_write", "in_bounds"), ("vector.transfer_write", "permutation_map")}


def toggle_units(m, src):
    """optional UnitAttr properties (flags such as isExact, inbounds, volatile_, constant): all present / all absent / as written"""
    from xdsl.dialects.builtin import UnitAttr
    from xdsl.irdl import OptionalDef

    sel = src.choose("unit_flags", 3)
    if sel == 0:
        return
    for op in list(m.walk()):
        if not hasattr(type(op), "get_irdl_definition"):
            continue
        for name, pdef in type(op).get_irdl_definition().properties.items():
            if isinstance(pdef, OptionalDef) and pdef.constr.verifies(UnitAttr()) and not pdef.constr.verifies(IntegerAttr(0, 1)):
                if sel == 1:
                    op.properties[name] = UnitAttr()
                else:
                    op.properties.pop(name, None)


def toggle_bools(m, src):
    """arrays of booleans among the properties (in_bounds, ...): as written / all true / all false / alternating"""
    from xdsl.dialects.builtin import ArrayAttr, BoolAttr, IntegerType

    sel = src.choose("bool_pattern", 5)
    if sel == 0:
        return
    for op in list(m.walk()):
        for k, v in list(op.properties.items()):
            if isinstance(v, ArrayAttr) and v.data and all(isinstance(e, IntegerAttr) and e.type == IntegerType(1) for e in v.data):
                n = len(v.data)
                vals = {1: [True] * n, 2: [False] * n, 3: [i % 2 == 0 for i in range(n)], 4: [i % 2 == 1 for i in range(n)]}[sel]
                op.properties[k] = ArrayAttr([BoolAttr.from_bool(b) for b in vals])


def add_discardable(m, src, only=None, clash=True):
    """every operation gets a discardable attribute with one shared symbolic payload, and - where the operation still
    verifies - discardable attributes named like each of its properties (a name coincidence the two dictionaries allow)"""
    from xdsl.dialects.builtin import StringAttr, i32

    lo, hi = int_range(i32)
    shared = IntegerAttr(src.int("extra", lo, hi), i32)
    for op in list(m.walk()):
        if op is m:
            continue
        if only is None:
            op.attributes["vx.extra"] = shared
        for k in list(op.properties) if clash else ():
            known = (op.name, k) in KNOWN_CLASH or ("*", k) in KNOWN_CLASH or (op.name.startswith("llvm.") and ("llvm.*", "*") in KNOWN_CLASH)
            if k in op.attributes or (known if only is None else [op.name, k] not in [list(x) for x in only]):
                continue
            op.attributes[k] = StringAttr("clash")
            try:
                op.verify_()
                if hasattr(type(op), "get_irdl_definition"):
                    type(op).get_irdl_definition().verify(op)
            except Exception:
                del op.attributes[k]


def harness(ob, concrete=None):
    def h(ex):
        symstr.RENDER_INTS[0] = True
        symstr.SYM_BYTEARRAY[0] = True
        symstr.SYM_DICT[0] = True
        symstr.HAVOC_FLOAT[0] = False
        mk_ctx = ctx_all if "corpus" in ob else ctx
        src = Src(ex, concrete, FOCUS.get(ob.get('gen') or ob.get('module'), 0), fixed_ints=bool(ob.get('sym_names') or ob.get('attrs') or ob.get('clash_only') or ob.get('units')))
        m = build_module(ob, src)
        if ob.get("units"):
            toggle_units(m, Src(ex, concrete))
        if ob.get("bools"):
            toggle_bools(m, Src(ex, concrete))
        if ob.get("attrs"):
            add_discardable(m, Src(ex, concrete), clash="corpus" not in ob)
        if ob.get("clash_only"):
            add_discardable(m, Src(ex, concrete, fixed_ints=True), only=ob["clash_only"])
        try:
            m.verify()
        except VerifyException:
            if concrete is not None:
                return True
            raise Infeasible()  # the property speaks about verified modules
        custom = print_module(m, False)
        if ex is not None:
            ex.note("text", repr(custom)[:300])
        try:
            m2 = Parser(mk_ctx(), custom).parse_module()
            m2.verify()
        except (ParseError, VerifyException) as e:
            return {"prop": False, "detail": f"the custom form does not parse back: {type(e).__name__}: {str(e)[:200]!r}" if concrete is not None else "the custom form does not parse back"}
        r, where = same_module(m, m2)
        if r is False:
            return {"prop": False, "detail": f"the custom form parses to a different module ({where})"}
        again = print_module(m2, False)
        e2 = custom == again
        if e2 is False:
            return {"prop": False, "detail": "printing the parsed module in custom form again gives different text"}
        r = band(r, e2)
        generic = print_module(m, True)
        try:
            m3 = Parser(mk_ctx(), generic).parse_module()
        except (ParseError, VerifyException):
            return {"prop": False, "detail": "the generic form does not parse back"}
        r3, where = same_module(m2, m3)
        if r3 is False:
            return {"prop": False, "detail": f"the custom and the generic forms parse to different modules ({where})"}
        return band(r, r3)

    return h


SYM_NAMES = {"llvm_func": ("external_func",), "llvm_global": ("y",), "func": ("ext",), "func2": ("pub",), "global": ("g",), "module": ("inner",), "cf": ("f",)}
# number of integer payload sites per module (see Src)
FOCUS = {"typed": 3, "dflt_group": 2, "dflt_dict": 2, "dense": 5, "switch": 3, "func2": 2, "arith_const_index_i8": 2, "arith_const_i1": 2, "module": 2, "func_decl_attrs": 2, "global": 2, "arith2": 2,
         "scf": 2, "subview": 2, "arith_const_i32": 1, "llvm_const": 3, "llvm_mem": 2, "llvm_ldst": 5, "vector": 3}
GENS = ["dflt_bare", "dflt_group", "dflt_dict", "dense", "sym", "str", "typed", "var", "unit", "same"]


def bounds(tier):
    return {"catalogue_modules": sorted(k for k in MODULES if k != "probe"), "generated_operations": sorted(GEN_OPS),
            "symbolic_payloads": "integer constants, dense/array elements, switch case values, static offsets/sizes/strides, alignments, argument/result/discardable attribute values: full range of their type; "
                                 "comparison predicates: all; symbol names and strings: 1-2 cells over ASCII (12 classes)",
            "discardable_attributes": "one variant of every module adds a discardable attribute with a symbolic i32 payload to every operation and, where the operation still verifies, discardable attributes named like its properties",
            "corpus": "modules of tests/filecheck/dialects files (quick: files up to 4000 characters; thorough: up to 16000) with one symbolic discardable attribute on every operation; everything else in them is concrete",
            "enumerated": "presence of optional attributes/operands/results, variadic counts 0-2, overflow/fast-math flag sets (8 variants), element counts 0-2"}


def obligations(tier):
    th = tier == "thorough"
    obs = []
    for k in MODULES:
        if k == "probe":
            continue
        obs.append({"id": f"C05/{k}", "module": k, "weight": 5})
        if k in SYM_NAMES:
            obs.append({"id": f"C05/{k}/names", "module": k, "sym_names": SYM_NAMES[k], "name_len": 2 if th else 1, "weight": 8})
    for k in MODULES:
        if k != "probe":
            obs.append({"id": f"C05/{k}/attrs", "module": k, "attrs": True, "weight": 6})
    for g in ("dflt_group", "typed", "unit", "same", "var"):
        obs.append({"id": f"C05/gen/{g}/attrs", "gen": g, "attrs": True, "len": 1, "weight": 6})
    obs.append({"id": "C05/clash_known/segment_sizes", "module": "cf", "clash_only": [["cf.cond_br", "operandSegmentSizes"]], "weight": 2})
    obs.append({"id": "C05/clash_known/func", "module": "func", "clash_only": [["func.func", n] for n in ("sym_name", "function_type", "sym_visibility", "arg_attrs")], "weight": 2})
    obs.append({"id": "C05/clash_known/alignment", "module": "memref", "clash_only": [["memref.alloc", "alignment"]], "weight": 2})
    obs.append({"id": "C05/clash_known/vector_transfer", "module": "vector_transfer", "clash_only": [["vector.transfer_read", "in_bounds"]], "weight": 2})
    obs.append({"id": "C05/clash_known/llvm", "module": "llvm_agg", "clash_only": [["llvm.extractvalue", "position"]], "weight": 2})
    obs.append({"id": "C05/cmp1/pred", "module": "cmp1", "sym_pred": True, "sym_enum": True, "weight": 8})
    obs.append({"id": "C05/arith_float/flags", "module": "arith_float", "sym_enum": True, "weight": 8})
    obs.append({"id": "C05/arith_bin/flags", "module": "arith_bin", "sym_enum": True, "weight": 5})
    for k in ("llvm_arith", "llvm_mem", "llvm_ldst", "llvm_global", "global", "llvm_func"):
        obs.append({"id": f"C05/{k}/units", "module": k, "units": True, "weight": 4})
    obs.append({"id": "C05/vector_transfer/bools", "module": "vector_transfer", "bools": True, "weight": 4})
    obs.append({"id": "C05/llvm_arith/flags", "module": "llvm_arith", "sym_enum": True, "sym_pred": True, "weight": 5})
    for g in GENS:
        o = {"id": f"C05/gen/{g}", "gen": g, "weight": 6}
        if g in ("sym", "str"):
            o["len"] = 2
        if g == "dense":
            for nx, ny, hz in ((0, 0, 0), (1, 1, 0), (2, 1, 1), (1, 2, 0), (2, 0, 1)) + (((2, 2, 1), (0, 2, 1)) if th else ()):
                obs.append(dict(o, id=f"C05/gen/dense/{nx}{ny}{hz}", counts=(nx, ny, hz)))
            continue
        obs.append(o)
    for rel, size in CORPUS:
        if th or size <= 4000:
            obs.append({"id": f"C05/corpus/{rel}", "corpus": rel, "attrs": True, "weight": 3 + size // 1000})
    for o in obs:
        o.setdefault("budget_s", 240 if not th else 900)
    return obs


def run(ob, tier, stats, exclude):
    return decide(harness(ob), timeout_ms=30000, budget_s=ob.get('budget_s', 240), stats=stats, exclude=exclude, ob=ob, max_paths=100000, fuel=4000000)


def replay(ob, inputs):
    try:
        v = harness(ob, concrete=inputs)(None)
    except Exception as e:
        return {"violates": True, "observed": f"exception {type(e).__name__}: {str(e)[:300]}"}
    if isinstance(v, dict):
        return {"violates": not v["prop"], "observed": v["detail"]}
    return {"violates": not bool(v), "observed": "differs" if not v else "agrees"}
