"""C22 - RISC-V backend output computes the source results and keeps callee state."""
from __future__ import annotations

import z3

from vx import refprog, rvsem, tv
from vx.framework import decide
from vx.symx import SymInt

from xdsl.context import Context
from xdsl.dialects import arith, builtin, func, riscv, riscv_func, rv32, test
from xdsl.dialects.builtin import ModuleOp
from xdsl.ir import Block, Region
from xdsl.parser import Parser
from xdsl.utils.exceptions import DiagnosticException, PassFailedException, VerifyException

LEVEL = "translation_validation"
EXPLANATION = (
    "(a) RISC-V canonicalization alone: snippets of 1-3 riscv ops whose rv32.li constants and instruction immediates are "
    "SYMBOLIC (the ~40 patterns fork on them) and whose register inputs are symbolic run through the real canonicalize pass; "
    "before and after are executed on an RV32 reference machine (SSA values of unallocated registers carry the data, memory is "
    "a byte array) and z3 decides equal results and equal final memory for all constants/immediates/inputs. (b) pipeline: "
    "func/arith programs are lowered with convert-func-to-riscv-func, convert-arith-to-riscv, reconcile-unrealized-casts, "
    "riscv-allocate-registers, riscv-lower-parallel-mov (+canonicalize), the allocated riscv_func body is executed on the "
    "register-file machine with symbolic argument registers and z3 decides that a0 holds the source result (reference "
    "semantics of the arith program). (c) prologue/epilogue: functions clobbering each callee-saved register are passed through "
    "riscv-prologue-epilogue-insertion and executed with a symbolic stack: sp and all s/fs registers restored, caller stack untouched."
)
FUNCTIONS = ["xdsl.transforms.canonicalization_patterns.riscv.*", "xdsl.dialects.riscv canonicalization traits / py_operation of shift ops",
             "xdsl.backend.riscv.lowering.convert_arith_to_riscv", "convert_func_to_riscv_func", "xdsl.backend.riscv.register_allocation", "riscv_lower_parallel_mov",
             "xdsl.backend.riscv.prologue_epilogue_insertion"]
ASSUMPTIONS = ["RV32IM(+F/D moves) reference semantics vx/rvsem.py written against the ISA manual", "li loads the 32-bit two's complement pattern of its immediate",
               "a canonicalization that raises a diagnostic (e.g. an out-of-range immediate) is a reported failure, not a wrong result"]
OUTSIDE = ["snitch/stream extensions", "float arithmetic programs and float constant lowering (li + fcvt) in the pipeline: the reference machine has no FP registers", "scf lowering in the pipeline", "assembly text emission"]
STUBS = []

I32 = (-(1 << 31), (1 << 31) - 1)
I12 = (-2048, 2047)

# ---- (a) canonicalization snippets: name -> builder(ex, concrete) returning (module, result value names) -------------------
BINOPS = {"add": riscv.AddOp, "sub": riscv.SubOp, "mul": riscv.MulOp, "and": riscv.AndOp, "or": riscv.OrOp, "xor": riscv.XorOp, "div": riscv.DivOp}
IMMOPS = {"addi": riscv.AddiOp, "andi": riscv.AndiOp, "ori": riscv.OriOp, "xori": riscv.XoriOp}
SHIFTS = {"slli": rv32.SlliOp, "srli": rv32.SrliOp, "srai": rv32.SraiOp}


class Vars:
    def __init__(self, concrete):
        self.c = concrete

    def i(self, name, lo, hi):
        if self.c is not None:
            return self.c.get(name, max(lo, min(hi, 0)))
        return SymInt.var(name, lo, hi)


def snippet_specs():
    specs = {}
    for n in BINOPS:
        for pat in ("xc", "cx", "cc", "xx", "xz", "zx", "xy"):
            specs[f"{n}/{pat}"] = ("bin", n, pat)
    for n in IMMOPS:
        for pat in ("x", "c", "z"):
            specs[f"{n}/{pat}"] = ("imm", n, pat)
        specs[f"{n}({n})/x"] = ("imm2", n, "x")
    for n in SHIFTS:
        for pat in ("x", "c"):
            specs[f"{n}/{pat}"] = ("shift", n, pat)
    specs["sub(addi)/same"] = ("subaddi", None, None)
    specs["xor(xor)/self"] = ("xorself", None, None)
    specs["mv/chain"] = ("mv", None, None)
    specs["lw(addi)"] = ("lw", None, None)
    specs["sw(addi)"] = ("sw", None, None)
    specs["add/same_to_mul2"] = ("addsame", None, None)
    specs["li0"] = ("li0", None, None)
    return specs


def build_snippet(spec, V):
    kind, n, pat = spec
    src = test.TestOp(result_types=[riscv.Registers.UNALLOCATED_INT, riscv.Registers.UNALLOCATED_INT])
    x, y = src.results
    ops = [src]
    k = [0]

    def C():
        k[0] += 1
        op = rv32.LiOp(V.i(f"c{k[0]}", *I32))
        ops.append(op)
        return op.rd

    def Z():
        op = rv32.GetRegisterOp(riscv.Registers.ZERO)
        ops.append(op)
        return op.res

    def operand(ch):
        return {"x": lambda: x, "y": lambda: y, "c": C, "z": Z}[ch]()

    if kind == "bin":
        a, b = operand(pat[0]), operand(pat[1])
        r = BINOPS[n](a, b)
        ops.append(r)
        outs = [r.rd]
    elif kind == "imm":
        r = IMMOPS[n](operand(pat), V.i("imm", *I12))
        ops.append(r)
        outs = [r.rd]
    elif kind == "imm2":
        r1 = IMMOPS[n](x, V.i("imm1", *I12))
        r2 = IMMOPS[n](r1.rd, V.i("imm2", *I12))
        ops += [r1, r2]
        outs = [r2.rd]
    elif kind == "shift":
        r = SHIFTS[n](operand(pat), V.i("sh", 0, 31))
        ops.append(r)
        outs = [r.rd]
    elif kind == "subaddi":
        r1 = riscv.AddiOp(x, V.i("imm", *I12))
        r2 = riscv.SubOp(r1.rd, x)
        ops += [r1, r2]
        outs = [r2.rd]
    elif kind == "xorself":
        r1 = riscv.XorOp(x, y)
        r2 = riscv.XorOp(r1.rd, y)
        r3 = riscv.XoriOp(x, V.i("imm1", *I12))
        r4 = riscv.XoriOp(r3.rd, V.i("imm2", *I12))
        ops += [r1, r2, r3, r4]
        outs = [r2.rd, r4.rd]
    elif kind == "mv":
        c = C()
        m1 = riscv.MVOp(c)
        m2 = riscv.MVOp(m1.rd)
        r = riscv.AddOp(x, m2.rd)
        ops += [m1, m2, r]
        outs = [r.rd, m2.rd]
    elif kind == "lw":
        a = riscv.AddiOp(x, V.i("imm1", *I12))
        l = riscv.LwOp(a.rd, V.i("imm2", *I12))
        ops += [a, l]
        outs = [l.rd]
    elif kind == "sw":
        a = riscv.AddiOp(x, V.i("imm1", *I12))
        s_ = riscv.SwOp(a.rd, y, V.i("imm2", *I12))
        ops += [a, s_]
        outs = []
    elif kind == "addsame":
        r = riscv.AddOp(x, x)
        ops.append(r)
        outs = [r.rd]
    elif kind == "li0":
        c = rv32.LiOp(V.i("c1", -1, 1))
        r = riscv.AddOp(c.rd, x)
        ops += [c, r]
        outs = [r.rd, c.rd]
    else:
        raise KeyError(kind)
    sink = test.TestOp(operands=outs)
    ops.append(sink)
    return ModuleOp(ops), sink


def execute(m, mach):
    """run the straight-line riscv ops of the module body; returns terms of the sink's operands"""
    sink = None
    for op in m.body.block.ops:
        if op.name == "test.op":
            if op.results:
                for r in op.results:
                    mach.read(r)  # names the symbolic inputs
            else:
                sink = op
            continue
        rvsem.exec_op(mach, op)
    return [mach.read(v) for v in sink.operands] if sink is not None else None


_CTX = None


def ctx():
    global _CTX
    if _CTX is None:
        from xdsl.dialects import riscv_cf, riscv_scf, rv64, scf, cf

        _CTX = Context()
        for d in (builtin.Builtin, arith.Arith, func.Func, riscv.RISCV, rv32.RV32, rv64.RV64, riscv_func.RISCV_Func, test.Test, scf.Scf, cf.Cf):
            _CTX.load_dialect(d)
    return _CTX


def canon_harness(ob, concrete=None):
    spec = snippet_specs()[ob["snippet"]]

    def h(ex):
        from xdsl.transforms.canonicalize import CanonicalizePass

        V = Vars(concrete)
        m, sink = build_snippet(spec, V)
        m.verify()
        inputs = m.body.block.first_op.results
        m1 = rvsem.Machine(32, "in")
        # shared symbolic inputs: the two test.op results
        xin = [z3.BitVec(f"x{i}", 32) for i in range(len(inputs))] if concrete is None else [z3.BitVecVal(concrete.get(f"x{i}", 0), 32) for i in range(len(inputs))]
        if ex is not None and concrete is None:
            for i, t in enumerate(xin):
                ex.named[f"x{i}"] = SymInt.from_bv(t)
        for v, t in zip(inputs, xin):
            m1.env[id(v)] = t
        mem0 = m1.mem
        before = execute(m, m1)
        try:
            CanonicalizePass().apply(ctx(), m)
            m.verify()
        except (DiagnosticException, VerifyException, PassFailedException) as e:
            if ex is not None:
                ex.note("pass_failed", type(e).__name__)
            return True
        m2 = rvsem.Machine(32, "in")
        m2.mem = mem0
        inputs2 = m.body.block.first_op.results
        for v, t in zip(inputs2, xin):
            m2.env[id(v)] = t
        after = execute(m, m2)
        if before is None or after is None or len(before) != len(after):
            return z3.BoolVal(False)
        props = [a == b for a, b in zip(before, after)]
        probe = z3.BitVec("probe_addr", 32) if concrete is None else z3.BitVecVal(concrete.get("probe_addr", 0), 32)
        if ex is not None and concrete is None:
            ex.named["probe_addr"] = SymInt.from_bv(probe)
        props.append(z3.Select(m1.mem, probe) == z3.Select(m2.mem, probe))  # final memory agrees at every address
        return z3.And(*props) if props else z3.BoolVal(True)

    return h


# ---- (b) pipeline -----------------------------------------------------------------------------
PIPE_PROGRAMS = {
    "addmul": "%s = arith.addi %a, %b : i32\n %m = arith.muli %s, %a : i32\n func.return %m : i32",
    "consts": "%c = arith.constant 1000 : i32\n %s = arith.addi %a, %c : i32\n %d = arith.constant 1001 : i32\n %m = arith.muli %s, %d : i32\n func.return %m : i32",
    "bitops": "%x = arith.andi %a, %b : i32\n %y = arith.ori %x, %a : i32\n %z = arith.xori %y, %b : i32\n func.return %z : i32",
    "subshift": "%c = arith.constant 3 : i32\n %x = arith.subi %a, %b : i32\n %y = arith.shli %x, %c : i32\n %z = arith.shrsi %y, %c : i32\n func.return %z : i32",
    "divrem": "%x = arith.divsi %a, %b : i32\n %y = arith.remsi %a, %b : i32\n %z = arith.addi %x, %y : i32\n func.return %z : i32",
    "reuse": "%x = arith.addi %a, %a : i32\n %y = arith.muli %x, %x : i32\n %z = arith.subi %y, %a : i32\n %w = arith.addi %z, %b : i32\n func.return %w : i32",
}
# several results: the return values travel through one parallel move (swap = cycle, duplicates = fan-out)
MULTI = {"ret_swap": ("func.return %b, %a : i32, i32", 2), "ret_swap_dup": ("func.return %b, %a, %a : i32, i32, i32", 3), "ret_dup_swap": ("func.return %a, %b, %a, %b : i32, i32, i32, i32", 4),
         "ret_rot_dup": ("%s = arith.addi %a, %b : i32\n func.return %b, %s, %a, %b : i32, i32, i32, i32", 4), "ret_fan": ("func.return %b, %b, %b : i32, i32, i32", 3)}
MULTI = {k: v for k, v in MULTI.items() if v[1] <= 2}  # the RISC-V calling convention of the backend returns at most two values
CALLS = {"call_swap_dup": ("func.func private @g(i32, i32, i32) -> i32", "%r = func.call @g(%b, %a, %a) : (i32, i32, i32) -> i32\n func.return %r : i32"),
         "call_dup_swap4": ("func.func private @g(i32, i32, i32, i32) -> i32", "%r = func.call @g(%a, %a, %b, %a) : (i32, i32, i32, i32) -> i32\n %s = arith.addi %r, %b : i32\n func.return %s : i32"),
         "call_rot_fan": ("func.func private @g(i32, i32, i32, i32) -> i32", "%s = arith.addi %a, %b : i32\n %r = func.call @g(%b, %s, %a, %b) : (i32, i32, i32, i32) -> i32\n func.return %r : i32"),
         "call_twice": ("func.func private @g(i32, i32) -> i32", "%r = func.call @g(%b, %a) : (i32, i32) -> i32\n %t = func.call @g(%r, %r) : (i32, i32) -> i32\n func.return %t : i32")}
for _k, (_pre, _body) in CALLS.items():
    PIPE_PROGRAMS[_k] = _body
for _k, (_body, _n) in MULTI.items():
    PIPE_PROGRAMS[_k] = _body
for _p, _nm in enumerate(["eq", "ne", "slt", "sle", "sgt", "sge", "ult", "ule", "ugt", "uge"]):
    PIPE_PROGRAMS[f"cmpi_{_nm}"] = f"%c = arith.cmpi {_nm}, %a, %b : i32\n func.return %c : i1"
PIPELINES = {"ssa": "convert-func-to-riscv-func,convert-arith-to-riscv,reconcile-unrealized-casts",
             "plain": "convert-func-to-riscv-func,convert-arith-to-riscv,reconcile-unrealized-casts,riscv-allocate-registers,riscv-lower-parallel-mov",
             "canon": "convert-func-to-riscv-func,convert-arith-to-riscv,reconcile-unrealized-casts,canonicalize,riscv-allocate-registers,canonicalize,riscv-lower-parallel-mov"}


def pipe_harness(ob, concrete=None):
    def h(ex):
        from xdsl.transforms import get_all_passes

        rt = "i1" if ob["prog"].startswith("cmpi_") else "i32"
        if ob["prog"] in MULTI:
            rt = "(" + ", ".join(["i32"] * MULTI[ob["prog"]][1]) + ")"
        prelude = CALLS[ob["prog"]][0] + "\n" if ob["prog"] in CALLS else ""
        text = "builtin.module { " + prelude + "func.func @f(%a: i32, %b: i32) -> " + rt + " {\n " + PIPE_PROGRAMS[ob["prog"]] + "\n} }"
        m = Parser(ctx(), text).parse_module()
        # symbolic constants (markers)
        for op in list(m.walk()):
            if isinstance(op, arith.ConstantOp) and isinstance(op.value.value.data, int) and op.value.value.data in (1000, 1001):
                name = f"c{op.value.value.data}"
                if concrete is not None:
                    payload = concrete.get(name, 0)
                elif ob["pipe"] == "canon":
                    # the canonicalizing pipeline renders constants into text (asm comments): boundary values, enumerated
                    cands = [0, 1, -1, 2047, 2048, -2048, -2049, (1 << 31) - 1, -(1 << 31), 4096]
                    payload = cands[ex.choose(len(cands), name)]
                    ex.named[name] = z3.BitVecVal(payload, 32)
                else:
                    payload = SymInt.var(name, *I32)
                op.properties["value"] = builtin.IntegerAttr(payload, op.result.type)
        m.verify()
        f = next(o for o in m.walk() if isinstance(o, func.FuncOp) and o.sym_name.data == "f")
        if concrete is None:
            args = tv.arg_terms(f)
        else:
            args = tv.concrete_args(f, concrete)
        before = tv.meaning(m, "f", args)
        try:
            for p in PIPELINES[ob["pipe"]].split(","):
                get_all_passes()[p]()().apply(ctx(), m)
            m.verify()
        except (DiagnosticException, PassFailedException, NotImplementedError) as e:
            if ex is not None:
                ex.note("pass_failed", type(e).__name__)
            return True
        except ValueError as e:
            if "Cannot lower" in str(e):  # the backend's own refusal
                return True
            raise
        rf = next(o for o in m.walk() if isinstance(o, riscv_func.FuncOp) and o.sym_name.data == "f")
        mach = rvsem.Machine(32, "m")
        mach.x["a0"], mach.x["a1"] = args[0], args[1]
        mach.init_x["a0"], mach.init_x["a1"] = args[0], args[1]
        ret = None
        blk = rf.body.blocks.first
        trace2, ncalls, abi_ok = [], 0, []
        for op in blk.ops:
            if op.name == "riscv_func.return":
                ret = op
                break
            if op.name == "riscv_func.call":
                # an external call: arguments are read from a0.. (allocated mode) and observed; results are the same uninterpreted
                # functions the reference uses; caller-saved registers are clobbered
                cargs = []
                for k_, v in enumerate(op.args):
                    if getattr(v.type, "is_allocated", False):
                        abi_ok.append(z3.BoolVal(v.type.register_name.data == f"a{k_}"))
                    cargs.append(mach.read(v))
                name = op.callee.root_reference.data
                trace2.append(refprog.Effect("call", name, cargs))
                allocated = any(getattr(v.type, "is_allocated", False) for v in list(op.args) + list(op.ress))
                if allocated:
                    for r in [f"a{i}" for i in range(8)] + [f"t{i}" for i in range(7)] + ["ra"]:
                        mach.wx(r, z3.BitVec(f"m_clobber{ncalls}_{r}", 32))
                for i_, r in enumerate(op.ress):
                    fsym = z3.Function(f"ext_{name}_{i_}", z3.IntSort(), *[a_.sort() for a_ in cargs], z3.BitVecSort(32))
                    mach.write(r, fsym(z3.IntVal(ncalls), *cargs))
                    if getattr(r.type, "is_allocated", False):
                        abi_ok.append(z3.BoolVal(r.type.register_name.data == f"a{i_}"))
                ncalls += 1
                continue
            rvsem.exec_op(mach, op)
        if ret is None:
            raise tv.InvalidIR("no return in lowered function")
        dfd = before[1]
        props = [z3.Implies(dfd, refprog.same_trace(before[2], trace2))] + abi_ok
        for k_ in range(len(before[0])):
            out = mach.read(ret.operands[k_]) if len(ret.operands) > k_ else mach.rx(f"a{k_}")
            res = before[0][k_]
            if res.size() < 32:
                # an i1 lives in a register as 0/1
                res = z3.ZeroExt(32 - res.size(), res)
            props.append(z3.Implies(dfd, out == res))
            if len(ret.operands) > k_ and getattr(ret.operands[k_].type, "is_allocated", False):
                # the k-th result must be in the k-th argument register
                props.append(z3.BoolVal(ret.operands[k_].type.register_name.data == f"a{k_}"))
        # callee-saved registers untouched by a leaf function without prologue
        for r in rvsem.CALLEE_SAVED:
            if r in mach.touched_x:
                props.append(z3.Implies(dfd, mach.x[r] == mach.init_x[r]))
        return z3.And(*props)

    return h


# ---- (c) prologue / epilogue ---------------------------------------------------------------------
def prologue_harness(ob, concrete=None):
    def h(ex):
        from xdsl.backend.riscv.prologue_epilogue_insertion import PrologueEpilogueInsertion

        n = ob["n"]
        regs = [f"s{i}" for i in range(12) if (n >> i) & 1]
        fregs = [f"fs{i}" for i in range(12) if (ob.get("fn", 0) >> i) & 1]
        lines = []
        prev = "%a"
        for k, r in enumerate(regs):
            lines.append(f"%v{k} = riscv.addi {prev}, {k + 1} : (!riscv.reg<{'a0' if k == 0 else regs[k - 1]}>) -> !riscv.reg<{r}>")
            prev = f"%v{k}"
        for k, r in enumerate(fregs):
            lines.append(f"%f{k} = riscv.fmv.d %fa : (!riscv.freg<fa0>) -> !riscv.freg<{r}>")
        last = regs[-1] if regs else "a0"
        lines.append(f"%r = riscv.mv {prev} : (!riscv.reg<{last}>) -> !riscv.reg<a0>")
        text = ("builtin.module { riscv_func.func @f(%a: !riscv.reg<a0>, %fa: !riscv.freg<fa0>) -> !riscv.reg<a0> {\n " + "\n ".join(lines)
                + "\n riscv_func.return %r : !riscv.reg<a0>\n} }")
        m = Parser(ctx(), text).parse_module()
        m.verify()
        PrologueEpilogueInsertion().apply(ctx(), m)
        m.verify()
        rf = next(o for o in m.walk() if isinstance(o, riscv_func.FuncOp))
        mach = rvsem.Machine(32, "m")
        for r in rvsem.CALLEE_SAVED + ["a0"]:
            mach.rx(r)
        for r in rvsem.CALLEE_SAVED_F + ["fa0"]:
            mach.rf(r)
        if ex is not None and concrete is None:
            for k_, v in list(mach.init_x.items()) + list(mach.init_f.items()):
                ex.named[k_] = v
        if concrete is not None:
            for k_ in list(mach.init_x):
                mach.x[k_] = mach.init_x[k_] = z3.BitVecVal(concrete.get(k_, 0), 32)
            for k_ in list(mach.init_f):
                mach.f[k_] = mach.init_f[k_] = z3.BitVecVal(concrete.get(k_, 0), 64)
        mem0 = mach.mem
        a0_in = mach.init_x["a0"]
        sp0 = mach.init_x["sp"]
        sane_sp = z3.And(z3.UGE(sp0, 0x1000), z3.ULE(sp0, 0x7FFF0000), z3.Extract(3, 0, sp0) == 0)
        if ex is not None and concrete is None:
            ex.assume(sane_sp)
        for op in rf.body.blocks.first.ops:
            if op.name == "riscv_func.return":
                break
            rvsem.exec_op(mach, op)
        props = [mach.x["sp"] == mach.init_x["sp"]]
        for r in rvsem.CALLEE_SAVED:
            props.append(mach.x[r] == mach.init_x[r])
        for r in rvsem.CALLEE_SAVED_F:
            props.append(mach.f[r] == mach.init_f[r])
        props.append(mach.rx("a0") == a0_in + sum(range(1, len(regs) + 1)))
        # the caller's stack (addresses >= initial sp) is untouched
        addr = z3.BitVec("probe_addr", 32)
        if ex is not None and concrete is None:
            ex.named["probe_addr"] = addr
        if concrete is not None:
            addr = z3.BitVecVal(concrete.get("probe_addr", 0), 32)
        props.append(z3.Implies(z3.UGE(addr, mach.init_x["sp"]), z3.Select(mach.mem, addr) == z3.Select(mem0, addr)))
        return z3.And(*props)

    return h


# ---- (d) parallel moves between allocated registers, as the func lowering emits them for call arguments -------------
PMOVS = {
    "swap": [("a1", "a0"), ("a0", "a1")],
    "swap_fan": [("a1", "a0"), ("a0", "a1"), ("a0", "a2")],
    "fan_cycle_apart": [("a5", "a0"), ("a5", "a1"), ("a3", "a2"), ("a2", "a3")],
    "rot3": [("a1", "a0"), ("a2", "a1"), ("a0", "a2")],
    "rot3_fan": [("a1", "a0"), ("a2", "a1"), ("a0", "a2"), ("a0", "a3")],
    "chain": [("a0", "a1"), ("a1", "a2"), ("a2", "a3")],
    "tree_on_cycle": [("a1", "a0"), ("a0", "a1"), ("a1", "a2"), ("a2", "a3")],
    "two_swaps": [("a1", "a0"), ("a0", "a1"), ("a3", "a2"), ("a2", "a3")],
    "fan3": [("a4", "a0"), ("a4", "a1"), ("a4", "a2")],
    "self_and_swap": [("a0", "a0"), ("a2", "a1"), ("a1", "a2")],
}


def pmov_harness(ob, concrete=None):
    def h(ex):
        from xdsl.transforms import get_all_passes

        moves = PMOVS[ob["moves"]]
        srcs = sorted({s_ for s_, _ in moves})
        argsig = ", ".join(f"%{r}: !riscv.reg<{r}>" for r in srcs)
        ins = ", ".join(f"%{s_}" for s_, _ in moves)
        outs = ", ".join(f"%o{i}" for i in range(len(moves)))
        ity = ", ".join(f"!riscv.reg<{s_}>" for s_, _ in moves)
        oty = ", ".join(f"!riscv.reg<{d}>" for _, d in moves)
        widths = ", ".join(["32"] * len(moves))
        text = (f"builtin.module {{ riscv_func.func @f({argsig}) {{\n  {outs} = \"riscv.parallel_mov\"({ins}) <{{input_widths = array<i32: {widths}>}}> : ({ity}) -> ({oty})\n"
                f"  \"test.op\"({outs}) : ({oty}) -> ()\n  riscv_func.return\n}} }}")
        m = Parser(ctx(), text).parse_module()
        m.verify()
        try:
            get_all_passes()["riscv-lower-parallel-mov"]()().apply(ctx(), m)
            m.verify()
        except (DiagnosticException, PassFailedException):
            return True
        rf = next(o for o in m.walk() if isinstance(o, riscv_func.FuncOp))
        mach = rvsem.Machine(32, "m")
        regs = sorted({r for mv in moves for r in mv} | {f"a{i}" for i in range(8)} | {f"t{i}" for i in range(7)})
        init = {}
        for r in regs:
            v = z3.BitVec(f"x_{r}", 32) if concrete is None else z3.BitVecVal(concrete.get(f"x_{r}", 0), 32)
            mach.x[r] = mach.init_x[r] = init[r] = v
            if ex is not None and concrete is None:
                ex.named[f"x_{r}"] = SymInt.from_bv(v)
        for op in rf.body.blocks.first.ops:
            if op.name in ("riscv_func.return", "test.op"):
                continue
            rvsem.exec_op(mach, op)
        dsts = {d for _, d in moves}
        props = [mach.rx(d) == init[s_] for s_, d in moves]
        # no register other than the destinations changes (no free-register hint is given)
        props += [mach.rx(r) == init[r] for r in regs if r not in dsts]
        return z3.And(*props)

    return h


def obligations(tier):
    obs = []
    for name, moves in PMOVS.items():
        dsts = {d for _, d in moves}
        roots = {s_ for s_, d in moves if s_ not in dsts}
        succ = {}
        for s_, d in moves:
            if s_ != d:
                succ.setdefault(s_, []).append(d)

        def on_cycle(r, seen=()):
            return any(d == r0 or (d not in seen and on_cycle_from(d, r0, seen + (d,))) for r0 in [r] for d in succ.get(r, []))

        def on_cycle_from(x, r0, seen):
            return any(d == r0 or (d not in seen and on_cycle_from(d, r0, seen + (d,))) for d in succ.get(x, []))

        has_cycle = any(on_cycle(r) for r in dsts)
        obs.append({"id": f"C22/parallel_mov/{name}", "kind": "pmov", "moves": name, "weight": 1, "kf_root_cycle": int(bool(roots) and has_cycle)})
    for name in snippet_specs():
        obs.append({"id": f"C22/canon/{name}", "kind": "canon", "snippet": name, "weight": 2})
    for p in PIPE_PROGRAMS:
        for pipe in PIPELINES:
            if p.startswith("cmpi_") and pipe != "ssa":
                continue  # an i1 result cannot go through riscv-lower-parallel-mov ("Unsupported bit width: i1"): checked before allocation
            obs.append({"id": f"C22/pipeline.{pipe}/{p}", "kind": "pipe", "prog": p, "pipe": pipe, "weight": 3})
    for i in range(12):
        obs.append({"id": f"C22/prologue/s{i}", "kind": "prologue", "n": 1 << i, "fn": 0})
        obs.append({"id": f"C22/prologue/fs{i}", "kind": "prologue", "n": 0, "fn": 1 << i})
    obs.append({"id": "C22/prologue/all", "kind": "prologue", "n": (1 << 12) - 1, "fn": (1 << 12) - 1, "weight": 2})
    obs.append({"id": "C22/prologue/none", "kind": "prologue", "n": 0, "fn": 0})
    for o in obs:
        # the memory-model queries (e.g. canon/sw(addi): 14 s alone) have run past 165 s when all 16 workers were busy
        o.setdefault("budget_s", 300 if tier == "quick" else 900)
    return obs


def bounds(tier):
    return {"xlen": 32, "li_constants": "full 32 bit", "immediates": "full 12 bit / 5 bit shift amounts", "snippets": len(snippet_specs()), "pipeline_programs": len(PIPE_PROGRAMS)}


def harness(ob, concrete=None):
    return {"canon": canon_harness, "pipe": pipe_harness, "prologue": prologue_harness, "pmov": pmov_harness}[ob["kind"]](ob, concrete)


def run(ob, tier, stats, exclude):
    return decide(harness(ob), timeout_ms=30000 if tier == "quick" else 120000, budget_s=ob.get("budget_s", 300), stats=stats, exclude=exclude, ob=ob, max_paths=3000)


def evidence_extra(tier, results):
    return {"programs": len(results), "disagreements_checked": sum(r["ok_paths"] for r in results)}


def replay(ob, inputs):
    try:
        v = harness(ob, concrete=inputs)(None)
        if v is True:
            return {"violates": False}
        s = z3.Solver()
        s.add(z3.Not(v))
        return {"violates": s.check() == z3.sat}
    except Exception as e:
        return {"violates": True, "observed": f"exception {type(e).__name__}: {str(e)[:300]}"}
