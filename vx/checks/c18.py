"""C18 - pass pipeline specifications round-trip through text; parsing any pipeline string yields passes or a pipeline error."""
from __future__ import annotations

import dataclasses
import typing
from dataclasses import dataclass, field

import z3

from vx import symstr
from vx.framework import decide
from vx.symstr import SymStr
from vx.symx import SymBool, SymInt, sym_not

symstr.install()

from xdsl.utils import arg_spec  # noqa: E402
from xdsl.utils.arg_spec import ArgSpec, ArgSpecConvertible, parse_pipeline  # noqa: E402
from xdsl.utils.exceptions import ArgSpecParseError, ParseError  # noqa: E402

LEVEL = "other"
EXPLANATION = (
    "Round trip: an option-carrying pass object (generated dataclasses with one field per supported option type and every "
    "registered pass that has options) gets SYMBOLIC option values - strings as bounded symbolic text (every cell ranges over "
    "all of Unicode), integers as solver variables rendered to symbolic decimal digits, tuples of 0-3 of those, optionals, "
    "values equal to defaults - and is printed by the real ArgSpecConvertible.spec / ArgSpec.__str__; the symbolic text is "
    "lexed by the real PipelineLexer (its regexes are executed by a backtracking matcher that walks CPython's own parse tree of "
    "the pattern and forks on every character test), parsed by parse_pipeline and rebuilt by from_spec; z3 decides that the "
    "rebuilt pass equals the original for all values. Parsing: templates with symbolic holes (`p{k=<hole>}`, `p{k=\"<hole>\"}`, "
    "`<hole>` ...) are parsed; every path must end in passes or an ArgSpecParseError/ValueError (option error). Floats cannot be "
    "rendered symbolically (repr is C code): they are covered on an enumerated list of boundary values only."
)
FUNCTIONS = ["ArgSpec.__str__ / _spec_parameter_type_str / _spec_parameter_list_type_str", "ArgSpecConvertible.spec / from_spec / required_fields", "_convert_arg_to_type", "PipelineLexer._generator and _lexer_rules",
             "parse_pipeline / _parse_spec / _parse_pass_parameters / _parse_parameter_value(_element)", "StringLiteral.bytes_contents / string_contents", "xdsl.utils.hints.isa"]
ASSUMPTIONS = ["string option values are encodable text (no lone surrogate code points)", "vx/shim_re.py reproduces CPython's matching order (validated against CPython on 126000 random inputs by vx.selftest)", "vx/symstr.py UTF-8 codec and int() grammar (validated likewise)"]
OUTSIDE = ["integers inside tuples beyond [-999, 999]", "strings longer than the stated bound (quick 3, thorough 5 cells; 2 cells inside tuples)", "integers beyond 7 digits", "float option values other than the enumerated list", "PassPipeline.parse_spec's lookup of pass names (concrete dict)",
           "mlir-opt[...] nested pipelines"]
STUBS = []


def mk(name, ann, defaults=None):
    ns = {"__annotations__": dict(ann), "name": name}
    ns["__annotations__"]["name"] = typing.ClassVar[str]
    for k, v in (defaults or {}).items():
        ns[k] = v
    return dataclass(frozen=True)(type("P_" + name.replace("-", "_"), (ArgSpecConvertible,), ns))


GEN = {
    "str": mk("p-str", {"s": str}),
    "int": mk("p-int", {"i": int}),
    "bool": mk("p-bool", {"b": bool}),
    "float": mk("p-float", {"f": float}),
    "opt-int": mk("p-opt-int", {"i": int | None}, {"i": None}),
    "opt-str": mk("p-opt-str", {"s": str | None}, {"s": None}),
    "def-int": mk("p-def-int", {"i": int}, {"i": 4}),
    "def-str": mk("p-def-str", {"s": str}, {"s": "ab"}),
    "def-bool": mk("p-def-bool", {"b": bool}, {"b": False}),
    "tup-int": mk("p-tup-int", {"t": tuple[int, ...]}),
    "tup-str": mk("p-tup-str", {"t": tuple[str, ...]}),
    "opt-tup-int": mk("p-opt-tup-int", {"t": tuple[int, ...] | None}, {"t": None}),
    "two": mk("p-two", {"some_name": str, "other": int}),
    "three": mk("p-three", {"a": int, "b": str | None, "c": tuple[int, ...]}, {"b": None, "c": ()}),
    "int-float": mk("p-int-float", {"x": int | float}),
}
FLOATS = [0.0, -0.0, 1.0, -1.5, 0.1, 1e-05, 1e22, 1e16, 123456789.125, 5e-324, 1.7976931348623157e308, float("inf"), float("-inf"), float("nan"), 2.5e-07, 100.0]
INT_LO, INT_HI = -9999999, 9999999


def registered():
    from xdsl.transforms import get_all_passes

    out = {}
    for name, f in get_all_passes().items():
        try:
            cls = f()
        except Exception:
            continue
        if [fl for fl in dataclasses.fields(cls) if fl.init]:
            out[name] = cls
    return out


_REG = None


def reg():
    global _REG
    if _REG is None:
        _REG = registered()
    return _REG


TEXT_PARTITION = [(34, 34), (92, 92), (0, 31), (32, 33), (35, 91), (93, 126), (127, 127), (128, 0xD7FF), (0xE000, 0x10FFFF)]


class Src:
    def __init__(self, ex, concrete, strlen, narrow=False, tuple_strlen=1):
        self.ex, self.c, self.strlen, self.narrow, self.tuple_strlen = ex, concrete, strlen, narrow, tuple_strlen
        self.tuple_max = 3
        self.partition = None

    def choose(self, name, n):
        if self.c is not None:
            return int(self.c.get(name, 0))
        v = self.ex.choose(n, name)
        self.ex.named[name] = v
        return v

    def text(self, name, n):
        if self.c is not None:
            return "".join(chr(self.c.get(f"{name}{i}", 97)) for i in range(n))
        if not n:
            return ""
        # lone surrogates (D800-DFFF) are not text (they cannot be encoded): outside the claim
        return SymStr.var_split(name, n, self.partition or TEXT_PARTITION)

    def int(self, name):
        if self.c is not None:
            return int(self.c.get(name, 0))
        return SymInt.var(name, *((-999, 999) if self.narrow else (INT_LO, INT_HI)))

    def flag(self, name):
        if self.ex is not None:
            self.ex.named[name] = 1


def value_for(src, t, path, optional=False):
    """a symbolic value of the annotated type t (shape choices are forked)"""
    origin = typing.get_origin(t)
    if t is str:
        n = src.choose(path + "__len", src.strlen + 1)
        return src.text(path + "__c", n)
    if t is bool:
        return bool(src.choose(path + "__bool", 2))
    if t is int:
        return src.int(path + "__int")
    if t is float:
        f = FLOATS[src.choose(path + "__float", len(FLOATS))]
        if f != f or f in (float("inf"), float("-inf")):
            src.flag("kf_nonfinite_float")
        return f
    if origin is typing.Literal:
        args = typing.get_args(t)
        return args[src.choose(path + "__lit", len(args))]
    if origin is tuple:
        (et, _) = typing.get_args(t)
        n = src.choose(path + "__n", min(src.tuple_max + 1, 4 if et is int else 3))
        sub = Src(src.ex, src.c, src.tuple_strlen, narrow=True)
        sub.partition = src.partition
        if n == 0 and optional:
            src.flag("kf_empty_optional_tuple")
        return tuple(value_for(sub, et, f"{path}__{k}") for k in range(n))
    if origin in (typing.Union, __import__("types").UnionType):
        args = typing.get_args(t)
        k = src.choose(path + "__alt", len(args))
        if args[k] is type(None):
            return None
        return value_for(src, args[k], path + f"__a{k}", optional=type(None) in args)
    raise NotImplementedError(f"option type {t}")


def same(a, b):
    """structural equality of option values: same python type, same payload (bool is not int, '1' is not 1)"""
    if isinstance(a, (SymStr, str)) != isinstance(b, (SymStr, str)):
        return False
    if isinstance(a, (SymStr, str)):
        return a == b
    if isinstance(a, bool) != isinstance(b, bool):
        return False
    if isinstance(a, float) or isinstance(b, float):
        if not (isinstance(a, float) and isinstance(b, float)):
            return False
        import math
        import struct

        return struct.pack("<d", a) == struct.pack("<d", b) or (math.isnan(a) and math.isnan(b))
    if a is None or b is None:
        return a is None and b is None
    if isinstance(a, tuple) != isinstance(b, tuple):
        return False
    if isinstance(a, tuple):
        if len(a) != len(b):
            return False
        r = True
        for x, y in zip(a, b):
            e = same(x, y)
            if e is False:
                return False
            r = e if r is True else (r if e is True else r & e)
        return r
    if isinstance(a, (int, SymInt)) and isinstance(b, (int, SymInt)):
        return a == b
    return False


def h_roundtrip(ob, concrete=None):
    def h(ex):
        symstr.RENDER_INTS[0] = True
        symstr.SYM_BYTEARRAY[0] = True
        symstr.SYM_DICT[0] = False
        symstr.HAVOC_FLOAT[0] = False
        cls = GEN[ob["cls"]] if ob["family"] == "gen" else reg()[ob["cls"]]
        hints = typing.get_type_hints(cls)
        src = Src(ex, concrete, ob["strlen"], narrow=ob.get("narrow", False), tuple_strlen=ob.get("tuple_strlen", 1))
        src.tuple_max = ob.get("tuple_max", 3)
        src.partition = [tuple(x) for x in ob["partition"]] if ob.get("partition") else None
        vals = {}
        for fl in dataclasses.fields(cls):
            if not fl.init:
                continue
            if ob.get("field") and fl.name != ob["field"]:
                continue
            vals[fl.name] = value_for(src, hints[fl.name], fl.name)
        try:
            p = cls(**vals)
        except Exception:
            return True  # the pass itself refuses these option values (e.g. its __post_init__)
        text = ArgSpec.__str__(p.spec())
        if ex is not None:
            ex.note("text", repr(text)[:80])
        try:
            specs = list(parse_pipeline(text))
            if len(specs) != 1:
                return {"prop": False, "detail": f"printed spec parses into {len(specs)} passes"}
            q = cls.from_spec(specs[0])
        except (ArgSpecParseError, ValueError) as e:
            return {"prop": False, "detail": f"printed spec does not parse back: {type(e).__name__}"}
        r = True
        for fl in dataclasses.fields(cls):
            if not fl.init:
                continue
            e = same(getattr(p, fl.name), getattr(q, fl.name))
            if e is False:
                return {"prop": False, "detail": f"option {fl.name} does not survive the round trip"}
            r = e if r is True else (r if e is True else r & e)
        # (printing is a pure function of the option values, so equal values print the same text again)
        return r

    return h


TEMPLATES = {
    "bare": "§", "name_args": "p§", "inside": "p{§}", "value": "p{k=§}", "quoted": 'p{k="§"}', "second": "p{k=1 §}", "after": "p{k=1}§", "list": "p{k=1,§}", "two": "p,§",
    "key": "p{§=1}", "mlir": "mlir-opt[§]",
}


def h_parse(ob, concrete=None):
    def h(ex):
        symstr.RENDER_INTS[0] = True
        symstr.SYM_BYTEARRAY[0] = True
        symstr.SYM_DICT[0] = True
        symstr.HAVOC_FLOAT[0] = True
        n = ob["n"]
        hole = (SymStr.var_split("h", n, [(0, 31), (32, 127), (128, 0x10FFFF)]) if n else "") if concrete is None else "".join(chr(concrete.get(f"h{i}", 97)) for i in range(n))
        pre, post = TEMPLATES[ob["template"]].split("§")
        text = pre + hole + post
        try:
            list(parse_pipeline(text))
        except (ArgSpecParseError, ParseError, ValueError):
            # ValueError: int()/float() conversion errors; ParseError: the string-literal decoder's diagnostic
            pass
        return True

    return h


def bounds(tier):
    return {"string_cells": "3 over all of Unicode (thorough 4); 6 over [a-z0-9./-] (thorough 7 over [A-Za-z0-9./_^\\[\\]-])", "tuple_elements": "0-3 ints in [-999,999] / 0-2 strings of 1 cell (thorough 2)", "int_range": [INT_LO, INT_HI], "floats": [repr(f) for f in FLOATS], "registered_passes_with_options": len(reg()),
            "parse_templates": TEMPLATES, "hole_cells": 2 if tier == "quick" else 3}


def obligations(tier):
    sl = 3 if tier == "quick" else 4
    obs = []
    for k in GEN:
        n = sl if k in ("str",) else (2 if tier == "quick" else 3)
        if k in ("two", "three"):
            n = 1
        obs.append({"id": f"C18/roundtrip/gen/{k}", "kind": "roundtrip", "family": "gen", "cls": k, "strlen": n, "weight": 5 if "str" in k else 2, "narrow": k in ("two", "three"), "tuple_max": 1 if k == "three" else 3,
                    "tuple_strlen": 1 if tier == "quick" else 2})
    # longer strings over a word alphabet (keywords such as true/false/none live here): cells split into letters / digits,-,_
    for k in ("str", "opt-str", "tup-str"):
        obs.append({"id": f"C18/roundtrip/gen/{k}/word-alphabet", "kind": "roundtrip", "family": "gen", "cls": k, "strlen": 6 if tier == "quick" else 7, "weight": 4,
                    "partition": [(97, 122), (45, 57)] if tier == "quick" else [(97, 122), (65, 95), (45, 57)], "tuple_strlen": 5, "tuple_max": 1})
    for name, cls in reg().items():
        for fl in dataclasses.fields(cls):
            if fl.init:
                obs.append({"id": f"C18/roundtrip/registered/{name}/{fl.name}", "kind": "roundtrip", "family": "reg", "cls": name, "field": fl.name, "strlen": 2 if tier == "quick" else 3, "weight": 2, "tuple_strlen": 1 if tier == "quick" else 2})
    for t in TEMPLATES:
        for n in range(0, (2 if tier == "quick" else 3) + 1):
            obs.append({"id": f"C18/parse/{t}/{n}", "kind": "parse", "template": t, "n": n, "weight": 1 + n * 3})
    return obs


HARNESS = {"roundtrip": h_roundtrip, "parse": h_parse}


def _allowed(exc):
    return False


def run(ob, tier, stats, exclude):
    return decide(HARNESS[ob["kind"]](ob), timeout_ms=30000, budget_s=ob.get("budget_s", 400), stats=stats, exclude=exclude, ob=ob, max_paths=60000, fuel=200000)


def replay(ob, inputs):
    try:
        v = HARNESS[ob["kind"]](ob, concrete=inputs)(None)
    except Exception as e:
        return {"violates": True, "observed": f"exception {type(e).__name__}: {str(e)[:300]}"}
    if isinstance(v, dict):
        return {"violates": not v["prop"], "observed": v["detail"]}
    return {"violates": not bool(v), "observed": "round trip changes the pass" if not v else "agrees"}
