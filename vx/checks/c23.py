"""C23 - the LLVM backend emits IR that LLVM accepts and that refines the LLVM semantics of the source llvm-dialect ops."""
from __future__ import annotations

import itertools

import z3

from vx import llsem
from vx.framework import decide
from vx.symx import SymInt, is_sym

from xdsl.context import Context
from xdsl.dialects import builtin, llvm
from xdsl.parser import Parser

LEVEL = "translation_validation"
EXPLANATION = (
    "Each llvm-dialect module of a generated catalogue (every integer binop with every overflow/exact/disjoint flag variant, "
    "flagged op followed by unflagged op in the same function / a later function / a later module converted in the same "
    "process, all 10 icmp and 16 fcmp predicates, trunc/zext/sext with flags, select, fneg, float binops with fast-math "
    "flags, signed-zero/NaN/inf/denormal float constants, SYMBOLIC integer constants of every width pushed through "
    "create_constant, branches and conditional branches with block arguments incl. swapping phis, alloca/store/load, direct "
    "calls) is translated by the real convert_module. The llvmlite module is printed; the text is (i) handed to LLVM's parser "
    "and verifier, and (ii) parsed back by vx/llsem.py into instruction records which are executed on SYMBOLIC function "
    "arguments by an LLVM LangRef model with poison and immediate UB; the same model is applied to the source ops (decoded "
    "with MLIR's own enum numbering, independently of the backend). z3 decides for all arguments and all constant values: "
    "source not UB => target not UB, and source result not poison => target result not poison and bit-identical (NaN ~ NaN); "
    "fast-math flags without a value model (nsz/arcp/contract/afn/reassoc) must not be added. Counterexamples are replayed "
    "in a fresh process, where the module is also JIT-compiled with llvmlite MCJIT and run natively."
)
FUNCTIONS = ["xdsl.backend.llvm.convert.convert_module/_declare_func/_convert_func", "xdsl.backend.llvm.convert_op.convert_op and _convert_binop/_convert_icmp/_convert_fcmp/_convert_cast/"
             "_convert_select/_convert_br/_convert_condbr/_convert_fneg/_convert_call/_convert_alloca/_convert_load/_convert_store/_convert_return/create_constant/CastInstrWithFlags.descr",
             "xdsl.backend.llvm.convert_type.convert_type (iN, f32, f64, ptr)"]
ASSUMPTIONS = ["LLVM LangRef semantics of the scalar subset as encoded in vx/llsem.py (poison for nsw/nuw/exact/disjoint/nneg/nnan/ninf and oversized shifts; UB for division by zero, INT_MIN/-1, branch on poison)",
               "llvmlite prints its instruction objects faithfully (the text, not the objects, is what is checked)", "each executed alloca is a distinct cell; no address arithmetic"]
OUTSIDE = ["vectors, structs, GEP, globals, intrinsics, inline asm, frem, indirect/variadic calls, function/argument attributes", "loops (CFGs in the catalogue are acyclic)",
           "LLVM's own optimiser and code generator (only exercised concretely at replay)", "float constants other than the enumerated special values", "widths other than i1/i8/i16/i32/i64, f32/f64"]
STUBS = []

OVF = ["", " overflow<nsw>", " overflow<nuw>", " overflow<nsw, nuw>"]
OVF_OPS = ["add", "sub", "mul", "shl"]
EXACT_OPS = ["udiv", "sdiv", "lshr", "ashr"]
PLAIN_OPS = ["and", "xor", "urem", "srem"]
ICMP = ["eq", "ne", "slt", "sle", "sgt", "sge", "ult", "ule", "ugt", "uge"]
FCMP = ["_false", "oeq", "ogt", "oge", "olt", "ole", "one", "ord", "ueq", "ugt", "uge", "ult", "ule", "une", "uno", "_true"]
FBIN = ["fadd", "fsub", "fmul", "fdiv"]
FM = ["", "nnan", "ninf", "nnan, ninf", "nsz", "fast", "contract, reassoc"]
FCONST = {"f64": ["-0.0", "0.0", "1.0", "-1.5", "0x7FF8000000000000", "0x7FF0000000000000", "0xFFF0000000000000", "4.9406564584124654e-324", "1.7976931348623157e+308", "0.1"],
          "f32": ["-0.0", "0.0", "1.0", "-1.5", "0x7FC00000", "0x7F800000", "0xFF800000", "1.401298464324817e-45", "3.4028234663852886e+38", "0.1"]}


def int_variants():
    """(tag, template) with {a} {b} {t} placeholders for every integer binop and flag variant"""
    out = []
    for o in OVF_OPS:
        for f in OVF:
            out.append((o + f.replace(" overflow<", "_").replace(", ", "_").replace(">", ""), "llvm." + o + " {a}, {b}" + f + " : {t}", bool(f)))
    for o in EXACT_OPS:
        out.append((o, "llvm." + o + " {a}, {b} : {t}", False))
        out.append((o + "_exact", "llvm." + o + " exact {a}, {b} : {t}", True))
    out.append(("or", "llvm.or {a}, {b} : {t}", False))
    out.append(("or_disjoint", "llvm.or disjoint {a}, {b} : {t}", True))
    for o in PLAIN_OPS:
        out.append((o, "llvm." + o + " {a}, {b} : {t}", False))
    return out


def fn(name, sig, ret, body):
    return f"llvm.func @{name}({sig}) -> {ret} {{\n{body}\n}}"


def build_programs(tier):
    """name -> dict(modules=[text...], check=[(module index, function name)], desc)"""
    P = {}
    IV = int_variants()
    widths = ["i8", "i32"] if tier == "quick" else ["i8", "i16", "i32", "i64"]
    # F1 single ops
    for t in widths:
        for tag, tpl, _ in IV:
            body = "  %r = " + tpl.format(a="%x", b="%y", t=t) + f"\n  llvm.return %r : {t}"
            P[f"single/{t}/{tag}"] = dict(modules=["builtin.module {\n" + fn("f", f"%x: {t}, %y: {t}", t, body) + "\n}"], check=[(0, "f")])
    # F2 flagged then unflagged (same function); unflagged then flagged
    flagged = [v for v in IV if v[2]]
    unflagged = [v for v in IV if not v[2]]
    for (ta, A, _), (tb, B, _) in itertools.product(flagged, unflagged):
        t = "i8" if tier == "quick" else "i32"
        body = "  %s = " + A.format(a="%x", b="%y", t=t) + "\n  %r = " + B.format(a="%s", b="%y", t=t) + f"\n  llvm.return %r : {t}"
        P[f"pair/{ta}>{tb}"] = dict(modules=["builtin.module {\n" + fn("f", f"%x: {t}, %y: {t}", t, body) + "\n}"], check=[(0, "f")])
    for (ta, A, _), (tb, B, _) in itertools.product(unflagged, flagged):
        if tier == "quick" and ta not in ("add", "sdiv", "xor", "or"):
            continue
        t = "i8"
        body = "  %s = " + A.format(a="%x", b="%y", t=t) + "\n  %r = " + B.format(a="%s", b="%y", t=t) + f"\n  llvm.return %r : {t}"
        P[f"pair/{ta}>{tb}"] = dict(modules=["builtin.module {\n" + fn("f", f"%x: {t}, %y: {t}", t, body) + "\n}"], check=[(0, "f")])
    # F2b flagged op in one function / module, unflagged op in the next
    for (ta, A, _) in flagged:
        for tb, B, _ in ([u for u in unflagged if u[0] in ("add", "sdiv", "xor", "lshr", "or", "mul")] if tier == "quick" else unflagged):
            t = "i32"
            f1 = fn("f1", f"%x: {t}, %y: {t}", t, "  %r = " + A.format(a="%x", b="%y", t=t) + f"\n  llvm.return %r : {t}")
            f2 = fn("f2", f"%x: {t}, %y: {t}", t, "  %r = " + B.format(a="%x", b="%y", t=t) + f"\n  llvm.return %r : {t}")
            P[f"twofn/{ta}>{tb}"] = dict(modules=["builtin.module {\n" + f1 + "\n" + f2 + "\n}"], check=[(0, "f1"), (0, "f2")])
            P[f"twomod/{ta}>{tb}"] = dict(modules=["builtin.module {\n" + f1 + "\n}", "builtin.module {\n" + f2 + "\n}"], check=[(1, "f2")])
    # float op with flags then int/float op without
    for fm in FM[1:]:
        for tb, B, _ in [u for u in unflagged if u[0] in ("add", "xor", "sdiv")]:
            body = ("  %s = llvm.fadd %p, %q {fastmathFlags = #llvm.fastmath<" + fm + ">} : f64\n  %u = llvm.fmul %s, %q : f64\n  %c = llvm.fcmp \"olt\" %u, %p : f64\n"
                    "  %b = " + B.format(a="%x", b="%y", t="i32") + "\n  %r = llvm.select %c, %b, %x : i1, i32\n  llvm.return %r : i32")
            P[f"fpair/{fm.replace(', ', '_')}>{tb}"] = dict(modules=["builtin.module {\n" + fn("f", "%x: i32, %y: i32, %p: f64, %q: f64", "i32", body) + "\n}"], check=[(0, "f")])
        for tb, B, _ in flagged[:4]:
            body = ("  %b = " + B.format(a="%x", b="%y", t="i32") + "\n  %s = llvm.fadd %p, %q : f64\n  %c = llvm.fcmp \"oeq\" %s, %p : f64\n"
                    "  %r = llvm.select %c, %b, %x : i1, i32\n  llvm.return %r : i32")
            P[f"ifpair/{tb}>fadd"] = dict(modules=["builtin.module {\n" + fn("f", "%x: i32, %y: i32, %p: f64, %q: f64", "i32", body) + "\n}"], check=[(0, "f")])
    # F3 comparisons
    for t in (["i8", "i32"] if tier == "quick" else widths):
        for p in ICMP:
            body = f"  %c = llvm.icmp \"{p}\" %x, %y : {t}\n  %r = llvm.select %c, %x, %y : i1, {t}\n  llvm.return %r : {t}"
            P[f"icmp/{t}/{p}"] = dict(modules=["builtin.module {\n" + fn("f", f"%x: {t}, %y: {t}", t, body) + "\n}"], check=[(0, "f")])
            body = f"  %c = llvm.icmp \"{p}\" %x, %y : {t}\n  llvm.return %c : i1"
            P[f"icmp_i1/{t}/{p}"] = dict(modules=["builtin.module {\n" + fn("f", f"%x: {t}, %y: {t}", "i1", body) + "\n}"], check=[(0, "f")])
    for t in ("f32", "f64"):
        for p in FCMP:
            body = f"  %c = llvm.fcmp \"{p}\" %x, %y : {t}\n  llvm.return %c : i1"
            P[f"fcmp/{t}/{p}"] = dict(modules=["builtin.module {\n" + fn("f", f"%x: {t}, %y: {t}", "i1", body) + "\n}"], check=[(0, "f")])
    # F4 casts
    for (s, d) in (("i32", "i8"), ("i64", "i32"), ("i8", "i1"), ("i64", "i16")):
        for f in OVF:
            body = f"  %r = llvm.trunc %x{f} : {s} to {d}\n  llvm.return %r : {d}"
            P[f"cast/trunc{f.replace(' overflow<', '_').replace(', ', '_').replace('>', '')}/{s}>{d}"] = dict(modules=["builtin.module {\n" + fn("f", f"%x: {s}", d, body) + "\n}"], check=[(0, "f")])
    for (s, d) in (("i8", "i32"), ("i32", "i64"), ("i1", "i8"), ("i16", "i64")):
        for o in ("zext", "zext nneg", "sext"):
            body = f"  %r = llvm.{o} %x : {s} to {d}\n  llvm.return %r : {d}"
            P[f"cast/{o.replace(' ', '_')}/{s}>{d}"] = dict(modules=["builtin.module {\n" + fn("f", f"%x: {s}", d, body) + "\n}"], check=[(0, "f")])
        # flagged cast followed by plain cast and plain binop
        body = (f"  %n = llvm.zext nneg %x : {s} to {d}\n  %z = llvm.zext %x : {s} to {d}\n  %r = llvm.add %n, %z : {d}\n  llvm.return %r : {d}")
        P[f"cast/nneg_then_plain/{s}>{d}"] = dict(modules=["builtin.module {\n" + fn("f", f"%x: {s}", d, body) + "\n}"], check=[(0, "f")])
    body = "  %n = llvm.trunc %x overflow<nsw> : i32 to i8\n  %z = llvm.trunc %y : i32 to i8\n  %r = llvm.sub %n, %z : i8\n  llvm.return %r : i8"
    P["cast/trunc_nsw_then_plain"] = dict(modules=["builtin.module {\n" + fn("f", "%x: i32, %y: i32", "i8", body) + "\n}"], check=[(0, "f")])
    # F5 float ops
    for t in ("f32", "f64"):
        for o in FBIN:
            for fm in FM:
                attr = (" {fastmathFlags = #llvm.fastmath<" + fm + ">}") if fm else ""
                body = f"  %r = llvm.{o} %x, %y{attr} : {t}\n  llvm.return %r : {t}"
                P[f"float/{t}/{o}/{fm.replace(', ', '_') or 'none'}"] = dict(modules=["builtin.module {\n" + fn("f", f"%x: {t}, %y: {t}", t, body) + "\n}"], check=[(0, "f")])
        body = f"  %r = llvm.fneg %x : {t}\n  llvm.return %r : {t}"
        P[f"float/{t}/fneg"] = dict(modules=["builtin.module {\n" + fn("f", f"%x: {t}", t, body) + "\n}"], check=[(0, "f")])
        for ci, c in enumerate(FCONST[t]):
            for o in (FBIN if tier != "quick" else ["fdiv", "fadd"]):
                body = f"  %k = llvm.mlir.constant({c} : {t}) : {t}\n  %r = llvm.{o} %x, %k : {t}\n  llvm.return %r : {t}"
                P[f"fconst/{t}/{o}/{ci}"] = dict(modules=["builtin.module {\n" + fn("f", f"%x: {t}", t, body) + "\n}"], check=[(0, "f")])
            body = f"  %k = llvm.mlir.constant({c} : {t}) : {t}\n  llvm.return %k : {t}"
            P[f"fconst/{t}/ret/{ci}"] = dict(modules=["builtin.module {\n" + fn("f", f"%x: {t}", t, body) + "\n}"], check=[(0, "f")])
            body = f"  %k = llvm.mlir.constant({c} : {t}) : {t}\n  %s = llvm.fadd %k, %k : {t}\n  %r = llvm.fdiv %x, %s : {t}\n  llvm.return %r : {t}"
            P[f"fconst/{t}/kk/{ci}"] = dict(modules=["builtin.module {\n" + fn("f", f"%x: {t}", t, body) + "\n}"], check=[(0, "f")])
    # F9 symbolic integer constants (marker 100+k replaced by a SymInt payload before conversion)
    for t in (["i8", "i32", "i64"] if tier == "quick" else ["i1", "i8", "i16", "i32", "i64"]):
        if t == "i1":
            body = "  %k = llvm.mlir.constant(true) : i1\n  %r = llvm.xor %x, %k : i1\n  llvm.return %r : i1"
            P["iconst/i1/true"] = dict(modules=["builtin.module {\n" + fn("f", "%x: i1", "i1", body) + "\n}"], check=[(0, "f")])
            continue
        for tag, tpl, _ in (IV if tier != "quick" else [v for v in IV if v[0] in ("add", "sub_nsw", "mul", "shl_nuw", "sdiv", "udiv_exact", "or_disjoint", "xor", "srem", "ashr")]):
            body = f"  %k = llvm.mlir.constant(100 : {t}) : {t}\n  %r = " + tpl.format(a="%x", b="%k", t=t) + f"\n  llvm.return %r : {t}"
            P[f"iconst/{t}/{tag}"] = dict(modules=["builtin.module {\n" + fn("f", f"%x: {t}", t, body) + "\n}"], check=[(0, "f")], sym={100: t})
        body = f"  %k = llvm.mlir.constant(100 : {t}) : {t}\n  llvm.return %k : {t}"
        P[f"iconst/{t}/ret"] = dict(modules=["builtin.module {\n" + fn("f", f"%x: {t}", t, body) + "\n}"], check=[(0, "f")], sym={100: t})
        body = (f"  %k = llvm.mlir.constant(100 : {t}) : {t}\n  %j = llvm.mlir.constant(101 : {t}) : {t}\n  %c = llvm.icmp \"slt\" %x, %k : {t}\n"
                f"  llvm.cond_br %c, ^bb1(%k : {t}), ^bb2(%j, %x : {t}, {t})\n^bb1(%p: {t}):\n  llvm.br ^bb2(%p, %j : {t}, {t})\n^bb2(%q: {t}, %w: {t}):\n"
                f"  %s = llvm.select %c, %q, %k : i1, {t}\n  %r = llvm.sub %s, %w : {t}\n  llvm.return %r : {t}")
        P[f"iconst/{t}/cfg"] = dict(modules=["builtin.module {\n" + fn("f", f"%x: {t}", t, body) + "\n}"], check=[(0, "f")], sym={100: t, 101: t})
    # F6 control flow with block arguments
    t = "i32"
    cfgs = {
        "diamond": (f"  %c = llvm.icmp \"ult\" %x, %y : {t}\n  llvm.cond_br %c, ^bb1, ^bb2\n^bb1:\n  %a = llvm.add %x, %y : {t}\n  llvm.br ^bb3(%a : {t})\n^bb2:\n"
                    f"  %b = llvm.sub %x, %y overflow<nsw> : {t}\n  llvm.br ^bb3(%b : {t})\n^bb3(%r: {t}):\n  llvm.return %r : {t}"),
        "swap": (f"  %c = llvm.icmp \"sgt\" %x, %y : {t}\n  llvm.cond_br %c, ^bb1(%x, %y : {t}, {t}), ^bb1(%y, %x : {t}, {t})\n^bb1(%p: {t}, %q: {t}):\n  %r = llvm.sub %p, %q : {t}\n  llvm.return %r : {t}"),
        "swap2": (f"  llvm.br ^bb1(%x, %y : {t}, {t})\n^bb1(%p: {t}, %q: {t}):\n  llvm.br ^bb2(%q, %p : {t}, {t})\n^bb2(%u: {t}, %v: {t}):\n  %r = llvm.sub %u, %v : {t}\n  llvm.return %r : {t}"),
        "condargs": (f"  %c = llvm.icmp \"slt\" %x, %y : {t}\n  llvm.cond_br %c, ^bb1(%x : {t}), ^bb2(%y, %x : {t}, {t})\n^bb1(%p: {t}):\n  %d = llvm.mul %p, %p : {t}\n  llvm.br ^bb2(%d, %p : {t}, {t})\n"
                     f"^bb2(%q: {t}, %w: {t}):\n  %r = llvm.xor %q, %w : {t}\n  llvm.return %r : {t}"),
        "nested": (f"  %c = llvm.icmp \"eq\" %x, %y : {t}\n  llvm.cond_br %c, ^bb1, ^bb4(%x : {t})\n^bb1:\n  %d = llvm.icmp \"ugt\" %x, %y : {t}\n  llvm.cond_br %d, ^bb2, ^bb3\n^bb2:\n  %a = llvm.shl %x, %y : {t}\n"
                   f"  llvm.br ^bb4(%a : {t})\n^bb3:\n  %b = llvm.ashr %x, %y : {t}\n  llvm.br ^bb4(%b : {t})\n^bb4(%r: {t}):\n  llvm.return %r : {t}"),
        "poisonbr": (f"  %s = llvm.add %x, %y overflow<nsw> : {t}\n  %c = llvm.icmp \"slt\" %s, %x : {t}\n  llvm.cond_br %c, ^bb1, ^bb2\n^bb1:\n  llvm.return %x : {t}\n^bb2:\n  llvm.return %y : {t}"),
        "blockorder": (f"  llvm.br ^bb2(%x : {t})\n^bb1(%p: {t}):\n  %r = llvm.sub %p, %y : {t}\n  llvm.return %r : {t}\n^bb2(%q: {t}):\n  %a = llvm.add %q, %y : {t}\n  llvm.br ^bb1(%a : {t})"),
    }
    for k, body in cfgs.items():
        P[f"cfg/{k}"] = dict(modules=["builtin.module {\n" + fn("f", f"%x: {t}, %y: {t}", t, body) + "\n}"], check=[(0, "f")])
    # F7 memory and calls
    body = (f"  %one = llvm.mlir.constant(1 : i32) : i32\n  %p = llvm.alloca %one x {t} : (i32) -> !llvm.ptr\n  %q = llvm.alloca %one x {t} : (i32) -> !llvm.ptr\n  llvm.store %x, %p : {t}, !llvm.ptr\n"
            f"  llvm.store %y, %q : {t}, !llvm.ptr\n  %v = llvm.load %p : !llvm.ptr -> {t}\n  llvm.store %v, %q : {t}, !llvm.ptr\n  %w = llvm.load %q : !llvm.ptr -> {t}\n  %r = llvm.sub %w, %y : {t}\n  llvm.return %r : {t}")
    P["mem/two_cells"] = dict(modules=["builtin.module {\n" + fn("f", f"%x: {t}, %y: {t}", t, body) + "\n}"], check=[(0, "f")])
    body = (f"  %one = llvm.mlir.constant(1 : i32) : i32\n  %p = llvm.alloca %one x f64 : (i32) -> !llvm.ptr\n  %k = llvm.mlir.constant(-0.0 : f64) : f64\n  llvm.store %k, %p : f64, !llvm.ptr\n"
            f"  %v = llvm.load %p : !llvm.ptr -> f64\n  %r = llvm.fdiv %x, %v : f64\n  llvm.return %r : f64")
    P["mem/float_cell"] = dict(modules=["builtin.module {\n" + fn("f", "%x: f64", "f64", body) + "\n}"], check=[(0, "f")])
    callee = fn("k", f"%a: {t}, %b: {t}", t, f"  %r = llvm.sdiv %a, %b : {t}\n  llvm.return %r : {t}")
    caller = fn("f", f"%x: {t}, %y: {t}", t, f"  %s = llvm.add %x, %y overflow<nuw> : {t}\n  %c = llvm.call @k(%y, %s) : ({t}, {t}) -> {t}\n  %r = llvm.sub %c, %x : {t}\n  llvm.return %r : {t}")
    P["call/argorder"] = dict(modules=["builtin.module {\n" + caller + "\n" + callee + "\n}"], check=[(0, "f"), (0, "k")])
    P["call/forward"] = dict(modules=["builtin.module {\n" + callee + "\n" + caller + "\n}"], check=[(0, "f")])
    # F10 (thorough) seeded random chains mixing flagged/unflagged ops, comparisons, selects, casts and a symbolic constant
    if tier != "quick":
        import random

        rnd = random.Random(23)
        for n in range(500):
            t = rnd.choice(["i16", "i32", "i64"])
            vals = ["%x", "%y", "%k"]
            lines = [f"  %k = llvm.mlir.constant(100 : {t}) : {t}"]
            for j in range(rnd.randint(3, 7)):
                kind = rnd.random()
                if kind < 0.7:
                    tag, tpl, _ = rnd.choice(IV)
                    lines.append(f"  %v{j} = " + tpl.format(a=rnd.choice(vals), b=rnd.choice(vals), t=t))
                elif kind < 0.85:
                    lines.append(f"  %c{j} = llvm.icmp \"{rnd.choice(ICMP)}\" {rnd.choice(vals)}, {rnd.choice(vals)} : {t}")
                    lines.append(f"  %v{j} = llvm.select %c{j}, {rnd.choice(vals)}, {rnd.choice(vals)} : i1, {t}")
                else:
                    lines.append(f"  %n{j} = llvm.trunc {rnd.choice(vals)}{rnd.choice(OVF)} : {t} to i8")
                    lines.append(f"  %v{j} = llvm.{rnd.choice(['zext', 'zext nneg', 'sext'])} %n{j} : i8 to {t}")
                vals.append(f"%v{j}")
            lines.append(f"  llvm.return {vals[-1]} : {t}")
            P[f"chain/{n}"] = dict(modules=["builtin.module {\n" + fn("f", f"%x: {t}, %y: {t}", t, "\n".join(lines)) + "\n}"], check=[(0, "f")], sym={100: t})
    return P


_CTX = None
_PROGS = {}


def ctx():
    global _CTX
    if _CTX is None:
        _CTX = Context()
        _CTX.load_dialect(builtin.Builtin)
        _CTX.load_dialect(llvm.LLVM)
    return _CTX


def programs(tier):
    if tier not in _PROGS:
        _PROGS[tier] = build_programs(tier)
    return _PROGS[tier]


def bounds(tier):
    P = programs(tier)
    fams = {}
    for k in P:
        fams[k.split("/")[0]] = fams.get(k.split("/")[0], 0) + 1
    return {"programs": len(P), "families": fams, "arguments": "symbolic, full width (i1..i64 bit-vectors, f32/f64 IEEE incl. NaN/inf/-0)", "integer_constants": "symbolic in [-2^(w-1), 2^w)",
            "float_constants": FCONST, "cfg": "acyclic, <= 5 blocks"}


VALIDATE_FAMILIES = ("single", "icmp", "icmp_i1", "fcmp", "cast", "float", "fconst", "cfg", "mem", "call", "pair")
INT_SAMPLES = [0, 1, -1, 2, 7, -8, 100]
F_SAMPLES = {"float": [0x00000000, 0x80000000, 0x3F800000, 0x7FC00000, 0x7F800000, 0xFF800000, 0x00000001, 0x3DCCCCCD, 0x7F7FFFFF],
             "double": [0, 1 << 63, 0x3FF0000000000000, 0x7FF8000000000000, 0x7FF0000000000000, 0xFFF0000000000000, 1, 0x3FB999999999999A, 0x7FEFFFFFFFFFFFFF]}


def obligations(tier):
    obs = [{"id": f"C23/{k}", "prog": k, "weight": 1} for k in programs(tier)]
    # model validation: the LLVM model applied to the emitted text vs the natively compiled code on boundary inputs
    keys = [k for k in programs(tier) if k.split("/")[0] in VALIDATE_FAMILIES]
    if tier == "quick":
        keys = keys[::5]
    obs += [{"id": f"C23/validate-model/{k}", "prog": k, "kind": "validate", "weight": 2} for k in keys]
    return obs


class ModelMismatch(Exception):
    pass


def validate(ob, tier):
    """not a property check: a mismatch means vx/llsem.py misrepresents LLVM (reported as harness error, never as a violation)"""
    spec = programs(tier)[ob["prog"]]
    sym = {f"k{m}": 5 for m in spec.get("sym", {})}
    n = 0
    probe = []
    harness(ob, tier, concrete=dict(sym), out=probe)(None)
    if not probe:
        return {"status": "held", "paths": 0, "ok_paths": 0, "reasons": ["backend refuses this module: nothing to validate"], "cex": None, "witness": None}
    tys = probe[0]["tys"]
    def samples(t):
        if t.startswith("i"):
            w = int(t[1:])
            return sorted({v & ((1 << w) - 1) for v in INT_SAMPLES + [1 << (w - 1), (1 << (w - 1)) - 1]})
        return F_SAMPLES[t]
    grids = [samples(t) for t in tys]
    combos = list(itertools.product(*grids))
    step = max(1, len(combos) // 40)
    for combo in combos[::step]:
        inputs = dict(sym)
        inputs.update({f"x{i}": v for i, v in enumerate(combo)})
        out = []
        harness(ob, tier, concrete=inputs, out=out)(None)
        for r in out[:1]:
            tf = llsem.from_text(r["text"], r["fname"])
            tfs = {r["fname"]: tf}
            for other in out:
                tfs[other["fname"]] = llsem.from_text(other["text"], other["fname"])
            # all functions of the module for calls
            import re as _re
            for nm_ in _re.findall(r'define\s+\S+\s+@"?([\w.$-]+)"?\(', r["text"]):
                tfs.setdefault(nm_, llsem.from_text(r["text"], nm_))
            tv_, tp, tu = llsem.run(tf, mk_args(r["tys"], inputs), funcs=tfs)
            if tv_ is None or not z3.is_false(z3.simplify(tu)) or not z3.is_false(z3.simplify(tp)):
                continue
            if z3.is_fp(tv_) and z3.is_true(z3.simplify(z3.fpIsNaN(tv_))):
                continue
            if any(i.flags & (UNMODELLED | {"nnan", "ninf"}) for ph, ins in tf.blocks.values() for i in ins):
                continue
            want = z3.simplify(z3.fpToIEEEBV(tv_) if z3.is_fp(tv_) else tv_).as_long()
            got = _jit_run(r["text"], r["fname"], r["tys"], r["ret"], [inputs[f"x{i}"] for i in range(len(r["tys"]))])
            n += 1
            if got != want:
                raise ModelMismatch(f"{ob['prog']} inputs={inputs}: model {want} native {got}")
    return {"status": "held", "paths": n, "ok_paths": n, "raise_paths": 0, "allowed_raise_paths": 0, "infeasible": 0, "reasons": [], "cex": None, "witness": None}


class Marker:
    def __init__(self, s):
        self.s = s

    def __str__(self):
        return self.s

    __repr__ = __str__


def extract_syms(lm):
    """replace SymInt payloads of llvmlite constants by marker tokens; returns [(constant object, SymInt)]"""
    import llvmlite.ir as ir

    found = []

    def visit(v):
        if isinstance(v, ir.Constant) and is_sym(v.constant):
            found.append((v, v.constant))

    for f in lm.functions:
        for b in f.blocks:
            for ins in b.instructions:
                for o in ins.operands:
                    visit(o)
                for o, _ in getattr(ins, "incomings", ()):
                    visit(o)
    seen = {}
    out = []
    for c, s in found:
        if id(c) not in seen:
            seen[id(c)] = len(out)
            out.append((c, s))
    return out


def _clear_caches(lm, syms):
    for c, _ in syms:
        for a in ("_StrCaching__cached_str", "_StringReferenceCaching__cached_refstr"):
            c.__dict__.pop(a, None)
    for f in lm.functions:
        for b in f.blocks:
            for ins in b.instructions:
                for a in ("_StrCaching__cached_str", "_StringReferenceCaching__cached_refstr"):
                    ins.__dict__.pop(a, None)


def render(lm, syms, how):
    for k, (c, s) in enumerate(syms):
        c.constant = Marker(f"@SYM{k}@") if isinstance(how, str) else how[k]
    _clear_caches(lm, syms)
    try:
        return str(lm)
    finally:
        for c, s in syms:
            c.constant = s
        _clear_caches(lm, syms)


def llvm_accepts(text):
    from llvmlite import binding

    try:
        m = binding.parse_assembly(text)
        m.verify()
        return None
    except Exception as e:
        return str(e)[:300]


def arg_sorts(fop):
    return [llsem.tyname(str(a.type)) for a in fop.body.blocks.first.args]


def mk_args(tys, concrete, ex=None):
    out = []
    for i, t in enumerate(tys):
        name = f"x{i}"
        w = int(t[1:]) if t.startswith("i") else (32 if t == "float" else 64)
        if concrete is not None:
            bv = z3.BitVecVal(concrete.get(name, 0), w)
        else:
            bv = z3.BitVec(name, w)
            if ex is not None:
                ex.named[name] = SymInt.from_bv(bv)
        out.append(bv if t.startswith("i") else z3.fpBVToFP(bv, llsem.sort_of(t)))
    return out


UNMODELLED = {"nsz", "arcp", "contract", "afn", "reassoc", "fast"}


def extra_flags(src: llsem.Func, tgt: llsem.Func):
    """value-changing fast-math licences the target has and the source has not (float instructions matched by program order)"""
    def fl(f):
        return [(i.opcode, i.flags & UNMODELLED) for ph, ins in f.blocks.values() for i in ins if i.opcode in ("fadd", "fsub", "fmul", "fdiv")]
    a, b = fl(src), fl(tgt)
    if len(a) != len(b) or any(x[0] != y[0] for x, y in zip(a, b)):
        return []  # no positional correspondence: left to the value comparison
    return [f"{y[0]}#{k}:{sorted(y[1] - x[1])}" for k, (x, y) in enumerate(zip(a, b)) if not (y[1] <= x[1]) and "fast" not in x[1]]


def harness(ob, tier, concrete=None, out=None):
    spec = programs(tier)[ob["prog"]]

    def h(ex):
        from xdsl.backend.llvm.convert import convert_module

        llsem.SYMTAB.clear()
        mods, lms = [], []
        named = {}
        for text in spec["modules"]:
            m = Parser(ctx(), text).parse_module()
            for op in list(m.walk()):
                if isinstance(op, llvm.ConstantOp) and isinstance(op.value, builtin.IntegerAttr) and op.value.value.data in spec.get("sym", {}):
                    mk = op.value.value.data
                    w = int(spec["sym"][mk][1:])
                    name = f"k{mk}"
                    payload = concrete.get(name, 0) if concrete is not None else SymInt.var(name, -(1 << (w - 1)), (1 << w) - 1)
                    op.properties["value"] = builtin.IntegerAttr(builtin.IntAttr(payload), op.result.type)
            m.verify()
            mods.append(m)
            try:
                lms.append(convert_module(m, fallback_target_triple=None))
            except Exception as e:
                if ex is not None:
                    ex.note("not_translated", type(e).__name__)
                ob["_not_translated"] = type(e).__name__
                return True
        results = []
        for mi, fname in spec["check"]:
            m, lm = mods[mi], lms[mi]
            syms = extract_syms(lm)
            for k, (c, s) in enumerate(syms):
                llsem.SYMTAB[f"@SYM{k}@"] = s
            text = render(lm, syms, "marker")
            # (i) LLVM accepts the text (symbolic constants at their range ends and 0: acceptance does not depend on the value otherwise)
            for pick in ((lambda s: s.lo), (lambda s: s.hi), (lambda s: 0)) if syms else (None,):
                t2 = render(lm, syms, [pick(s) for _, s in syms]) if syms else text
                err = llvm_accepts(t2)
                if err is not None:
                    return {"prop": False, "detail": f"LLVM rejects the emitted IR for {fname}: {err}"}
            fops = {o.sym_name.data: o for o in m.walk() if isinstance(o, llvm.FuncOp)}
            src_funcs = {n: llsem.from_dialect(o) for n, o in fops.items() if o.body.blocks}
            tgt_funcs = {n: llsem.from_text(text, n) for n in src_funcs}
            args = mk_args(arg_sorts(fops[fname]), concrete, ex)
            sv, sp, su = llsem.run(src_funcs[fname], args, funcs=src_funcs)
            tv_, tp, tu = llsem.run(tgt_funcs[fname], args, funcs=tgt_funcs)
            bad = extra_flags(src_funcs[fname], tgt_funcs[fname])
            if bad:
                return {"prop": False, "detail": f"target adds fast-math licences on {bad}"}
            if (sv is None) != (tv_ is None) or (sv is not None and sv.sort() != tv_.sort()):
                return {"prop": False, "detail": "return type differs"}
            ok = z3.And(z3.Not(tu), z3.Implies(z3.Not(sp), z3.And(z3.Not(tp), llsem.same(sv, tv_)))) if sv is not None else z3.Not(tu)
            results.append(z3.Implies(z3.Not(su), ok))
            if out is not None:
                out.append(dict(fname=fname, tys=arg_sorts(fops[fname]), ret=llsem.tyname(str(fops[fname].function_type.output)), text=text, su=su, sp=sp, sv=sv))
        return z3.And(*results)

    return h


def run(ob, tier, stats, exclude):
    if ob.get("kind") == "validate":
        return validate(ob, tier)
    r = decide(harness(ob, tier), timeout_ms=60000, budget_s=240, stats=stats, exclude=exclude, ob=ob, max_paths=400)
    if "_not_translated" in ob and r["status"] == "held":
        r["reasons"] = list(r.get("reasons", [])) + [f"backend refuses this module ({ob['_not_translated']}): outside the property"]
    return r


def evidence_extra(tier, results):
    refused = sorted(r["id"] for r in results if any("backend refuses" in x for x in r.get("reasons", [])))
    return {"programs": len([r for r in results if "/validate-model/" not in r["id"]]), "disagreements_checked": sum(r["ok_paths"] for r in results if "/validate-model/" not in r["id"]),
            "refused_by_backend": refused, "model_vs_native_comparisons": sum(r["ok_paths"] for r in results if "/validate-model/" in r["id"])}


# ---- replay: concrete model evaluation + LLVM parse/verify + native JIT run -------------------------------
def _jit_run(text, fname, tys, ret, argvals):
    import ctypes

    from llvmlite import binding

    binding.initialize_native_target()
    binding.initialize_native_asmprinter()
    CT = {"i1": ctypes.c_uint8, "i8": ctypes.c_uint8, "i16": ctypes.c_uint16, "i32": ctypes.c_uint32, "i64": ctypes.c_uint64, "float": ctypes.c_float, "double": ctypes.c_double}
    mod = binding.parse_assembly(text)
    mod.verify()
    tm = binding.Target.from_default_triple().create_target_machine()
    eng = binding.create_mcjit_compiler(mod, tm)
    eng.finalize_object()
    addr = eng.get_function_address(fname)
    cf = ctypes.CFUNCTYPE(CT[ret], *[CT[t] for t in tys])(addr)
    import struct

    conv = []
    for t, v in zip(tys, argvals):
        if t == "float":
            conv.append(struct.unpack("<f", struct.pack("<I", v & 0xFFFFFFFF))[0])
        elif t == "double":
            conv.append(struct.unpack("<d", struct.pack("<Q", v & (2 ** 64 - 1)))[0])
        else:
            conv.append(v & ((1 << int(t[1:])) - 1))
    r = cf(*conv)
    if ret == "float":
        return struct.unpack("<I", struct.pack("<f", r))[0]
    if ret == "double":
        return struct.unpack("<Q", struct.pack("<d", r))[0]
    return r & ((1 << int(ret[1:])) - 1)


def replay(ob, inputs):
    tier = "quick"
    for t in ("quick", "thorough"):
        if ob["prog"] in programs(t):
            tier = t
            break
    out = []
    try:
        v = harness(ob, tier, concrete=inputs, out=out)(None)
    except Exception as e:
        return {"violates": True, "observed": f"exception {type(e).__name__}: {str(e)[:300]}"}
    if v is True:
        return {"violates": False, "why": "module not translated"}
    if isinstance(v, dict):
        return {"violates": True, "observed": v["detail"]}
    model_bad = z3.is_false(z3.simplify(v))
    native = []
    for r in out:
        try:
            if r["sv"] is None or not z3.is_false(z3.simplify(r["su"])) or not z3.is_false(z3.simplify(r["sp"])):
                continue  # source UB / poison: any native result is allowed
            sv = z3.simplify(z3.fpToIEEEBV(r["sv"]) if z3.is_fp(r["sv"]) else r["sv"])
            if z3.is_fp(r["sv"]) and z3.is_true(z3.simplify(z3.fpIsNaN(r["sv"]))):
                continue
            got = _jit_run(r["text"], r["fname"], r["tys"], r["ret"], [inputs.get(f"x{i}", 0) for i in range(len(r["tys"]))])
            native.append({"function": r["fname"], "expected": sv.as_long(), "native": got})
        except Exception as e:
            native.append({"function": r["fname"], "jit_error": f"{type(e).__name__}: {str(e)[:200]}"})
    native_bad = any("native" in n and n["native"] != n["expected"] for n in native)
    return {"violates": bool(model_bad or native_bad), "observed": {"model_disagrees": bool(model_bad), "native_runs": native}}
