"""C13 - dead-code elimination removes only unobservable code (translation validation with effect traces)."""
from __future__ import annotations

import z3

from vx import refprog, tv
from vx.framework import decide

from xdsl.context import Context
from xdsl.dialects import arith, builtin, cf, func, memref, scf, test
from xdsl.parser import Parser
from xdsl.traits import IsTerminator, SymbolOpInterface
from xdsl.utils.exceptions import VerifyException

LEVEL = "translation_validation"
EXPLANATION = (
    "Each program of the family (pure/effectful/unknown/unregistered/symbol ops with unused results, dead cycles through block "
    "arguments, unreachable blocks, bottom-tested loops, nested scf.if) is transformed by the real dce pass, the pattern-based "
    "dce() and canonicalize (region_dce as post-walk); source and result get meaning from the reference interpreter on SYMBOLIC "
    "arguments with an effect trace (external calls, stores, unknown ops with their operands, in order) and z3 decides that "
    "results and effect traces agree for all inputs. The structural post-condition (no removable op, no unreachable block left "
    "after the dce pass) is evaluated concretely per program as an auxiliary check."
)
FUNCTIONS = ["xdsl.transforms.dead_code_elimination.DeadCodeElimination/region_dce/LiveSet/dce/is_trivially_dead/would_be_trivially_dead/result_only_effects",
             "xdsl.traits.get_effects", "xdsl.ir.post_order.PostOrderIterator", "GreedyRewritePatternApplier trivially-dead removal (through canonicalize)"]
ASSUMPTIONS = ["reference semantics vx/refprog.py: test.op / unregistered ops have unknown observable effects, test.pureop is pure, func.call of a declaration is an external effect, memref.store and memref.dealloc are effects",
               "effect table of the auxiliary structural check: an op is removable iff it is arith/test.pureop/memref.load/alloc-only, non-terminator, non-symbol and all results unused"]
OUTSIDE = ["programs outside the family", "the liveness fixpoint as a graph property beyond the listed CFG shapes"]
STUBS = []

PROGRAMS = {
    "pure_unused": """
func.func @f(%x: i8, %y: i8) -> i8 {
  %a = arith.addi %x, %y : i8
  %d = arith.muli %x, %x : i8
  %d2 = arith.subi %d, %y : i8
  func.return %a : i8
}""",
    "effects_kept": """
func.func private @ext(i8) -> i8
func.func @f(%x: i8, %m: memref<4xi8>, %i: index) -> i8 {
  %u = func.call @ext(%x) : (i8) -> i8
  %v = arith.addi %x, %x : i8
  memref.store %v, %m[%i] : memref<4xi8>
  %l = memref.load %m[%i] : memref<4xi8>
  %unused = memref.load %m[%i] : memref<4xi8>
  "test.op"(%x) : (i8) -> ()
  %r = "test.op"(%l) : (i8) -> i8
  func.return %l : i8
}""",
    "unregistered_effect": """
func.func @f(%x: i8) -> i8 {
  "mylib.log"(%x) : (i8) -> ()
  %unused = "mylib.make"(%x) : (i8) -> i8
  %a = arith.addi %x, %x : i8
  func.return %a : i8
}""",
    "dead_cycle": """
func.func @f(%x: i8, %c: i1) -> i8 {
  %zero = arith.constant 0 : i8
  cf.br ^loop(%zero, %x : i8, i8)
^loop(%dead: i8, %live: i8):
  %dead2 = arith.addi %dead, %x : i8
  %live2 = arith.xori %live, %x : i8
  cf.cond_br %c, ^exit, ^back
^back:
  cf.br ^exit2(%live2 : i8)
^exit:
  func.return %live : i8
^exit2(%r: i8):
  func.return %r : i8
}""",
    "loop_carried_pure": """
func.func @f(%x: i8, %n: i8) -> i8 {
  %one = arith.constant 1 : i8
  %zero = arith.constant 0 : i8
  cf.br ^body(%zero, %x, %zero : i8, i8, i8)
^body(%i: i8, %acc: i8, %junk: i8):
  %acc2 = arith.addi %acc, %x : i8
  %junk2 = arith.muli %junk, %acc : i8
  %i2 = arith.addi %i, %one : i8
  %more = arith.cmpi slt, %i2, %n : i8
  cf.cond_br %more, ^body(%i2, %acc2, %junk2 : i8, i8, i8), ^exit(%acc : i8)
^exit(%r: i8):
  func.return %r : i8
}""",
    "loop_carried_two_hops": """
func.func @f(%x: i8, %n: i8) -> i8 {
  %one = arith.constant 1 : i8
  %zero = arith.constant 0 : i8
  cf.br ^body(%zero, %x, %x : i8, i8, i8)
^body(%i: i8, %p: i8, %q: i8):
  %p2 = arith.xori %q, %x : i8
  %q2 = arith.addi %p, %one : i8
  %i2 = arith.addi %i, %one : i8
  %more = arith.cmpi slt, %i2, %n : i8
  cf.cond_br %more, ^latch, ^exit(%p : i8)
^latch:
  cf.br ^body(%i2, %p2, %q2 : i8, i8, i8)
^exit(%r: i8):
  func.return %r : i8
}""",
    "unreachable_blocks": """
func.func private @ext(i8) -> i8
func.func @f(%x: i8) -> i8 {
  %a = arith.addi %x, %x : i8
  func.return %a : i8
^dead1:
  %b = func.call @ext(%x) : (i8) -> i8
  cf.br ^dead2(%b : i8)
^dead2(%p: i8):
  cf.br ^dead1
}""",
    "bottom_tested_loop": """
func.func private @ext(i8) -> i8
func.func @f(%x: i8, %n: i8) -> i8 {
  %one = arith.constant 1 : i8
  %zero = arith.constant 0 : i8
  cf.br ^body(%zero, %x : i8, i8)
^body(%i: i8, %acc: i8):
  %acc2 = func.call @ext(%acc) : (i8) -> i8
  %unused = arith.muli %acc2, %acc2 : i8
  %i2 = arith.addi %i, %one : i8
  %done = arith.cmpi sge, %i2, %n : i8
  cf.cond_br %done, ^exit, ^body(%i2, %acc2 : i8, i8)
^exit:
  func.return %acc2 : i8
}""",
    "diamond_rev_successors": """
func.func @f(%x: i8, %c: i1) -> i8 {
  cf.cond_br %c, ^m(%x : i8), ^t
^t:
  %a = arith.addi %x, %x : i8
  %dead = arith.muli %a, %a : i8
  cf.br ^m(%a : i8)
^m(%r: i8):
  func.return %r : i8
}""",
    "nested_if": """
func.func private @ext(i8) -> i8
func.func @f(%x: i8, %c: i1) -> i8 {
  %unused_if = scf.if %c -> (i8) {
    %p = arith.addi %x, %x : i8
    scf.yield %p : i8
  } else {
    scf.yield %x : i8
  }
  %eff_if = scf.if %c -> (i8) {
    %q = func.call @ext(%x) : (i8) -> i8
    scf.yield %q : i8
  } else {
    scf.yield %x : i8
  }
  %r = scf.if %c -> (i8) {
    %dead = arith.muli %x, %x : i8
    %s = arith.subi %x, %x : i8
    scf.yield %s : i8
  } else {
    "test.op"(%x) : (i8) -> ()
    scf.yield %x : i8
  }
  func.return %r : i8
}""",
    "symbols_kept": """
func.func private @unused_decl(i8) -> i8
func.func @unused_def(%x: i8) -> i8 {
  func.return %x : i8
}
func.func @f(%x: i8) -> i8 {
  %d = arith.addi %x, %x : i8
  func.return %x : i8
}""",
    "alloc_only": """
func.func @f(%x: i8, %i: index) -> i8 {
  %m = memref.alloc() : memref<4xi8>
  memref.store %x, %m[%i] : memref<4xi8>
  %m2 = memref.alloc() : memref<4xi8>
  %l = memref.load %m[%i] : memref<4xi8>
  func.return %l : i8
}""",
    "dealloc_kept": """
func.func @f(%x: i8, %i: index, %c: i1) -> i8 {
  %m = memref.alloc() : memref<4xi8>
  memref.store %x, %m[%i] : memref<4xi8>
  %l = memref.load %m[%i] : memref<4xi8>
  scf.if %c {
    memref.dealloc %m : memref<4xi8>
  }
  %n = memref.alloc() : memref<4xi8>
  memref.store %l, %n[%i] : memref<4xi8>
  memref.dealloc %n : memref<4xi8>
  func.return %l : i8
}""",
}
PASSES = ["dce", "dce()", "canonicalize"]


def bounds(tier):
    return {"programs": sorted(PROGRAMS), "passes": PASSES, "loop_trip_bound": 3, "argument_widths": "i1/i8/index"}


def obligations(tier):
    return [{"id": f"C13/{p}/{name}", "prog": name, "pass": p, "weight": 2} for name in PROGRAMS for p in PASSES]


_CTX = None


def ctx():
    global _CTX
    if _CTX is None:
        _CTX = Context(allow_unregistered=True)
        for d in (builtin.Builtin, arith.Arith, func.Func, cf.Cf, scf.Scf, memref.MemRef, test.Test):
            _CTX.load_dialect(d)
    return _CTX


def apply(m, p):
    if p == "dce()":
        from xdsl.transforms.dead_code_elimination import dce

        dce(m)
        return
    from xdsl.transforms import get_all_passes

    get_all_passes()[p]()().apply(ctx(), m)


def args_for(f, ex_named=None):
    from xdsl.dialects.builtin import MemRefType

    terms = []
    for i, t in enumerate(f.function_type.inputs.data):
        if isinstance(t, MemRefType):
            terms.append(refprog.MemRef(f"arg{i}", t.element_type, len(t.shape.data)))
        else:
            term = refprog.fresh_arg(f"x{i}", t)
            terms.append(term)
            if ex_named is not None:
                ex_named[f"x{i}"] = term
    return terms


def meaning(m, args):
    f = next(o for o in m.walk() if isinstance(o, func.FuncOp) and o.sym_name.data == "f")
    ref = refprog.Ref(m, loop_bound=4, fuel=200)
    # fresh copies of the memref objects so that both runs start from the same initial memory
    a2 = []
    for a in args:
        if isinstance(a, refprog.MemRef):
            c = refprog.MemRef(a.name, a.elem_t, a.rank)
            a2.append(c)
        else:
            a2.append(a)
    res = ref.call(f, a2)
    finals = [a.arr for a in a2 if isinstance(a, refprog.MemRef)]
    return res, ref.defined, ref.trace, ref, finals


def removable_left(m):
    """auxiliary structural post-condition of the dce pass (concrete)"""
    bad = []
    pure = lambda o: o.name.startswith("arith.") or o.name in ("test.pureop", "memref.load")  # noqa: E731
    for op in m.walk():
        if pure(op) and not op.has_trait(IsTerminator) and all(r.first_use is None for r in op.results) and op.results:
            bad.append(op.name)
    for op in m.walk():
        for r in op.regions:
            blocks = list(r.blocks)
            if len(blocks) > 1:
                reach = {id(blocks[0])}
                work = [blocks[0]]
                while work:
                    b = work.pop()
                    last = b.last_op
                    for s in (last.successors if last is not None else ()):
                        if id(s) not in reach:
                            reach.add(id(s))
                            work.append(s)
                for b in blocks:
                    if id(b) not in reach:
                        bad.append("unreachable block")
    return bad


def harness(ob, concrete_inputs=None):
    def h(ex):
        m = Parser(ctx(), "builtin.module {" + PROGRAMS[ob["prog"]] + "}").parse_module()
        m.verify()
        f = next(o for o in m.walk() if isinstance(o, func.FuncOp) and o.sym_name.data == "f")
        if concrete_inputs is None:
            args = args_for(f, ex.named)
        else:
            args = []
            for i, t in enumerate(f.function_type.inputs.data):
                from xdsl.dialects.builtin import MemRefType

                if isinstance(t, MemRefType):
                    args.append(refprog.MemRef(f"arg{i}", t.element_type, len(t.shape.data)))
                else:
                    args.append(z3.BitVecVal(concrete_inputs.get(f"x{i}", 0), refprog.width(t)))
        symbols_before = sorted(o.sym_name.data for o in m.walk() if isinstance(o, func.FuncOp))
        try:
            before = meaning(m, args)
        except refprog.RefFuel:
            if ex is not None:
                ex.assume(False)
            return True
        apply(m, ob["pass"])
        try:
            m.verify()
        except VerifyException as e:
            raise tv.InvalidIR(f"output does not verify: {e}")
        try:
            after = meaning(m, args)
        except refprog.RefUnsupported as e:
            if "undefined value" in str(e) or "terminator" in str(e):
                raise tv.InvalidIR(str(e))
            raise
        props = [tv.refinement(before[:4], after[:4])]
        for x, y in zip(before[4], after[4]):
            props.append(z3.Implies(before[1], x == y))
        props.append(z3.BoolVal(symbols_before == sorted(o.sym_name.data for o in m.walk() if isinstance(o, func.FuncOp))))
        if ob["pass"] == "dce":
            left = removable_left(m)
            if ex is not None:
                ex.note("removable_left", left)
            props.append(z3.BoolVal(not left))
        return z3.And(*props)

    return h


def run(ob, tier, stats, exclude):
    return decide(harness(ob), timeout_ms=20000, budget_s=120, stats=stats, exclude=exclude, ob=ob)


def evidence_extra(tier, results):
    return {"programs": len(results), "disagreements_checked": sum(r["ok_paths"] for r in results)}


def replay(ob, inputs):
    from vx.symx import Explorer

    out = {"bad": 0, "paths": 0}

    def h(ex):
        try:
            v = harness(ob, concrete_inputs=inputs)(ex)
        except tv.InvalidIR as e:
            out["bad"] += 1
            out["why"] = str(e)[:200]
            return True
        s = z3.Solver()
        s.add(*ex.pc)
        s.add(z3.Not(v) if z3.is_expr(v) else z3.BoolVal(not v))
        out["paths"] += 1
        if s.check() == z3.sat:
            out["bad"] += 1
        return True

    try:
        list(Explorer(max_paths=64).explore(h))
    except Exception as e:
        return {"violates": True, "observed": f"exception {type(e).__name__}: {str(e)[:300]}"}
    return {"violates": out["bad"] > 0, "detail": out}
