"""C01 - IR edits keep the op/block/region tree and the use-def chains consistent (inductive step on a symbolic heap)."""
from __future__ import annotations

import itertools

import z3

from vx import symheap
from vx.framework import decide
from vx.symheap import U, SymRef, as_id
from vx.symx import SymBool, SymInt, as_z3_bool

from xdsl.dialects import test
from xdsl.dialects.builtin import i32, i64
from xdsl.ir import Block, BlockArgument, Operation, OpResult, Region, SSAValue, Use
from xdsl.ir.core import SSAValues
from xdsl.rewriter import BlockInsertPoint, InsertPoint, Rewriter

symheap.REF_CLASSES[:] = [Operation, Block, Region, SSAValue, Use]
LEVEL = "other"
EXPLANATION = (
    "Inductive step (M2): a bounded inventory of REAL xdsl Operation/Block/Region/SSAValue/Use objects is wired by symbolic "
    "references (parent, _next_op/_prev_op, _first_op/_last_op, _next_block/_prev_block, _first_block/_last_block, operand "
    "targets, first_use/_prev_use/_next_use, successor targets) constrained only by the representation invariant of the "
    "property; one public mutation entry point of /repo runs on a symbolic receiver and symbolic arguments; z3 decides that the "
    "invariant holds again in the post-state (also when the call raised) for EVERY valid pre-state and argument choice. One "
    "step from an arbitrary valid state covers edit histories of any length within the inventory bound."
)
FUNCTIONS = ["Block.insert_op_before/insert_op_after/add_op/add_ops/insert_ops_before/insert_ops_after/detach_op/erase_op/split_before/insert_arg/erase_arg",
             "Region.add_block/insert_block/insert_block_before/insert_block_after/detach_block/erase_block/move_blocks/move_blocks_before",
             "IRWithUses.add_use/remove_use", "OpOperands.__setitem__", "Operation.operands setter", "Operation.successors setter / OpSuccessors.__setitem__",
             "Operation.detach/erase/drop_all_references", "SSAValue.replace_all_uses_with/replace_uses_with_if/erase",
             "Rewriter.erase_op/replace_op/insert_op/inline_block/replace_value_with_new_type/insert_block/inline_region/move_region_contents_to_new_regions",
             "Region.drop_all_references / Block.drop_all_references / RegionBlocks and BlockOps iteration (through erase of an op with a two-block region)"]
ASSUMPTIONS = ["the representation invariant Inv written in vx/checks/c01.py (doubly linked acyclic op/block lists with parent back-pointers; per value/block an acyclic doubly linked use list containing exactly the (op, index) uses whose operand/successor slot targets it; argument/result indices)",
               "extra pre-state assumption (not asserted afterwards): the nesting relation is a forest (ghost depth ranks), so ancestor walks terminate",
               "objects handed to an erase are excluded from the post-state inventory"]
OUTSIDE = ["Operation.drop_all_references on its own (a helper of erase that deliberately leaves operands without uses)", "the state left behind by a call that raises (the property quantifies over successful edits)", "nested erasure beyond the pinned shape of the erase[nested] obligation (an op owning one region of two blocks with one op each; operand wirings and use-list orders symbolic); uses from outside of values defined inside an erased op", "inventories larger than the bound", "states with cyclic nesting", "name hints", "PatternRewriter wrappers (C11)"]
STUBS = []

NOPS = {"quick": 3, "thorough": 4}


def bounds(tier):
    return {"ops": NOPS[tier], "blocks": 2 if tier == "quick" else 3, "regions": 2, "operand_slots_per_op": "2,1,0(,1)", "results_per_op": 1,
            "block_args": "1 per block", "successor_slots": "op0: 1"}


# ------------------------------------------------------------------------------------------------
class Inv:
    """bounded inventory of real IR objects with symbolic wiring"""

    def __init__(self, ex, nops, nblocks, nregions=2, with_uses=True, with_succ=True, nesting=True, nargs=1):
        U.reset()
        self.ex = ex
        self.with_uses = with_uses
        self.with_succ = with_succ
        outside = [test.TestOp(result_types=[i32]).results[0]]
        self.regions = [U.add(Region()) for _ in range(nregions)]
        self.blocks = [U.add(Block(arg_types=[i32] * nargs)) for _ in range(nblocks)]
        slots = [2, 1, 0, 1, 2][:nops]
        self.ops = []
        for i, k in enumerate(slots):
            regs = []
            if nesting and i == 0 and nregions >= 2:
                regs = [self.regions[1]]  # op0 owns region 1 (concrete nesting shape); region 0 is top-level
            if with_succ and i == 0:
                op = test.TestTermOp(operands=[outside[0]] * k, result_types=[i32], regions=regs, successors=[self.blocks[0]])
            else:
                op = test.TestOp(operands=[outside[0]] * k, result_types=[i32], regions=regs)
            self.ops.append(U.add(op))
        self.values = []
        for b in self.blocks:
            for a in b.args:
                self.values.append(U.add(a))
        for o in self.ops:
            for r in o.results:
                self.values.append(U.add(r))
        self.values.append(U.add(outside[0]))
        self.uses = []
        self.use_kind = {}
        for o in self.ops:
            for u in o._operand_uses:
                self.uses.append(U.add(u))
                self.use_kind[id(u)] = "operand"
            for u in o._successor_uses:
                self.uses.append(U.add(u))
                self.use_kind[id(u)] = "succ"
        self.erased = []
        self._wire()

    # -- symbolic wiring
    def _wire(self):
        ops, blocks, regions, values, uses = self.ops, self.blocks, self.regions, self.values, self.uses
        opuses = [u for u in uses if self.use_kind[id(u)] == "operand"]
        succuses = [u for u in uses if self.use_kind[id(u)] == "succ"]
        for i, o in enumerate(ops):
            o.parent = mref(f"op{i}.parent", blocks)
            o._next_op = mref(f"op{i}.next", ops)
            o._prev_op = mref(f"op{i}.prev", ops)
            if self.with_uses and len(o._operands):
                o._operands = SSAValues(tuple(mref(f"op{i}.operand{j}", values, allow_none=False) for j in range(len(o._operands))))
            if self.with_succ and len(o._successors):
                o._successors = tuple(mref(f"op{i}.succ{j}", blocks, allow_none=False) for j in range(len(o._successors)))
        for j, b in enumerate(blocks):
            b._first_op = mref(f"b{j}.first", ops)
            b._last_op = mref(f"b{j}.last", ops)
            b.parent = mref(f"b{j}.parent", regions)
            b._next_block = mref(f"b{j}.next", blocks)
            b._prev_block = mref(f"b{j}.prev", blocks)
            b.first_use = mref(f"b{j}.first_use", succuses) if (self.with_succ and succuses) else None
        for k, r in enumerate(regions):
            r._first_block = mref(f"r{k}.first", blocks)
            r._last_block = mref(f"r{k}.last", blocks)
        if self.with_uses:
            for n, v in enumerate(values):
                v.first_use = mref(f"v{n}.first_use", opuses) if opuses else None
            for n, u in enumerate(uses):
                pool = opuses if self.use_kind[id(u)] == "operand" else succuses
                u._prev_use = mref(f"u{n}.prev", pool)
                u._next_use = mref(f"u{n}.next", pool)
        # forest assumption (ghost ranks): the parent chain op -> block -> region -> op strictly decreases a rank
        rank_b = [z3.BitVec(f"rank_b{j}", 4) for j in range(len(blocks))]
        cs = []
        for k, r in enumerate(regions):
            if r.parent is not None:
                owner = r.parent
                for j, b in enumerate(blocks):
                    for j2, b2 in enumerate(blocks):
                        cs.append(z3.Implies(z3.And(as_id(b.parent) == U.id_of(r), as_id(owner.parent) == U.id_of(b2)), z3.UGT(rank_b[j], rank_b[j2])))
        if cs and MODEL is None:
            self.ex.assume(z3.And(*cs))

    # -- helpers for the invariant
    @staticmethod
    def F(objs, name):
        return symheap.field_fn(objs, name)

    def invariant(self, skip_ops=(), extra_blocks=(), extra_values=(), skip_blocks=(), extra_regions=(), skip_regions=()):
        I = as_id
        ops = [o for o in self.ops if not any(o is s for s in skip_ops)]
        blocks = [b for b in self.blocks if not any(b is s for s in skip_blocks)] + list(extra_blocks)
        regions = [r for r in self.regions if not any(r is s for s in skip_regions)] + list(extra_regions)
        cs = []
        n = len(self.ops) + 1
        nxt, prv, par = self.F(ops, "_next_op"), self.F(ops, "_prev_op"), self.F(ops, "parent")
        skip_ids = [U.id_of(s) for s in skip_ops]

        def not_skipped(t):
            return z3.And(*[t != s for s in skip_ids]) if skip_ids else z3.BoolVal(True)

        for o in ops:
            oid = symheap.idval(U.id_of(o))
            p, nx, pv = I(o.parent), I(o._next_op), I(o._prev_op)
            cs.append(not_skipped(nx))
            cs.append(not_skipped(pv))
            cs.append(z3.Implies(p == 0, z3.And(nx == 0, pv == 0)))
            cs.append(z3.Implies(nx != 0, z3.And(par(nx) == p, prv(nx) == oid)))
            cs.append(z3.Implies(pv != 0, z3.And(par(pv) == p, nxt(pv) == oid)))
            for b in blocks:
                bid = U.id_of(b)
                cs.append(z3.Implies(p == bid, z3.And((pv == 0) == (I(b._first_op) == oid), (nx == 0) == (I(b._last_op) == oid))))
            x = oid
            for _ in range(n):
                x = nxt(x)
            cs.append(x == 0)
        for b in blocks:
            bid = U.id_of(b)
            f, l = I(b._first_op), I(b._last_op)
            cs.append(not_skipped(f))
            cs.append(not_skipped(l))
            cs.append((f == 0) == (l == 0))
            cs.append(z3.Implies(f != 0, par(f) == bid))
            cs.append(z3.Implies(l != 0, par(l) == bid))
            cs.append(z3.Implies(f == 0, z3.And(*[I(o.parent) != bid for o in ops]) if ops else z3.BoolVal(True)))
        # block lists of regions
        m = len(blocks) + 1
        bn, bp, bpar = self.F(blocks, "_next_block"), self.F(blocks, "_prev_block"), self.F(blocks, "parent")
        for b in blocks:
            bid = symheap.idval(U.id_of(b))
            p, nx, pv = I(b.parent), I(b._next_block), I(b._prev_block)
            cs.append(z3.Implies(p == 0, z3.And(nx == 0, pv == 0)))
            cs.append(z3.Implies(nx != 0, z3.And(bpar(nx) == p, bp(nx) == bid)))
            cs.append(z3.Implies(pv != 0, z3.And(bpar(pv) == p, bn(pv) == bid)))
            for r in regions:
                rid = U.id_of(r)
                cs.append(z3.Implies(p == rid, z3.And((pv == 0) == (I(r._first_block) == bid), (nx == 0) == (I(r._last_block) == bid))))
            x = bid
            for _ in range(m):
                x = bn(x)
            cs.append(x == 0)
        for r in regions:
            rid = U.id_of(r)
            f, l = I(r._first_block), I(r._last_block)
            cs.append((f == 0) == (l == 0))
            cs.append(z3.Implies(f != 0, bpar(f) == rid))
            cs.append(z3.Implies(l != 0, bpar(l) == rid))
            cs.append(z3.Implies(f == 0, z3.And(*[I(b.parent) != rid for b in blocks])))
            # region sits in its op's regions tuple exactly when it points back
            owner = r.parent
            if owner is not None:
                cs.append(z3.BoolVal(sum(1 for x in getattr(owner, "regions", ()) if x is r) == 1))
        for o in ops:
            for r in o.regions:
                cs.append(z3.BoolVal(r.parent is o))
        # argument / result positions
        for b in blocks:
            for idx, a in enumerate(b._args):
                cs.append(as_z3_bool(SymInt.lift(a.index) == idx) if not isinstance(a.index, int) else z3.BoolVal(a.index == idx))
                cs.append(as_z3_bool(symheap.sym_is(a.block, b)) if isinstance(a.block, SymRef) else z3.BoolVal(a.block is b))
        for o in ops:
            for idx, r_ in enumerate(o.results):
                cs.append(z3.BoolVal(r_.index == idx and r_.op is o))
        # use lists
        if self.with_uses or self.with_succ:
            cs += self._use_invariant(ops, blocks, extra_values)
        return z3.And(*cs)

    def _use_invariant(self, ops, blocks, extra_values):
        I = as_id
        cs = []
        live_uses = []
        tgt = {}
        for o in ops:
            if len(o._operand_uses) != len(o._operands) or len(o._successor_uses) != len(o._successors):
                return [z3.BoolVal(False)]
            for idx, u in enumerate(o._operand_uses):
                if not U.has(u):
                    U.add(u)
                cs.append(z3.BoolVal(u._operation is o and u._index == idx))
                live_uses.append(u)
                tgt[id(u)] = I(o._operands[idx])
            for idx, u in enumerate(o._successor_uses):
                if not U.has(u):
                    U.add(u)
                cs.append(z3.BoolVal(u._operation is o and u._index == idx))
                live_uses.append(u)
                tgt[id(u)] = I(o._successors[idx])
        K = len(live_uses) + 1
        un, up = self.F(live_uses, "_next_use"), self.F(live_uses, "_prev_use")
        live_ids = [U.id_of(u) for u in live_uses]

        def is_live(t):
            return z3.Or(t == 0, *[t == i for i in live_ids])

        def tgt_fn(t):
            e = symheap.idval(255)
            for u in live_uses:
                e = z3.If(t == U.id_of(u), tgt[id(u)], e)
            return e

        holders = [v for v in self.values if not (isinstance(v, BlockArgument) and not any(v.block is b for b in blocks))] + list(extra_values) + list(blocks)
        fu = self.F(holders, "first_use")
        for u in live_uses:
            uid = symheap.idval(U.id_of(u))
            nx, pv = I(u._next_use), I(u._prev_use)
            cs.append(is_live(nx))
            cs.append(is_live(pv))
            cs.append(z3.Implies(nx != 0, z3.And(up(nx) == uid, tgt_fn(nx) == tgt[id(u)])))
            cs.append(z3.Implies(pv != 0, z3.And(un(pv) == uid, tgt_fn(pv) == tgt[id(u)])))
            cs.append((pv == 0) == (fu(tgt[id(u)]) == uid))
            x = uid
            for _ in range(K):
                x = un(x)
            cs.append(x == 0)
        for h in holders:
            f = I(h.first_use)
            cs.append(is_live(f))
            cs.append(z3.Implies(f != 0, z3.And(tgt_fn(f) == U.id_of(h), up(f) == 0)))
        return cs


# ------------------------------------------------------------------------------------------------
CALLS = {}
MODEL = None  # replay mode: dict name -> model value (object ids / ints); references become plain Python references


PINS = {}  # argument name -> index into its candidate list (enumerated, splits heavy calls into parallel obligations)


def mref(name, objs, allow_none=True):
    if name in PINS:
        return objs[PINS[name]]
    if MODEL is not None:
        return U.objs[MODEL.get(name, 0)] if name in MODEL else (None if allow_none else objs[0])
    return SymRef.var(name, objs, allow_none=allow_none)


def mint(name, lo, hi):
    if MODEL is not None:
        return MODEL.get(name, lo)
    return SymInt.var(name, lo, hi)


def mchoose(n, tag):
    if tag in PINS:
        return PINS[tag]
    if MODEL is not None:
        ch = (MODEL.get("__notes__") or {}).get("choices", [])
        k = MODEL.setdefault("__choice_ptr__", 0)
        MODEL["__choice_ptr__"] = k + 1
        return ch[k] if k < len(ch) else 0
    ex = cur_ex()
    c = ex.choose(n, tag)
    ex.notes.setdefault("choices", []).append(c)
    return c


def conc(x):
    return x.concretize() if isinstance(x, SymRef) else x


def call(name, weight=1, tiers=("quick", "thorough")):
    def deco(f):
        CALLS[name] = (f, weight, tiers)
        return f
    return deco


def R(name, objs, none=False):
    return mref(name, objs, allow_none=none)


@call("Block.detach_op")
def _(inv):
    Block.detach_op(R("self", inv.blocks), R("op", inv.ops))


@call("Block.insert_op_after")
def _(inv):
    Block.insert_op_after(R("self", inv.blocks), R("new", inv.ops), R("existing", inv.ops))


@call("Block.insert_op_before")
def _(inv):
    Block.insert_op_before(R("self", inv.blocks), R("new", inv.ops), R("existing", inv.ops))


@call("Block.add_op")
def _(inv):
    Block.add_op(R("self", inv.blocks), R("op", inv.ops))


@call("Block.add_ops", 2)
def _(inv):
    Block.add_ops(R("self", inv.blocks), [R("op_a", inv.ops), R("op_b", inv.ops)])


@call("Block.insert_ops_before", 2)
def _(inv):
    Block.insert_ops_before(R("self", inv.blocks), [R("op_a", inv.ops), R("op_b", inv.ops)], R("existing", inv.ops))


@call("Block.insert_ops_after", 2)
def _(inv):
    Block.insert_ops_after(R("self", inv.blocks), [R("op_a", inv.ops), R("op_b", inv.ops)], R("existing", inv.ops))


@call("Block.erase_op", 2)
def _(inv):
    op = R("op", inv.ops)
    inv.erased_ref = op
    Block.erase_op(R("self", inv.blocks), op, safe_erase=False)


@call("Block.split_before", 3)
def _(inv):
    nb = Block.split_before(R("self", inv.blocks), R("op", inv.ops))
    inv.new_blocks = [nb]


@call("Block.insert_arg")
def _(inv):
    idx = mint("index", -1, 4)
    a = Block.insert_arg(conc(R("self", inv.blocks)), i64, idx)
    inv.new_values = [a]


@call("Block.erase_arg", 2)
def _(inv):
    args = [a for b in inv.blocks for a in b.args]
    Block.erase_arg(conc(R("self", inv.blocks)), conc(R("arg", args)), safe_erase=False)
    inv.erased_values = True


@call("Region.add_block")
def _(inv):
    Region.add_block(R("self", inv.regions), R("block", inv.blocks))


@call("Region.add_block[2]", 2)
def _(inv):
    Region.add_block(R("self", inv.regions), [R("block_a", inv.blocks), R("block_b", inv.blocks)])


@call("Region.insert_block_before")
def _(inv):
    Region.insert_block_before(R("self", inv.regions), R("block", inv.blocks), R("target", inv.blocks))


@call("Region.insert_block_before[2]", 2)
def _(inv):
    Region.insert_block_before(R("self", inv.regions), [R("block_a", inv.blocks), R("block_b", inv.blocks)], R("target", inv.blocks))


@call("Region.insert_block_after")
def _(inv):
    Region.insert_block_after(R("self", inv.regions), R("block", inv.blocks), R("target", inv.blocks))


@call("Region.insert_block", 2)
def _(inv):
    Region.insert_block(R("self", inv.regions), R("block", inv.blocks), mint("index", -1, 3))


@call("Region.detach_block")
def _(inv):
    Region.detach_block(R("self", inv.regions), R("block", inv.blocks))


@call("Region.detach_block[int]", 2)
def _(inv):
    Region.detach_block(R("self", inv.regions), mint("index", 0, 2))


@call("Region.move_blocks", 2)
def _(inv):
    Region.move_blocks(R("self", inv.regions), R("region", inv.regions))


@call("Region.move_blocks_before", 2)
def _(inv):
    Region.move_blocks_before(R("self", inv.regions), R("target", inv.blocks))


@call("OpOperands.__setitem__", 2)
def _(inv):
    ops = [o for o in inv.ops if len(o._operands)]
    op = conc(R("op", ops))
    idx = mint("idx", 0, len(op._operands) - 1)
    op.operands[idx] = R("value", inv.values)


@call("Operation.operands=", 2)
def _(inv):
    ops = [o for o in inv.ops if len(o._operands)]
    op = conc(R("op", ops))
    op.operands = [R(f"value{j}", inv.values) for j in range(len(op._operands))]


@call("Operation.successors=", 2)
def _(inv):
    ops = [o for o in inv.ops if len(o._successors)]
    op = conc(R("op", ops))
    op.successors = [R(f"block{j}", inv.blocks) for j in range(len(op._successors))]


@call("OpSuccessors.__setitem__", 2)
def _(inv):
    ops = [o for o in inv.ops if len(o._successors)]
    op = conc(R("op", ops))
    op.successors[0] = R("block", inv.blocks)


@call("SSAValue.replace_all_uses_with", 3)
def _(inv):
    SSAValue.replace_all_uses_with(R("self", inv.values), R("value", inv.values))


@call("Operation.detach")
def _(inv):
    Operation.detach(R("self", inv.ops))


@call("Operation.erase", 3)
def _(inv):
    op = R("self", inv.ops)
    inv.erased_ref = op
    Operation.erase(op, safe_erase=False)


@call("Rewriter.erase_op", 3)
def _(inv):
    op = R("op", inv.ops)
    inv.erased_ref = op
    Rewriter.erase_op(op, safe_erase=False)


@call("Rewriter.insert_op", 3)
def _(inv):
    kind = mchoose(4, "ip")
    tgt_op = R("target", inv.ops)
    blk = R("tblock", inv.blocks)
    ip = [InsertPoint.before, InsertPoint.after][kind](tgt_op) if kind < 2 else [InsertPoint.at_start, InsertPoint.at_end][kind - 2](blk)
    Rewriter.insert_op(R("op", inv.ops), ip)


@call("Rewriter.replace_op", 4)
def _(inv):
    op = R("op", inv.ops)
    inv.erased_ref = op
    new = R("new", inv.ops)
    Rewriter.replace_op(op, [new], None, safe_erase=False)


@call("Rewriter.inline_block", 4)
def _(inv):
    src = R("source", inv.blocks)
    kind = mchoose(2, "ip")
    if kind == 0:
        dest = R("dest", inv.blocks)
        ip = InsertPoint.at_end(dest)
    else:
        tgt = R("target", inv.ops)
        dest = tgt.parent
        ip = InsertPoint.before(tgt)
    # documented preconditions: the source block has no predecessors and is not the destination (nor contains it)
    if MODEL is None:
        ex = cur_ex()
        ex.assume(as_id(src.first_use) == 0)
        ex.assume(as_id(src) != as_id(dest))
        ex.assume(as_id(dest) != 0)
    inv.erased_blocks = [src]
    Rewriter.inline_block(src, ip, [R("arg0", [v for v in inv.values if not isinstance(v, BlockArgument)])])
    inv.erased_values = True


@call("Rewriter.replace_value_with_new_type", 3)
def _(inv):
    val = conc(R("val", inv.values))
    nv = Rewriter.replace_value_with_new_type(val, i32)
    inv.new_values = [nv]
    inv.erased_values = True


@call("Rewriter.insert_block", 3)
def _(inv):
    kind = mchoose(4, "bip")
    tgt = R("target", inv.blocks)
    reg = R("tregion", inv.regions)
    bip = [BlockInsertPoint.before, BlockInsertPoint.after][kind](tgt) if kind < 2 else [BlockInsertPoint.at_start, BlockInsertPoint.at_end][kind - 2](reg)
    Rewriter.insert_block(R("block", inv.blocks), bip)


@call("Rewriter.insert_block[2]", 3)
def _(inv):
    kind = mchoose(2, "bip")
    bip = BlockInsertPoint.before(R("target", inv.blocks)) if kind == 0 else BlockInsertPoint.at_end(R("tregion", inv.regions))
    Rewriter.insert_block([R("block_a", inv.blocks), R("block_b", inv.blocks)], bip)


@call("Rewriter.inline_region", 3)
def _(inv):
    kind = mchoose(4, "bip")
    tgt = R("target", inv.blocks)
    reg = R("tregion", inv.regions)
    bip = [BlockInsertPoint.before, BlockInsertPoint.after][kind](tgt) if kind < 2 else [BlockInsertPoint.at_start, BlockInsertPoint.at_end][kind - 2](reg)
    Rewriter.inline_region(R("region", inv.regions), bip)


@call("Rewriter.move_region_contents_to_new_regions", 2)
def _(inv):
    nr = Rewriter.move_region_contents_to_new_regions(R("region", inv.regions))
    inv.new_regions = [nr]


@call("erase[nested]", 4)
def _(inv):
    """erasing an op whose region holds TWO blocks with ops in each: the tree shape is pinned (assumed), the operand wiring of every op
    - nested or not - and the order of every use list stay symbolic; everything nested in the erased op is gone afterwards"""
    op0, op1, op2, op3 = inv.ops[:4]
    b0, b1, b2 = inv.blocks[:3]
    r0, r1 = inv.regions[:2]
    if MODEL is None:
        ex = cur_ex()
        for ref, obj in ((op0.parent, b0), (op3.parent, b0), (op2.parent, b1), (op1.parent, b2), (b0.parent, r0), (b1.parent, r1), (b2.parent, r1), (b1._next_block, b2), (op0._next_op, op3)):
            ex.assume(as_id(ref) == U.id_of(obj))
        # values defined inside the erased op are not used from outside it (such IR does not verify; with safe_erase=False the caller vouches for it)
        inner_vals = [*b1.args, *b2.args, *op1.results, *op2.results]
        for t in op3._operands:
            for v in inner_vals:
                ex.assume(as_id(t) != U.id_of(v))
    how = mchoose(3, "how")
    inv.erased_ref = op0
    inv.erased_nested = [op1, op2]
    inv.erased_blocks = [b1, b2]
    inv.erased_regions = [r1]
    if how == 0:
        Operation.erase(op0, safe_erase=False)
    elif how == 1:
        Rewriter.erase_op(op0, safe_erase=False)
    else:
        Block.erase_op(b0, op0, safe_erase=False)


def cur_ex():
    from vx.symx import Explorer

    return Explorer.cur


SPLIT = {"Rewriter.replace_op": ("op", "new"), "Rewriter.inline_block": ("source", "ip", "dest_or_target"), "Rewriter.erase_op": ("op",), "Operation.operands=": ("op",),
         "SSAValue.replace_all_uses_with": ("self",), "Operation.erase": ("self",), "Block.erase_op": ("op",)}
POOL = {"op": "ops", "new": "ops", "source": "blocks", "self": None}


def obligations(tier):
    obs = []
    nops = min(NOPS[tier], 3)
    nblocks = 2 if tier == "quick" else 3
    for name, (f, w, tiers) in CALLS.items():
        if tier not in tiers:
            continue
        if name in SPLIT:
            sizes = []
            for a in SPLIT[name]:
                if a in ("op", "new") or (a == "self" and name.startswith("Operation")):
                    sizes.append(nops if name != "Operation.operands=" else 2)
                elif a == "source":
                    sizes.append(nblocks)
                elif a == "ip":
                    sizes.append(2)
                elif a == "dest_or_target":
                    sizes.append(max(nblocks, nops))
                else:  # values
                    sizes.append(nblocks + nops + 1)
            for combo in itertools.product(*[range(k) for k in sizes]):
                pins = dict(zip(SPLIT[name], combo))
                if "dest_or_target" in pins:
                    k = pins.pop("dest_or_target")
                    if pins["ip"] == 0:
                        if k >= nblocks or k == pins["source"]:
                            continue
                        pins["dest"] = k
                    else:
                        if k >= (2 if tier == "quick" else nops):
                            continue
                        pins["target"] = k
                obs.append({"id": f"C01/{name}/" + ",".join(f"{k}={v}" for k, v in pins.items()), "call": name, "pins": pins, "weight": w})
        else:
            obs.append({"id": f"C01/{name}", "call": name, "pins": {}, "weight": w})
    return obs


NESTED_ERASE = {"erase[nested]"}
ERASING = {"Block.erase_op", "Operation.drop_all_references", "Operation.erase", "Rewriter.erase_op", "Rewriter.replace_op", "Rewriter.inline_block"}
USES_CALLS = {"OpOperands.__setitem__", "Operation.operands=", "Operation.successors=", "OpSuccessors.__setitem__", "SSAValue.replace_all_uses_with",
              "Operation.drop_all_references", "Operation.erase", "Rewriter.erase_op", "Rewriter.replace_op", "Rewriter.inline_block", "Block.erase_op", "Block.erase_arg", "Rewriter.replace_value_with_new_type", "erase[nested]"}


def post_invariant(inv, raised):
    skip = []
    if inv.erased_ref is not None and raised is None:
        skip = [conc(inv.erased_ref)] + list(getattr(inv, "erased_nested", []))
    for nb in inv.new_blocks:
        U.add(nb)
        for a in nb.args:
            U.add(a)
    for v in inv.new_values:
        U.add(v)
    extra_values = list(inv.new_values) + [a for nb in inv.new_blocks for a in nb.args]
    # values created by the call (e.g. ErasedSSAValue placeholders) that are now operand targets
    known = {id(v) for v in inv.values} | {id(v) for v in extra_values}
    for o in inv.ops:
        if any(o is s for s in skip):
            continue
        for t in o._operands:
            if not isinstance(t, SymRef) and id(t) not in known:
                known.add(id(t))
                extra_values.append(t)
    if inv.erased_values:
        # arguments removed from their block are gone: keep values that still are an argument/result of something live
        live = {id(a) for b in inv.blocks for a in b._args} | {id(r) for o in inv.ops for r in o.results} | {id(inv.values[-1])}
        inv.values = [v for v in inv.values if id(v) in live]
    skip_blocks = [conc(b) for b in getattr(inv, "erased_blocks", [])]
    new_regions = getattr(inv, "new_regions", [])
    for nr in new_regions:
        U.add(nr)
    return inv.invariant(skip_ops=skip, extra_blocks=inv.new_blocks, extra_values=extra_values, skip_blocks=skip_blocks, extra_regions=new_regions, skip_regions=getattr(inv, "erased_regions", []))


ALLOWED = (ValueError, IndexError, AssertionError, StopIteration, KeyError, AttributeError, TypeError, Exception)


def run(ob, tier, stats, exclude):
    name = ob["call"]
    f = CALLS[name][0]
    with_uses = name in USES_CALLS
    nops = NOPS[tier]
    nblocks = 2 if tier == "quick" else 3

    def h(ex):
        PINS.clear()
        PINS.update(ob.get("pins") or {})
        n_ = nops if not with_uses else min(nops, 3)
        nb_ = nblocks
        if name in NESTED_ERASE:
            n_, nb_ = 4, 3
        if name == "Rewriter.inline_block" and ((ob.get("pins") or {}).get("ip") == 0 or tier == "quick"):
            n_ = 2  # appending a symbolic op list to a symbolic op list: path count explodes at 3 ops (measured > 165 s)
        inv = Inv(ex, n_, nb_, 2, with_uses=with_uses, with_succ=with_uses and name not in NESTED_ERASE, nesting=name not in ERASING or name in NESTED_ERASE, nargs=3 if name in ("Block.erase_arg", "Block.insert_arg") else 1)
        ex.note("nops", n_)
        ex.note("nblocks", nb_)
        inv.new_blocks, inv.new_values, inv.erased_ref, inv.erased_values, inv.erased_blocks, inv.new_regions = [], [], None, False, [], []
        ex.assume(inv.invariant())
        raised = None
        try:
            f(inv)
        except Exception as e:
            raised = e
        ex.note("raised", type(raised).__name__ if raised else None)
        if raised is not None:
            # the property quantifies over successful edits; what a failing call leaves behind is outside the claim
            return True
        try:
            return post_invariant(inv, raised)
        except Exception as e:
            import traceback

            from vx.symx import EngineBug

            raise EngineBug("harness: " + "".join(traceback.format_exception(type(e), e, e.__traceback__))[-800:])

    return decide(h, timeout_ms=30000 if tier == "quick" else 120000, budget_s=240 if tier == "quick" else 1500, stats=stats, exclude=exclude, ob=ob,
                  max_paths=3000, fuel=600)


def symx_base():
    from vx import symx

    return (symx.Unsupported, symx.Infeasible, symx.Fuel, symx.EngineBug)


def replay(ob, inputs):
    """The model of the symbolic heap is a concrete wiring of the inventory: it is rebuilt with plain Python references,
    the call runs on the uninstrumented code, and the same invariant is evaluated (all terms are constants)."""
    global MODEL
    name = ob["call"]
    f = CALLS[name][0]
    notes = inputs.get("__notes__") or {}
    MODEL = dict(inputs)
    PINS.clear()
    PINS.update(ob.get("pins") or {})
    try:
        uses_calls = USES_CALLS
        with_uses = name in uses_calls
        inv = Inv(None, notes.get("nops", 3), notes.get("nblocks", 2), 2, with_uses=with_uses, with_succ=with_uses and name not in NESTED_ERASE, nesting=name not in ERASING or name in NESTED_ERASE, nargs=3 if name in ("Block.erase_arg", "Block.insert_arg") else 1)
        pre = z3.simplify(inv.invariant())
        if not z3.is_true(pre):
            return {"violates": False, "why": f"model does not satisfy the pre-state invariant concretely: {pre}"}
        inv.new_blocks, inv.new_values, inv.erased_ref, inv.erased_values, inv.erased_blocks, inv.new_regions = [], [], None, False, [], []
        raised = None
        try:
            f(inv)
        except Exception as e:
            raised = e
        if raised is not None:
            return {"violates": False, "raised": type(raised).__name__}
        post = post_invariant(inv, raised)
        val = z3.simplify(post)
        return {"violates": z3.is_false(val), "raised": type(raised).__name__ if raised else None, "post": str(val)[:300]}
    finally:
        MODEL = None
