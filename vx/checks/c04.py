"""C04 - the generic textual form round-trips IR for every value/block name hint the API accepts; printing is deterministic."""
from __future__ import annotations

import z3

from vx import symstr
from vx.framework import decide
from vx.symcoll import SymDict
from vx.symstr import SymStr, SymStream
from vx.symx import SymBool, SymInt

symstr.install()

from xdsl.context import Context  # noqa: E402
from xdsl.dialects import builtin, test  # noqa: E402
from xdsl.dialects.builtin import IntegerAttr, ModuleOp, StringAttr, i1, i32, i64  # noqa: E402
from xdsl.ir import Block, Dialect, Region  # noqa: E402
from xdsl.irdl import IRDLOperation, irdl_op_definition, traits_def, var_operand_def, var_region_def, var_result_def  # noqa: E402
from xdsl.parser import Parser  # noqa: E402
from xdsl.printer import Printer  # noqa: E402
from xdsl.traits import IsolatedFromAbove, IsTerminator, NoTerminator  # noqa: E402
from xdsl.utils.exceptions import ParseError, VerifyException  # noqa: E402

LEVEL = "other"
EXPLANATION = (
    "IR skeletons (straight-line values with repeated/unnamed/hinted results, multi-result ops, block arguments, several blocks "
    "with branches and forward block references, nested and sibling regions reusing hints, an IsolatedFromAbove op with results "
    "followed by further definitions, a terminator with a forward successor that also owns a region, graph-style forward value "
    "references) are built through the IR API, and their value and block name hints are SYMBOLIC text: 1-2 cells over all of "
    "Unicode, and up to 5 cells over the identifier alphabet {a,b,_,0-9,$,.,-}. A hint the API refuses (ValueError) ends the "
    "path. The module is printed in generic form by the real Printer, the symbolic text is lexed and parsed by the real lexer "
    "and Parser in a fresh context (name tables held in list-backed dictionaries so that symbolic names need no hashing); z3 "
    "decides for all hint values that the parse succeeds, the parsed module has the same structure (operations, operand wiring, "
    "result and argument types, attributes, successors, region/block layout), printing the parsed module gives the same text, "
    "and printing the original again gives the same text."
)
FUNCTIONS = ["IRWithName.name_hint setter / extract_valid_name / _VALUE_NAME_PATTERN / _VALUE_NAME_SUFFIX_PATTERN", "Printer.print_op / print_op_with_default_format / _print_results / print_ssa_value / _populate_block_name / print_block / print_region / enter_scope / exit_scope",
             "MLIRLexer.lex, _lex_prefixed_ident, _suffix_id, _lex_bare_identifier", "Parser.parse_module / parse_operation / _parse_generic_operation / _register_ssa_definition / _parse_block / parse_optional_region / _get_block_from_name / forward references"]
ASSUMPTIONS = ["vx/shim_re.py and vx/symstr.py agree with CPython (validated by vx.selftest)"]
OUTSIDE = ["custom assembly formats (C05)", "attribute payloads (C06)", "hints longer than the stated bounds", "skeletons outside the catalogue; the repository's .mlir corpus and pass outputs (concrete, no symbolic dimension)"]
STUBS = ["Printer._ssa_names/_block_names and the Parser's name tables are list-backed dictionaries (vx.symcoll.SymDict): same semantics, keys compared with ==", "output stream: vx.symstr.SymStream"]

UNI = [(0, 35), (36, 36), (37, 44), (45, 46), (47, 47), (48, 57), (58, 64), (65, 90), (91, 94), (95, 95), (96, 96), (97, 122), (123, 127), (128, 0xD7FF), (0xE000, 0x10FFFF)]
ALPHA = [(97, 98), (95, 95), (48, 57), (36, 46)]


@irdl_op_definition
class IsoOp(IRDLOperation):
    name = "vx.iso"
    res = var_result_def()
    ops = var_operand_def()
    regs = var_region_def()
    traits = traits_def(IsolatedFromAbove(), NoTerminator())


@irdl_op_definition
class GraphOp(IRDLOperation):
    name = "vx.graph"
    regs = var_region_def()
    traits = traits_def(NoTerminator())


@irdl_op_definition
class RegOp(IRDLOperation):
    name = "vx.reg"
    res = var_result_def()
    ops = var_operand_def()
    regs = var_region_def()
    traits = traits_def(NoTerminator())


VX = Dialect("vx", [IsoOp, GraphOp, RegOp], [])


def fresh_ctx():
    ctx = Context()
    ctx.load_dialect(builtin.Builtin)
    ctx.load_dialect(test.Test)
    ctx.load_dialect(VX)
    return ctx


class Src:
    def __init__(self, ex, concrete, ob):
        self.ex, self.c, self.ob = ex, concrete, ob
        self.k = 0

    def choose(self, name, n):
        if self.c is not None:
            return int(self.c.get(name, 0))
        v = self.ex.choose(n, name)
        self.ex.named[name] = v
        return v

    def hint(self, tag):
        """None, or a symbolic name of the obligation's family"""
        fam, n = self.ob["names"], self.ob["n"]
        if self.c is not None:
            if self.c.get(f"{tag}__none", 0):
                return None
            return "".join(chr(self.c.get(f"{tag}{i}", 97)) for i in range(self.c.get(f"{tag}__len", 1)))
        if self.choose(f"{tag}__none", 2):
            self.ex.named[f"{tag}__len"] = 0
            return None
        if self.k:
            n = 1  # only the first symbolic hint of a skeleton gets the full length
        self.k += 1
        ln = 1 + self.ex.choose(n, f"{tag}__len")
        self.ex.named[f"{tag}__len"] = ln
        return SymStr.var_split(tag, ln, UNI if fam == "unicode" else ALPHA)


def set_hint(obj, h):
    """returns False if the API refuses the hint"""
    try:
        obj.name_hint = h
        return True
    except ValueError:
        return False


# ---- skeletons ------------------------------------------------------------------------------------------------------------
def T(n_res=1, operands=(), regions=(), props=None, types=None):
    return test.TestOp(operands=list(operands), result_types=types or [i32] * n_res, regions=list(regions), properties=props or {})


def sk_flat(src):
    a, b, c = T(), T(), T(types=[i64])
    hs = [src.hint("h0"), "a", src.hint("h2")]
    ok = all(set_hint(o.results[0], h) for o, h in zip((a, b, c), hs))
    use = T(0, [a.results[0], b.results[0], c.results[0]])
    return ModuleOp([a, b, c, use]), ok


def sk_same(src):
    a, b, c, d = T(), T(), T(), T()
    ok = set_hint(a.results[0], "a") and set_hint(b.results[0], "a") and set_hint(c.results[0], src.hint("h0")) and set_hint(d.results[0], None)
    use = T(0, [d.results[0], c.results[0], b.results[0], a.results[0]])
    return ModuleOp([a, b, c, d, use]), ok


def sk_unnamed(src):
    a, b, c = T(), T(), T()
    ok = set_hint(b.results[0], src.hint("h0"))
    use = T(0, [a.results[0], b.results[0], c.results[0]])
    return ModuleOp([a, b, c, use]), ok


def sk_multi(src):
    a = T(3)
    b = T(2, [a.results[2]])
    ok = set_hint(a.results[0], src.hint("h0")) and set_hint(a.results[1], "a") and set_hint(b.results[1], src.hint("h1"))
    use = T(0, [a.results[1], b.results[0], b.results[1], a.results[0]])
    return ModuleOp([a, b, use]), ok


def sk_blockargs(src):
    blk = Block(arg_types=[i32, i64, i1])
    ok = set_hint(blk.args[0], src.hint("h0")) and set_hint(blk.args[1], "a") and set_hint(blk, src.hint("b0"))
    a = T(1, [blk.args[0], blk.args[2]])
    ok = ok and set_hint(a.results[0], "a")
    blk.add_ops([a, test.TestTermOp(operands=[a.results[0], blk.args[1]])])
    return ModuleOp([T(0, regions=[Region([blk])])]), ok


def sk_blocks(src):
    b0, b1, b2, b3 = Block(), Block(arg_types=[i32]), Block(), Block()
    ok = set_hint(b1, src.hint("b0")) and set_hint(b2, src.hint("b1")) and set_hint(b3, None)
    v = T()
    b0.add_ops([v, test.TestTermOp(operands=[v.results[0]], successors=[b2, b1, b3])])
    b1.add_ops([test.TestTermOp(successors=[b2])])
    b2.add_ops([test.TestTermOp(successors=[b3, b1])])
    b3.add_ops([test.TestTermOp(successors=[b1])])
    return ModuleOp([T(0, regions=[Region([b0, b1, b2, b3])])]), ok


def sk_blockauto(src):
    """hinted blocks next to blocks that receive automatic names"""
    bs = [Block() for _ in range(4)]
    ok = set_hint(bs[1], src.hint("b0")) and set_hint(bs[3], src.hint("b2"))
    bs[0].add_ops([test.TestTermOp(successors=[bs[1], bs[2], bs[3]])])
    bs[1].add_ops([test.TestTermOp(successors=[bs[2]])])
    bs[2].add_ops([test.TestTermOp(successors=[bs[3], bs[1]])])
    bs[3].add_ops([test.TestTermOp(successors=[bs[2], bs[1]])])
    return ModuleOp([T(0, regions=[Region(bs)])]), ok


def sk_nested(src):
    outer = T()
    inner_a, inner_b = T(), T()
    ok = set_hint(outer.results[0], src.hint("h0")) and set_hint(inner_a.results[0], src.hint("h1")) and set_hint(inner_b.results[0], "a")
    r1 = Region([Block([inner_a, T(0, [inner_a.results[0], outer.results[0]])])])
    r2 = Region([Block([inner_b, T(0, [inner_b.results[0]])])])
    holder = RegOp(operands=[[outer.results[0]]], result_types=[[i32]], regions=[[r1, r2]])
    ok = ok and set_hint(holder.results[0], "a")
    return ModuleOp([outer, holder, T(0, [holder.results[0]])]), ok


def sk_iso(src):
    """an IsolatedFromAbove op WITH results, followed by further definitions in the enclosing scope"""
    pre = T()
    inner = T()
    ok = set_hint(inner.results[0], src.hint("h1"))
    iso = IsoOp(operands=[[pre.results[0]]], result_types=[[i32, i64]], regions=[[Region([Block([inner, T(0, [inner.results[0]])])])]])
    ok = ok and set_hint(iso.results[1], src.hint("h0"))
    post, post2 = T(), T()
    ok = ok and set_hint(post2.results[0], "a")
    return ModuleOp([pre, iso, post, post2, T(0, [iso.results[0], post.results[0], iso.results[1], post2.results[0], pre.results[0]])]), ok


def sk_termregion(src):
    """a terminator with a forward successor that also owns a region containing blocks of its own"""
    b0, b1, b2 = Block(), Block(), Block()
    ib0, ib1 = Block(), Block()
    ok = set_hint(b1, src.hint("b1")) and set_hint(ib1, src.hint("b2"))
    ib0.add_ops([test.TestTermOp(successors=[ib1])])
    ib1.add_ops([test.TestTermOp()])
    b0.add_ops([test.TestTermOp(successors=[b2, b1], regions=[Region([ib0, ib1])])])
    b1.add_ops([test.TestTermOp(successors=[b2])])
    b2.add_ops([test.TestTermOp()])
    return ModuleOp([T(0, regions=[Region([b0, b1, b2])])]), ok


def sk_graph(src):
    """forward value references inside a graph-like region"""
    a = T()
    user = T(1, [a.results[0]])
    ok = set_hint(a.results[0], src.hint("h0")) and set_hint(user.results[0], src.hint("h1"))
    g = GraphOp(regions=[[Region([Block([user, a, T(0, [user.results[0]])])])]])
    return ModuleOp([g]), ok


def sk_floatattrs(src):
    """both zeros of one float type as property/attribute payloads of different ops of ONE module (each order), plus NaN/inf: the text of one
    payload must not depend on which other payloads were printed before it"""
    from xdsl.dialects.builtin import FloatAttr, f32, f64

    vals = [(0.0, f32), (-0.0, f32), (-0.0, f64), (0.0, f64), (1.5, f32), (-1.5, f32), (float("inf"), f64), (float("-inf"), f64)]
    ops = [T() for _ in vals]
    for o, (v, t) in zip(ops, vals):
        o.attributes["p"] = FloatAttr(v, t)
    ops[1].attributes["d"] = FloatAttr(0.0, f64)
    ops[0].attributes["d"] = FloatAttr(-0.0, f64)
    ok = set_hint(ops[0].results[0], src.hint("h0"))
    use = T(0, [o.results[0] for o in ops])
    return ModuleOp(ops + [use]), ok


def payloads_equal(m, m2):
    """attribute/property payloads compared as attribute VALUES (not through the printer under test)"""
    a, b = list(m.walk()), list(m2.walk())
    if len(a) != len(b):
        return False
    for x, y in zip(a, b):
        if dict(x.properties) != dict(y.properties) or dict(x.attributes) != dict(y.attributes):
            return False
    return True


SKELETONS = {"floatattrs": sk_floatattrs, "flat": sk_flat, "same": sk_same, "unnamed": sk_unnamed, "multi": sk_multi, "blockargs": sk_blockargs, "blocks": sk_blocks, "blockauto": sk_blockauto, "nested": sk_nested, "iso": sk_iso,
             "termregion": sk_termregion, "graph": sk_graph}


# ---- structural snapshot -----------------------------------------------------------------------------------------------------
def snapshot(module):
    vid, bid = {}, {}
    for op in module.walk():
        for r in op.results:
            vid[r] = len(vid)
        for reg in op.regions:
            for b in reg.blocks:
                bid[b] = len(bid)
                for a in b.args:
                    vid[a] = len(vid)
    out = []

    def rec(op):
        out.append(("op", op.name, tuple(vid.get(o, -1) for o in op.operands), tuple(str(o.type) for o in op.operands), tuple(str(r.type) for r in op.results),
                    tuple(sorted((k, str(v)) for k, v in op.properties.items())), tuple(sorted((k, str(v)) for k, v in op.attributes.items())), tuple(bid.get(s, -1) for s in op.successors), len(op.regions)))
        for reg in op.regions:
            out.append(("region", len(reg.blocks)))
            for b in reg.blocks:
                out.append(("block", bid[b], tuple(str(a.type) for a in b.args), len(b.ops)))
                for o in b.ops:
                    rec(o)

    rec(module)
    return out


def print_module(m):
    st = SymStream()
    p = Printer(stream=st, print_generic_format=True)
    p._ssa_names = [SymDict()]
    p._block_names = [SymDict()]
    p.print_op(m)
    return st.getvalue()


def harness(ob, concrete=None):
    def h(ex):
        symstr.RENDER_INTS[0] = True
        symstr.SYM_BYTEARRAY[0] = True
        symstr.SYM_DICT[0] = True
        symstr.HAVOC_FLOAT[0] = False
        src = Src(ex, concrete, ob)
        m, ok = SKELETONS[ob["skeleton"]](src)
        if not ok:
            return True  # the API refuses one of the hints: nothing to print
        m.verify()
        text = print_module(m)
        if ex is not None:
            ex.note("text", repr(text)[:300])
        again = print_module(m)
        r = text == again
        if r is False:
            return {"prop": False, "detail": "printing the same IR twice gives different text"}
        try:
            m2 = Parser(fresh_ctx(), text).parse_module()
            m2.verify()
        except (ParseError, VerifyException) as e:
            return {"prop": False, "detail": f"printed IR does not parse back: {type(e).__name__}"}
        if snapshot(m) != snapshot(m2):
            return {"prop": False, "detail": "parsed IR is not structurally the same"}
        if ob["skeleton"] == "floatattrs" and not payloads_equal(m, m2):
            return {"prop": False, "detail": "parsed IR carries different attribute/property values"}
        text2 = print_module(m2)
        r2 = text == text2
        if r2 is False:
            return {"prop": False, "detail": "printing the parsed IR does not reproduce the text"}
        for x in (r2,):
            r = x if r is True else (r if x is True else r & x)
        return r

    return h


def bounds(tier):
    return {"skeletons": sorted(SKELETONS), "hint_families": {"unicode": "1-2 cells over all of Unicode", "alphabet": f"1-{4 if tier == 'quick' else 5} cells over {{a,b,_,0-9}} and the code points 36-46 ($ . - and refused characters)"},
            "symbolic_hints_per_skeleton": "first hint with the full length, a second one with 1 cell; the others fixed to 'a' or absent"}


def obligations(tier):
    obs = []
    for sk in SKELETONS:
        obs.append({"id": f"C04/{sk}/unicode", "skeleton": sk, "names": "unicode", "n": 2, "weight": 5, "budget_s": 900})
        obs.append({"id": f"C04/{sk}/alphabet", "skeleton": sk, "names": "alphabet", "n": 4 if tier == "quick" else 5, "weight": 8, "budget_s": 900})
    return obs


def run(ob, tier, stats, exclude):
    return decide(harness(ob), timeout_ms=30000, budget_s=ob.get("budget_s", 900), stats=stats, exclude=exclude, ob=ob, max_paths=200000, fuel=2000000)


def replay(ob, inputs):
    try:
        v = harness(ob, concrete=inputs)(None)
    except Exception as e:
        return {"violates": True, "observed": f"exception {type(e).__name__}: {str(e)[:300]}"}
    if isinstance(v, dict):
        return {"violates": not v["prop"], "observed": v["detail"]}
    return {"violates": not bool(v), "observed": "text differs" if not v else "agrees"}
