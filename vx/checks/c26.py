"""C26 - affine expression algebra preserves values (M1: symbolic constants and symbolic evaluation points)."""
from __future__ import annotations

import itertools

import z3

from vx.framework import decide
from vx.symx import Explorer, SymBool, SymInt, as_z3_bool, ite_int

from xdsl.ir.affine import AffineBinaryOpExpr, AffineBinaryOpKind, AffineConstantExpr, AffineDimExpr, AffineExpr, AffineMap, AffineSymExpr

K = AffineBinaryOpKind
LEVEL = "other"
EXPLANATION = (
    "For every expression-tree shape of the family, the real AffineExpr code (operator construction with its folding/"
    "simplification, simplify() via SimpleAffineExprFlattener, compose, replace_dims_and_symbols, AffineMap.compose, "
    "str + AffineParser) is executed with SYMBOLIC constants (coefficients, addends, divisors) - the code forks on them - "
    "and the transformed expression is evaluated with the real eval() at a symbolic point; z3 decides that the value equals "
    "an independent reference evaluation of the original tree for all constants and all points in the box."
)
FUNCTIONS = ["AffineExpr.__add__/__mul__/__neg__/__sub__/__floordiv__/ceil_div/__mod__/binary", "AffineExpr._simplify_add/_simplify_mul/_try_fold_constant",
             "AffineExpr.simplify", "SimpleAffineExprFlattener.*", "AffineExpr.from_flat_form", "AffineExpr.compose/replace_dims_and_symbols/eval",
             "AffineMap.compose/eval/replace_dims_and_symbols", "AffineParser.parse_affine_map (concrete constants)", "AffineBinaryOpExpr.__str__"]
ASSUMPTIONS = ["reference semantics of affine expressions: + and * on integers, floordiv = floor, ceildiv = ceil, mod = remainder in [0, c) for c > 0",
               "divisors and moduli are positive (the property's domain); math.gcd replaced by an equivalent ite-chain over the bounded range (vx/shim_math.gcd)"]
OUTSIDE = ["semi-affine expressions", "constants or evaluation points outside the stated boxes", "trees with more binary nodes than the bound"]
STUBS = ["math.gcd -> symbolic gcd for arguments <= 128 (vx/shim_math.py)"]

BOX = {"quick": {"coef": (-3, 3), "add": (-4, 4), "div": (1, 4), "pt": (-12, 12), "nodes": 2},
       "thorough": {"coef": (-4, 4), "add": (-6, 6), "div": (1, 6), "pt": (-20, 20), "nodes": 3}}


def bounds(tier):
    return dict(BOX[tier], dims=2, symbols=1)


LEAVES = ["d0", "d1", "s0", "c"]
OPS = ["add", "mul", "floordiv", "ceildiv", "mod"]


def shapes(n):
    """all tree shapes with exactly n binary nodes; rhs of mul/div/mod is a constant"""
    if n == 0:
        for l in LEAVES:
            yield l
        return
    for op in OPS:
        if op == "add":
            for k in range(n):
                for a in shapes(k):
                    for b in shapes(n - 1 - k):
                        yield ("add", a, b)
        else:
            for a in shapes(n - 1):
                if a == "c":
                    continue
                yield (op, a, "c")


def shape_str(s):
    if isinstance(s, str):
        return s
    if s[0] == "dup":
        return f"dup({shape_str(s[1])})"
    return f"{s[0]}({shape_str(s[1])},{shape_str(s[2])})"


# the same subtree (same constants) occurring twice - as `compose` produces - plus sums whose quotients can coincide
_M = ("mod", ("mul", "d0", "c"), "c")
EXTRA_SHAPES = [("dup", _M), ("dup", ("mod", ("add", ("mul", "d0", "c"), "d1"), "c")), ("dup", ("floordiv", ("mul", "d0", "c"), "c")), ("dup", ("ceildiv", ("mul", "d0", "c"), "c")),
                ("add", ("floordiv", "d0", "c"), _M), ("add", _M, ("floordiv", "d0", "c")), ("add", _M, _M), ("add", ("dup", _M), "s0")]


def canon_shapes(n):
    out = []
    seen = set()
    for s in shapes(n):
        # drop add(c, x) duplicates of add(x, c) only if identical after swap
        key = shape_str(s)
        if key in seen:
            continue
        seen.add(key)
        out.append(s)
    return out


def obligations(tier):
    obs = []
    nmax = BOX[tier]["nodes"]
    all_shapes = []
    for n in range(1, nmax + 1):
        all_shapes += canon_shapes(n)
    if tier == "quick":
        # all 1- and 2-node shapes but only those with at least one div/mod or a nested mul for 2 nodes
        all_shapes = [s for s in all_shapes if count_nodes(s) == 1 or ("div" in shape_str(s) or "mod" in shape_str(s) or "mul(add" in shape_str(s) or "mul(mul" in shape_str(s))]
    for s in all_shapes:
        ss = shape_str(s)
        w = count_nodes(s)
        obs.append({"id": f"C26/build/{ss}", "kind": "build", "shape": s, "weight": w})
        obs.append({"id": f"C26/simplify/{ss}", "kind": "simplify", "shape": s, "weight": 2 * w})
    for s in EXTRA_SHAPES:
        obs.append({"id": f"C26/simplify/{shape_str(s)}", "kind": "simplify", "shape": s, "weight": 8, "budget_s": 600})
    comp_shapes = [s for s in all_shapes if count_nodes(s) <= (1 if tier == "quick" else 2)]
    inner = [("add", ("mul", "d0", "c"), "c"), ("add", "d0", "d1"), ("floordiv", "d0", "c"), ("mod", ("add", "d0", "s0"), "c")]
    for s in comp_shapes:
        if "d0" not in shape_str(s) and "d1" not in shape_str(s):
            continue
        for j, r in enumerate(inner if tier == "thorough" else inner[:3]):
            obs.append({"id": f"C26/compose/{shape_str(s)}/with{j}", "kind": "compose", "shape": s, "inner": r, "weight": 3})
    for s in comp_shapes:
        obs.append({"id": f"C26/mapcompose/{shape_str(s)}", "kind": "mapcompose", "shape": s, "weight": 3})
    # constant folding at full 64-bit width (construction-time folds in compose/replace/parse)
    # (two free 64-bit operands do not finish for mul/div/mod in either solver: those run with 16-bit operands,
    #  and at 64 bit with the right operand pinned to boundary constants)
    for op in OPS:
        nb = 64 if op == "add" else (16 if op == "mul" else 10)
        obs.append({"id": f"C26/fold{nb}/{op}", "kind": "fold64", "op": op, "pin": None, "bits": nb, "weight": 2})
        if op != "add":
            for c in ((1, 2, 3, 4) if op != "mul" else (3, -1, -7)):
                obs.append({"id": f"C26/fold64/{op}/rhs={c}", "kind": "fold64", "op": op, "pin": c, "bits": 64, "weight": 2})
    for s in all_shapes if tier == "thorough" else [s for s in all_shapes if count_nodes(s) <= 2][::3]:
        obs.append({"id": f"C26/printparse/{shape_str(s)}", "kind": "printparse", "shape": s, "weight": 2})
    return obs


def count_nodes(s):
    if isinstance(s, str):
        return 0
    if s[0] == "dup":
        return 1 + 2 * count_nodes(s[1])
    return 1 + count_nodes(s[1]) + count_nodes(s[2])


# ------------------------------------------------------------------------------------------------
class Ctx:
    def __init__(self, tier, prefix=""):
        self.box = BOX[tier]
        self.n = 0
        self.prefix = prefix

    def const(self, role):
        lo, hi = self.box[role]
        self.n += 1
        return SymInt.var(f"{self.prefix}k{self.n}_{role}", lo, hi)


def build_raw(s, cx, consts_out, parent_op=None, side=None):
    """raw tree (no folding) + reference evaluator closure"""
    if isinstance(s, str):
        if s == "d0":
            return AffineDimExpr(0), lambda d, y: d[0]
        if s == "d1":
            return AffineDimExpr(1), lambda d, y: d[1]
        if s == "s0":
            return AffineSymExpr(0), lambda d, y: y[0]
        role = "add" if parent_op in (None, "add") else ("coef" if parent_op == "mul" else "div")
        c = cx.const(role)
        consts_out.append(c)
        return AffineConstantExpr(c), lambda d, y: c
    if s[0] == "dup":
        e1, f1 = build_raw(s[1], cx, consts_out, "add", "l")
        return AffineBinaryOpExpr(K.Add, e1, e1), (lambda d, y: ref_add(f1(d, y), f1(d, y)))
    op, a, b = s
    ea, fa = build_raw(a, cx, consts_out, op, "l")
    eb, fb = build_raw(b, cx, consts_out, op, "r")
    kind = {"add": K.Add, "mul": K.Mul, "floordiv": K.FloorDiv, "ceildiv": K.CeilDiv, "mod": K.Mod}[op]
    e = AffineBinaryOpExpr(kind, ea, eb)
    if op == "add":
        f = lambda d, y: ref_add(fa(d, y), fb(d, y))  # noqa: E731
    elif op == "mul":
        f = lambda d, y: ref_mul(fa(d, y), fb(d, y))  # noqa: E731
    elif op == "floordiv":
        f = lambda d, y: ref_floordiv(fa(d, y), fb(d, y))  # noqa: E731
    elif op == "ceildiv":
        f = lambda d, y: ref_ceildiv(fa(d, y), fb(d, y))  # noqa: E731
    else:
        f = lambda d, y: ref_mod(fa(d, y), fb(d, y))  # noqa: E731
    return e, f


# reference arithmetic on z3 terms (independent of the code under test): signed BV of width RW, no overflow in the boxes
RW = 40


def bv(x):
    return SymInt.lift(x).ext(RW) if not z3.is_expr(x) else x


def ref_add(a, b):
    return bv(a) + bv(b)


def ref_mul(a, b):
    return bv(a) * bv(b)


def ref_floordiv(a, b):
    a, b = bv(a), bv(b)
    q = a / b
    r = z3.SRem(a, b)
    return z3.If(z3.And(r != 0, (r < 0) != (b < 0)), q - 1, q)


def ref_ceildiv(a, b):
    a, b = bv(a), bv(b)
    q = a / b
    r = z3.SRem(a, b)
    return z3.If(z3.And(r != 0, (r < 0) == (b < 0)), q + 1, q)


def ref_mod(a, b):
    a, b = bv(a), bv(b)
    r = z3.SRem(a, b)
    return z3.If(r < 0, r + b, r)  # b > 0


def build_ops(e):
    """rebuild a raw tree through the public operator API (folds/simplifies during construction)"""
    if isinstance(e, AffineBinaryOpExpr):
        return AffineExpr.binary(e.kind, build_ops(e.lhs), build_ops(e.rhs))
    return e


def point(tier):
    lo, hi = BOX[tier]["pt"]
    d = [SymInt.var("d0", lo, hi), SymInt.var("d1", lo, hi)]
    y = [SymInt.var("s0", lo, hi)]
    return d, y


def eq_val(real, ref):
    """real: python int / SymInt from the real eval(); ref: z3 BV(RW)"""
    if isinstance(real, (bool, SymBool)) or not isinstance(real, (int, SymInt)):
        return z3.BoolVal(False)
    r = SymInt.lift(real)
    if r.e.size() > RW:
        return z3.And(r.ext(r.e.size()) == z3.SignExt(r.e.size() - RW, ref))
    return r.ext(RW) == ref


RW64 = 132


def run_fold64(ob, tier, stats, exclude):
    op = ob["op"]
    kind_ = {"add": K.Add, "mul": K.Mul, "floordiv": K.FloorDiv, "ceildiv": K.CeilDiv, "mod": K.Mod}[op]

    def h(ex):
        nb = ob.get("bits", 64)
        a = SymInt.var("a", -(1 << (nb - 1)), (1 << (nb - 1)) - 1)
        b = SymInt.var("b", 1, (1 << (nb // 2 - 1)) - 1) if op in ("floordiv", "ceildiv", "mod") else SymInt.var("b", -(1 << (nb - 1)), (1 << (nb - 1)) - 1)
        if ob.get("pin") is not None:
            ex.assume(b == ob["pin"])
        e = AffineExpr.binary(kind_, AffineExpr.constant(a), AffineExpr.constant(b))
        A, B = a.ext(RW64), b.ext(RW64)
        ref = {"add": ref_add, "mul": ref_mul, "floordiv": ref_floordiv, "ceildiv": ref_ceildiv, "mod": ref_mod}[op](A, B)
        if not isinstance(e, AffineConstantExpr):
            return z3.BoolVal(False)
        v = SymInt.lift(e.value)
        # also through replace_dims_and_symbols: (d0 op b)[d0 := a]
        if op in ("floordiv", "ceildiv", "mod", "mul", "add"):
            e2 = AffineBinaryOpExpr(kind_, AffineDimExpr(0), AffineConstantExpr(b)).replace_dims_and_symbols((AffineExpr.constant(a),), ())
            ok2 = isinstance(e2, AffineConstantExpr) and True
            v2 = SymInt.lift(e2.value) if ok2 else None
        W = max(RW64, v.e.size())
        res = v.ext(W) == (z3.SignExt(W - RW64, ref) if W > RW64 else ref)
        if v2 is not None:
            W2 = max(RW64, v2.e.size())
            res = z3.And(res, v2.ext(W2) == (z3.SignExt(W2 - RW64, ref) if W2 > RW64 else ref))
        else:
            res = z3.BoolVal(False)
        return res

    return decide(h, timeout_ms=20000 if tier == "quick" else 60000, budget_s=120, stats=stats, exclude=exclude, ob=ob)


def run(ob, tier, stats, exclude):
    kind = ob["kind"]
    if kind == "fold64":
        return run_fold64(ob, tier, stats, exclude)
    shape = totuple(ob["shape"])

    def h(ex):
        cx = Ctx(tier)
        consts = []
        raw, ref = build_raw(shape, cx, consts)
        d, y = point(tier)
        refv = ref(d, y)
        if kind == "build":
            e = build_ops(raw)
            return eq_val(e.eval(d, y), refv)
        if kind == "simplify":
            e = build_ops(raw)
            se = e.simplify(2, 1)
            # also: the raw (unfolded) tree simplified directly
            se2 = raw.simplify(2, 1)
            return z3.And(eq_val(se.eval(d, y), refv), eq_val(se2.eval(d, y), refv))
        if kind == "compose":
            cx2 = Ctx(tier, "i")
            ic = []
            inner_raw, inner_ref = build_raw(totuple(ob["inner"]), cx2, ic)
            inner2_raw, inner2_ref = build_raw(("add", "d1", "c"), cx2, ic)
            m = AffineMap(2, 1, (build_ops(inner_raw), build_ops(inner2_raw)))
            e = build_ops(raw)
            ce = e.compose(m)
            # reference: evaluate outer at (inner(d,y), inner2(d,y)) with the same symbols
            nd = [inner_ref(d, y), inner2_ref(d, y)]
            refc = ref(nd, y)
            r1 = eq_val(ce.eval(d, y), refc)
            # replace_dims_and_symbols with a symbol replacement too
            re_ = e.replace_dims_and_symbols((build_ops(inner_raw),), (AffineExpr.symbol(0) + 1,))
            ref2 = ref([inner_ref(d, y), bv(d[1])], [bv(y[0]) + 1])
            return z3.And(r1, eq_val(re_.eval(d, y), ref2))
        if kind == "mapcompose":
            cx2 = Ctx(tier, "i")
            ic = []
            g0_raw, g0_ref = build_raw(("add", ("mul", "d0", "c"), "s0"), cx2, ic)
            g1_raw, g1_ref = build_raw(("floordiv", ("add", "d0", "c"), "c"), cx2, ic)
            f_map = AffineMap(2, 1, (build_ops(raw), AffineExpr.dimension(1) + AffineExpr.symbol(0)))
            g_map = AffineMap(1, 1, (build_ops(g0_raw), build_ops(g1_raw)))
            comp = f_map.compose(g_map)  # dims of g (1), symbols: f's then g's (2)
            x = [d[0]]
            syms = [y[0], d[1]]  # s0 (f's), s1 (g's)
            gd = [d[0], None]
            gvals = [g0_ref([d[0], None], [d[1]]), g1_ref([d[0], None], [d[1]])]
            exp0 = ref(gvals, [y[0]])
            exp1 = ref_add(gvals[1], bv(y[0]))
            res = comp.eval(x, syms)
            return z3.And(z3.BoolVal(len(res) == 2), eq_val(res[0], exp0), eq_val(res[1], exp1),
                          z3.BoolVal(comp.num_dims == 1 and comp.num_symbols == 2))
        if kind == "printparse":
            # constants: enumerated from a boundary set by forking (printing needs concrete text)
            for c in consts:
                lo, hi = c.lo, c.hi
                cands = sorted({lo, hi, 1, 2, -1, 0} & set(range(lo, hi + 1)))
                i = ex.choose(len(cands), "const")
                ex.assume(c == cands[i])
            conc = concretize_tree(raw)
            e = build_ops(conc)
            text = f"(d0, d1)[s0] -> ({e})"
            m = parse_map(text)
            text2 = str(m)
            m2 = parse_map(text2)
            return z3.And(eq_val(m.results[0].eval(d, y), refv), eq_val(m2.results[0].eval(d, y), refv), z3.BoolVal(str(m2) == text2))
        raise KeyError(kind)

    def on_raise(exc, p):
        # the documented domain errors: non-positive divisor is excluded by the box; NotImplementedError for semi-affine cannot occur
        return False

    return decide(h, timeout_ms=20000 if tier == "quick" else 60000, budget_s=150 if tier == "quick" else 1200, stats=stats,
                  exclude=exclude, ob=ob, on_raise=on_raise, max_paths=4000)


def concretize_tree(e):
    if isinstance(e, AffineBinaryOpExpr):
        return AffineBinaryOpExpr(e.kind, concretize_tree(e.lhs), concretize_tree(e.rhs))
    if isinstance(e, AffineConstantExpr):
        v = e.value
        return AffineConstantExpr(v.concretize() if isinstance(v, SymInt) else v)
    return e


def parse_map(text):
    from xdsl.context import Context
    from xdsl.parser import Parser

    return Parser(Context(), text).parse_affine_map()


def totuple(s):
    return s if isinstance(s, str) else tuple(totuple(x) for x in s)


# ------------------------------------------------------------------------------------------------
def replay(ob, inputs):
    """concrete re-run with plain ints; oracle: straightforward python evaluation of the raw tree"""
    kind = ob["kind"]
    if kind == "fold64":
        op = ob["op"]
        kind_ = {"add": K.Add, "mul": K.Mul, "floordiv": K.FloorDiv, "ceildiv": K.CeilDiv, "mod": K.Mod}[op]
        a, b = inputs["a"], inputs["b"]
        exp = {"add": a + b, "mul": a * b, "floordiv": a // b, "ceildiv": -((-a) // b), "mod": a % b}[op]
        try:
            e = AffineExpr.binary(kind_, AffineExpr.constant(a), AffineExpr.constant(b))
            e2 = AffineBinaryOpExpr(kind_, AffineDimExpr(0), AffineConstantExpr(b)).replace_dims_and_symbols((AffineExpr.constant(a),), ())
            bad = not (isinstance(e, AffineConstantExpr) and e.value == exp and isinstance(e2, AffineConstantExpr) and e2.value == exp)
            return {"violates": bad, "observed": [str(e), str(e2)], "expected": exp}
        except Exception as ex_:
            return {"violates": True, "observed": f"exception {type(ex_).__name__}: {ex_}"}
    shape = totuple(ob["shape"])

    class CC:
        def __init__(self, prefix=""):
            self.n = 0
            self.prefix = prefix

        def const(self, role):
            self.n += 1
            return inputs.get(f"{self.prefix}k{self.n}_{role}", 1 if role == "div" else 0)

    def build(s, cx, parent=None):
        if isinstance(s, str):
            if s == "d0":
                return AffineDimExpr(0), lambda d, y: d[0]
            if s == "d1":
                return AffineDimExpr(1), lambda d, y: d[1]
            if s == "s0":
                return AffineSymExpr(0), lambda d, y: y[0]
            role = "add" if parent in (None, "add") else ("coef" if parent == "mul" else "div")
            c = cx.const(role)
            return AffineConstantExpr(c), lambda d, y: c
        op, a, b = s
        ea, fa = build(a, cx, op)
        eb, fb = build(b, cx, op)
        kind_ = {"add": K.Add, "mul": K.Mul, "floordiv": K.FloorDiv, "ceildiv": K.CeilDiv, "mod": K.Mod}[op]
        f = {"add": lambda d, y: fa(d, y) + fb(d, y), "mul": lambda d, y: fa(d, y) * fb(d, y), "floordiv": lambda d, y: fa(d, y) // fb(d, y),
             "ceildiv": lambda d, y: -((-fa(d, y)) // fb(d, y)), "mod": lambda d, y: fa(d, y) % fb(d, y)}[op]
        return AffineBinaryOpExpr(kind_, ea, eb), f

    raw, ref = build(shape, CC())
    d = [inputs.get("d0", 0), inputs.get("d1", 0)]
    y = [inputs.get("s0", 0)]
    try:
        if kind == "build":
            got, exp = build_ops(raw).eval(d, y), ref(d, y)
            return {"violates": got != exp, "observed": got, "expected": exp, "expr": str(build_ops(raw))}
        if kind == "simplify":
            exp = ref(d, y)
            g1 = build_ops(raw).simplify(2, 1)
            g2 = raw.simplify(2, 1)
            return {"violates": g1.eval(d, y) != exp or g2.eval(d, y) != exp, "observed": [g1.eval(d, y), g2.eval(d, y)], "expected": exp, "expr": str(raw), "simplified": [str(g1), str(g2)]}
        if kind == "compose":
            cx2 = CC("i")
            inner_raw, inner_ref = build(totuple(ob["inner"]), cx2)
            inner2_raw, inner2_ref = build(("add", "d1", "c"), cx2)
            m = AffineMap(2, 1, (build_ops(inner_raw), build_ops(inner2_raw)))
            e = build_ops(raw)
            got = e.compose(m).eval(d, y)
            exp = ref([inner_ref(d, y), inner2_ref(d, y)], y)
            got2 = e.replace_dims_and_symbols((build_ops(inner_raw),), (AffineExpr.symbol(0) + 1,)).eval(d, y)
            exp2 = ref([inner_ref(d, y), d[1]], [y[0] + 1])
            return {"violates": got != exp or got2 != exp2, "observed": [got, got2], "expected": [exp, exp2]}
        if kind == "mapcompose":
            cx2 = CC("i")
            g0_raw, g0_ref = build(("add", ("mul", "d0", "c"), "s0"), cx2)
            g1_raw, g1_ref = build(("floordiv", ("add", "d0", "c"), "c"), cx2)
            f_map = AffineMap(2, 1, (build_ops(raw), AffineExpr.dimension(1) + AffineExpr.symbol(0)))
            g_map = AffineMap(1, 1, (build_ops(g0_raw), build_ops(g1_raw)))
            comp = f_map.compose(g_map)
            gvals = [g0_ref([d[0], None], [d[1]]), g1_ref([d[0], None], [d[1]])]
            exp = (ref(gvals, [y[0]]), gvals[1] + y[0])
            got = comp.eval([d[0]], [y[0], d[1]])
            return {"violates": tuple(got) != tuple(exp), "observed": got, "expected": exp}
        if kind == "printparse":
            e = build_ops(raw)
            text = f"(d0, d1)[s0] -> ({e})"
            m = parse_map(text)
            t2 = str(m)
            m2 = parse_map(t2)
            exp = ref(d, y)
            return {"violates": m.results[0].eval(d, y) != exp or m2.results[0].eval(d, y) != exp or str(m2) != t2, "text": text, "expected": exp}
    except Exception as e:
        return {"violates": True, "observed": f"exception {type(e).__name__}: {e}"}
    return {"violates": False}
