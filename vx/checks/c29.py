"""C29 - symbol lookup returns the operation the nesting rules designate; cached and direct lookups agree."""
from __future__ import annotations

import z3

from vx import symstr
from vx.framework import decide
from vx.symstr import SymStr
from vx.symx import SymBool

symstr.install()

from xdsl.dialects import builtin, func, test  # noqa: E402
from xdsl.dialects.builtin import ArrayAttr, ModuleOp, StringAttr, SymbolRefAttr  # noqa: E402
from xdsl.ir import Block, Region  # noqa: E402
from xdsl import traits  # noqa: E402
from xdsl.utils.symbol_table import SymbolTable, SymbolTableCollection  # noqa: E402

LEVEL = "other"
EXPLANATION = (
    "Nested symbol-table skeletons (a top module with functions, named and unnamed nested modules two levels deep, functions "
    "and plain ops inside them) carry SYMBOLIC symbol names - one-cell symbolic text each, so that the solver ranges over every "
    "equality pattern between the names of the module and the names in the reference - and enumerated visibilities. A flat or "
    "nested reference (1-3 components, each a symbolic name) is looked up from several operations (a plain op inside a function "
    "body, a function, a nested module itself, a top-level op) with the real SymbolTable.lookup_nearest_symbol_from / "
    "lookup_symbol_in, the cached SymbolTableCollection and the SymbolTable trait's lookup_symbol; z3 decides for all names that "
    "each returns exactly the operation a declarative reading of the nesting rules designates (nearest enclosing table; each "
    "further component is looked up inside the previous result, which must be a symbol table; private symbols reached through "
    "nesting are refused), and that the three agree."
)
FUNCTIONS = ["SymbolTable.lookup_symbol_in / lookup_nearest_symbol_from / get_nearest_symbol_table / get_symbol_visibility", "_lookup_symbol_in_direct_children / _lookup_symbol_ref_in",
             "SymbolTableCollection.lookup_symbol_in / lookup_nearest_symbol_from / get_symbol_table; SymbolTable.__init__ / lookup", "traits.SymbolTable.lookup_symbol"]
ASSUMPTIONS = ["modules are verified: names within one symbol table are pairwise different (assumed as a constraint; the trait's verifier hashes the names)",
               "reference: nearest enclosing table of the starting op; component k+1 is resolved among the direct children of the op found for component k, which must be a symbol table; a private symbol reached through nesting is refused"]
OUTSIDE = ["names longer than one cell (equality patterns of non-empty names do not depend on length; the empty name is covered by its own family)", "two or more symbols named by the empty string in one module", "nesting deeper than two tables below the top module", "symbol tables other than builtin.module; symbols other than func.func and builtin.module"]
STUBS = ["the per-table name dictionary of SymbolTable (`{}`) is a list-backed dictionary (keys compared with ==)"]

VIS = [None, "public", "private", "nested"]
NAME_CELLS = [(97, 99)]


class Src:
    def __init__(self, ex, concrete):
        self.ex, self.c = ex, concrete

    def choose(self, name, n):
        if self.c is not None:
            return int(self.c.get(name, 0))
        v = self.ex.choose(n, name)
        self.ex.named[name] = v
        return v

    def name(self, tag, may_be_empty=False):
        """a one-cell symbolic name; with may_be_empty the empty string (a legal symbol name: `func.func @""` verifies) is a further case"""
        if self.c is not None:
            if may_be_empty and int(self.c.get(f"{tag}__empty", 0)):
                return ""
            return chr(self.c.get(f"{tag}0", 97))
        if may_be_empty and self.choose(f"{tag}__empty", 2):
            return ""
        return SymStr.var_split(tag, 1, NAME_CELLS)


def fn(name, vis, body_ops=()):
    f = func.FuncOp.from_region(name if isinstance(name, str) else "placeholder", [], [], Region(Block(list(body_ops) + [func.ReturnOp()])), visibility=vis)
    if not isinstance(name, str):
        f.properties["sym_name"] = StringAttr(name)
    return f


def mod(name, vis, ops):
    m = ModuleOp(list(ops))
    if name is not None:
        m.properties["sym_name"] = StringAttr(name)
    if vis is not None:
        m.attributes["sym_visibility"] = StringAttr(vis)
    return m


EMPTY_CANDIDATES = ("f1", "m1", "f2", "m2", "f3", "f4")


def build(src, empties=False):
    """returns (top module, dict of interesting ops, list of (table, [symbols]) for the distinctness assumption)"""
    # empties: at most ONE symbol of the module is named by the empty string (which one is a fork); the others are one-cell names
    which = src.choose("empty_symbol", len(EMPTY_CANDIDATES) + 1) if empties else 0
    n = {k: ("" if empties and which == i + 1 else src.name(k)) for i, k in enumerate(EMPTY_CANDIDATES)}
    # the empty-names family enumerates absent/private only (the four-way enumeration is the plain family's)
    vis = {k: ([None, "private"][src.choose("vis_" + k, 2)] if empties else VIS[src.choose("vis_" + k, 4)]) for k in ("m1", "f2", "m2", "f3")}
    inner_plain = test.TestOp()
    f3 = fn(n["f3"], vis["f3"], [test.TestOp()])
    m2 = mod(n["m2"], vis["m2"], [f3, inner_plain])
    body_op = test.TestOp()
    f2 = fn(n["f2"], vis["f2"], [body_op])
    unnamed = mod(None, None, [fn(n["f4"], None)])
    m1 = mod(n["m1"], vis["m1"], [f2, m2, unnamed])
    top_plain = test.TestOp()
    f1 = fn(n["f1"], None)
    top = ModuleOp([f1, m1, top_plain])
    tables = [(top, [f1, m1]), (m1, [f2, m2]), (m2, [f3]), (unnamed, [unnamed.body.block.first_op])]
    starts = {"body_of_f2": body_op, "f2": f2, "m1": m1, "m2_plain": inner_plain, "top_plain": top_plain, "top": top, "m2": m2, "in_unnamed": unnamed.body.block.first_op}
    return top, starts, tables


def sym_name(op):
    a = op.properties.get("sym_name")
    return None if a is None else a.data


def is_table(op):
    return isinstance(op, ModuleOp)


def visibility(op):
    v = op.get_attr_or_prop("sym_visibility")
    return "public" if v is None else v.data


def children(table):
    return [o for o in table.regions[0].blocks[0].ops if sym_name(o) is not None]


def reference(start, comps):
    """declarative reading; returns the designated op or None (forks on name equalities)"""
    t = start
    while t is not None and not is_table(t):
        t = t.parent_op()
    if t is None:
        return None
    cur = None
    for k, c in enumerate(comps):
        scope = t if k == 0 else cur
        if k > 0 and not is_table(scope):
            return None
        found = None
        for o in children(scope):
            if bool(sym_name(o) == c):
                found = o
                break
        if found is None:
            return None
        if k > 0 and visibility(found) == "private":
            return None
        cur = found
    return cur


def harness(ob, concrete=None):
    def h(ex):
        symstr.SYM_DICT[0] = True
        src = Src(ex, concrete)
        top, starts, tables = build(src, empties=bool(ob.get("empties")))
        if concrete is None:
            for _, syms in tables:
                for i in range(len(syms)):
                    for j in range(i + 1, len(syms)):
                        e = sym_name(syms[i]) == sym_name(syms[j])
                        if isinstance(e, SymBool):
                            ex.assume(z3.Not(e.e))
                        elif e:
                            from vx.symx import Infeasible

                            raise Infeasible()
        else:
            for _, syms in tables:
                names = [sym_name(s_) for s_ in syms]
                if len(set(names)) != len(names):
                    return True
        comps = [src.name(f"r{k}", may_be_empty=bool(ob.get("empties"))) for k in range(ob["ncomp"])]
        ref = SymbolRefAttr(StringAttr(comps[0]), ArrayAttr([StringAttr(c) for c in comps[1:]]))
        start = starts[ob["start"]]
        want = reference(start, comps)
        impl = ob["impl"]
        if impl == "direct":
            got = SymbolTable.lookup_nearest_symbol_from(start, ref if ob["ncomp"] > 1 or ob.get("as_ref") else comps[0])
        elif impl == "cached":
            coll = SymbolTableCollection()
            got = coll.lookup_nearest_symbol_from(start, ref if ob["ncomp"] > 1 or ob.get("as_ref") else comps[0])
            got2 = coll.lookup_nearest_symbol_from(start, ref)  # second query through the now-populated cache
            if got2 is not got:
                return {"prop": False, "detail": "the cached lookup answers differently the second time"}
        elif impl == "cached_seq":
            # one collection serving two different starting operations: the answer for the second must not depend on the first
            coll = SymbolTableCollection()
            other = starts[ob["first"]]
            got_other = coll.lookup_nearest_symbol_from(other, ref)
            if got_other is not reference(other, comps):
                return {"prop": False, "detail": f"cached lookup from {ob['first']} differs from the nesting rules"}
            got = coll.lookup_nearest_symbol_from(start, ref)
        else:
            try:
                got = traits.SymbolTable.lookup_symbol(start, ref)
            except ValueError:
                got = None
        if got is not want:
            return {"prop": False, "detail": f"{impl} lookup from {ob['start']} returns {'nothing' if got is None else got.name + ' @' + repr(sym_name(got))}, the nesting rules designate "
                                             f"{'nothing' if want is None else want.name + ' @' + repr(sym_name(want))}"}
        return True

    return h


def bounds(tier):
    return {"symbols": "6 named symbols in 4 tables (top module, named module, module nested in it, unnamed module)", "names": "1 symbolic cell each over {a,b,c} (all equality patterns); in the empty-names family additionally one symbol of the module (any) and any subset of the reference components are the empty string", "visibilities": "absent/public/private/nested, enumerated (absent/private in the empty-names family)",
            "reference_components": "1-3", "start_operations": 8, "shared_collection_sequences": "8 ordered pairs of starting operations served by one SymbolTableCollection", "implementations": ["SymbolTable (direct)", "SymbolTableCollection (cached)", "traits.SymbolTable.lookup_symbol"]}


def obligations(tier):
    obs = []
    for impl in ("direct", "cached", "trait"):
        for start in ("body_of_f2", "f2", "m1", "m2_plain", "top_plain", "top", "in_unnamed"):
            for nc in (1, 2, 3):
                obs.append({"id": f"C29/{impl}/{start}/{nc}", "impl": impl, "start": start, "ncomp": nc, "weight": 2 * nc})
            if impl != "trait":
                obs.append({"id": f"C29/{impl}/{start}/1ref", "impl": impl, "start": start, "ncomp": 1, "as_ref": True, "weight": 2})
    # the empty string is a legal symbol name: one symbol of the module (any of the six) and any subset of the reference components may be ""
    for impl in ("direct", "cached", "trait"):
        for start in (("body_of_f2", "m2_plain", "top_plain", "in_unnamed") if tier == "quick" else ("body_of_f2", "f2", "m1", "m2_plain", "top_plain", "top", "in_unnamed")):
            for nc in ((1, 2) if tier == "quick" else (1, 2, 3)):
                obs.append({"id": f"C29/{impl}/{start}/{nc}/empty-names", "impl": impl, "start": start, "ncomp": nc, "empties": True, "as_ref": impl != "trait", "weight": 8 * nc})
    for first, start in (("top_plain", "m1"), ("m1", "top_plain"), ("f2", "m2"), ("m2", "f2"), ("body_of_f2", "f2"), ("m2_plain", "m2"), ("m2", "m2_plain"), ("m1", "body_of_f2")):
        for nc in (1, 2):
            obs.append({"id": f"C29/cached_seq/{first}-{start}/{nc}", "impl": "cached_seq", "first": first, "start": start, "ncomp": nc, "weight": 3 * nc})
    return obs


def run(ob, tier, stats, exclude):
    return decide(harness(ob), timeout_ms=20000, budget_s=300, stats=stats, exclude=exclude, ob=ob, max_paths=100000, fuel=1000000)


def replay(ob, inputs):
    try:
        v = harness(ob, concrete=inputs)(None)
    except Exception as e:
        return {"violates": True, "observed": f"exception {type(e).__name__}: {str(e)[:300]}"}
    if isinstance(v, dict):
        return {"violates": not v["prop"], "observed": v["detail"]}
    return {"violates": False, "observed": "agrees"}
