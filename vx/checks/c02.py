"""C02 - cloning yields an independent equivalent copy and leaves other IR untouched."""
from __future__ import annotations

import itertools

import z3

from vx.framework import decide
from vx.symx import SymInt, as_z3_bool

from xdsl.context import Context
from xdsl.dialects import arith, builtin, func, test
from xdsl.dialects.builtin import IntAttr, IntegerAttr, IntegerType, ModuleOp, i32, i64
from xdsl.ir import Block, Operation, Region, SSAValue

LEVEL = "other"
EXPLANATION = (
    "Source IR skeletons (2 blocks, 3-4 ops, one nested region) are built with every operand slot chosen among "
    "{value defined earlier inside, value defined LATER inside (forward reference), value of an enclosing block, outside "
    "value} and every successor among {inside block, outside block} - each choice is a fork of the exploration, so all "
    "wirings of the family are covered - and with SYMBOLIC attribute/property payloads and type widths. Each clone entry "
    "point of /repo (Operation.clone, clone_without_regions, Region.clone, Region.clone_into at every index into empty and "
    "non-empty destinations, shared mapper reuse, ModulePass.apply_to_clone) runs on them; afterwards an independent "
    "positional-isomorphism oracle, a snapshot comparison of source and destination, a use-list consistency walk and a "
    "mutate-the-copy independence test are evaluated; payload agreement is decided by z3 for all payloads."
)
FUNCTIONS = ["Operation.clone", "Operation.clone_without_regions", "Region.clone", "Region.clone_into", "ModulePass.apply_to_clone", "Context.clone"]
ASSUMPTIONS = ["positional isomorphism oracle and snapshot/canonical-form functions in vx/checks/c02.py", "wirings are enumerated by forks (shape), payloads are symbolic (data)"]
OUTSIDE = ["skeletons larger than the bound", "name hints", "locations"]
STUBS = []


def bounds(tier):
    return {"blocks": 2, "ops": 4, "nested_regions": 1, "operand_choices_per_slot": 4, "dest_shapes": ["empty", "one block", "two blocks"], "insert_index": "None,0,1,2"}


class ReplayEx:
    """concrete stand-in for the Explorer: named inputs come from the model, choices from the recorded notes"""

    def __init__(self, inputs):
        self.inputs = inputs
        self.choices = list((inputs.get("__notes__") or {}).get("choices", []))
        self.notes = {}

    def choose(self, n, tag):
        return self.choices.pop(0) if self.choices else 0


def V(ex, name, lo, hi):
    if isinstance(ex, ReplayEx):
        return ex.inputs.get(name, lo)
    return SymInt.var(name, lo, hi)


def CH(ex, n, tag):
    k = ex.choose(n, tag)
    if not isinstance(ex, ReplayEx):
        ex.notes.setdefault("choices", []).append(k)
    return k


ENTRY = ["op.clone", "op.clone_without_regions", "region.clone", "clone_into.empty", "clone_into.dest1.None", "clone_into.dest1.0", "clone_into.dest1.1",
         "clone_into.dest2.1", "shared_mapper", "apply_to_clone"]


def obligations(tier):
    obs = []
    for e in ENTRY:
        for sk in (("a", "b") if e != "apply_to_clone" else ("m",)):
            obs.append({"id": f"C02/{e}/{sk}", "entry": e, "sk": sk, "weight": 3})
    return obs


# ------------------------------------------------------------------------------------------------
def build_source(ex, sk, outside, outside_block):
    """returns region (2 blocks). Operand slots are chosen by forks."""
    wa = V(ex, "w_arg", 1, 64)
    p1 = V(ex, "attr1", -128, 127)
    p2 = V(ex, "prop2", -128, 127)
    b0 = Block(arg_types=[IntegerType(wa)])
    b1 = Block(arg_types=[i64])
    o0 = test.TestOp(result_types=[i32], attributes={"a": IntAttr(p1)})
    o1 = test.TestOp(result_types=[i32, i64], properties={"prop1": IntegerAttr(p2, i64)})
    late = test.TestOp(result_types=[i32])
    inner_b = Block(arg_types=[i32])
    inner = test.TestOp(result_types=[i32])
    inner_b.add_op(inner)
    nest = test.TestOp(result_types=[i32], regions=[Region([inner_b])]) if sk == "a" else test.TestOp(result_types=[i32])
    term0 = test.TestTermOp()
    term1 = test.TestTermOp()
    cands = {"arg0": b0.args[0], "o0": o0.results[0], "o1b": o1.results[1], "late": late.results[0], "outside": outside, "arg1": b1.args[0]}

    def choose(tag, options):
        k = CH(ex, len(options), tag)
        ex.notes.setdefault("wiring", []).append(options[k])
        return cands[options[k]]

    o1.operands = [choose("o1.0", ["o0", "late", "outside"]), choose("o1.1", ["arg0", "outside"])]
    if sk == "a":
        inner.operands = [choose("inner.0", ["o0", "late", "outside", "arg0"])]
        nest.operands = [choose("nest.0", ["o1b", "outside"])]
    else:
        nest.operands = [choose("nest.0", ["o1b", "late", "arg1"]), choose("nest.1", ["o0", "outside"])]
    succ_opts = [b1, b0, outside_block]
    term0.successors = [succ_opts[CH(ex, 3, "succ0")]]
    b0.add_ops([o0, o1, term0])
    b1.add_ops([nest, late, term1])
    return Region([b0, b1])


def build_dest(n, outside):
    blocks = []
    for i in range(n):
        b = Block(arg_types=[i32])
        d0 = test.TestOp(operands=[b.args[0], outside], result_types=[i32])
        d1 = test.TestOp(operands=[d0.results[0]], result_types=[i32])
        b.add_ops([d0, d1])
        blocks.append(b)
    return Region(blocks)


# -- independent oracles (concrete structure, symbolic payload terms)
def snapshot(region_or_op, tag=""):
    """canonical structural form with object identities of operands (so that in-place changes are visible)"""
    out = []

    def walk_region(r):
        rs = []
        for b in r.blocks:
            bs = [("args", tuple((id(a), a.type) for a in b.args))]
            for op in b.ops:
                bs.append((id(op), op.name, tuple(id(x) for x in op.operands), tuple(id(s) for s in op.successors),
                           tuple(sorted((k, v) for k, v in op.attributes.items())), tuple(sorted((k, v) for k, v in op.properties.items())),
                           tuple(r_.type for r_ in op.results), tuple(walk_region(x) for x in op.regions)))
            rs.append((id(b), tuple(bs)))
        return tuple(rs)

    if isinstance(region_or_op, Region):
        return walk_region(region_or_op)
    op = region_or_op
    return (id(op), op.name, tuple(id(x) for x in op.operands), tuple(walk_region(x) for x in op.regions))


def snap_equal(s1, s2):
    """equality of two snapshots as a z3 term (attribute payloads may be symbolic)"""
    if type(s1) is not type(s2):
        return z3.BoolVal(False)
    if isinstance(s1, tuple):
        if len(s1) != len(s2):
            return z3.BoolVal(False)
        return z3.And(*[snap_equal(a, b) for a, b in zip(s1, s2)]) if s1 else z3.BoolVal(True)
    r = s1 == s2
    return as_z3_bool(r)


def iso(src_region, copy_blocks, outside_ok=True):
    """positional isomorphism src_region ~ copy blocks; returns z3 term"""
    src_blocks = list(src_region.blocks)
    if len(src_blocks) != len(copy_blocks):
        return z3.BoolVal(False)
    vmap, bmap = {}, {}
    cs = []

    def pre(sbs, cbs):
        if len(sbs) != len(cbs):
            return False
        for sb, cb in zip(sbs, cbs):
            bmap[id(sb)] = cb
            if len(sb.args) != len(cb.args):
                return False
            for a, c in zip(sb.args, cb.args):
                vmap[id(a)] = c
            sops, cops = list(sb.ops), list(cb.ops)
            if len(sops) != len(cops):
                return False
            for so, co in zip(sops, cops):
                if len(so.results) != len(co.results) or len(so.regions) != len(co.regions):
                    return False
                for r_, c in zip(so.results, co.results):
                    vmap[id(r_)] = c
                for sr, cr in zip(so.regions, co.regions):
                    if not pre(list(sr.blocks), list(cr.blocks)):
                        return False
        return True

    if not pre(src_blocks, copy_blocks):
        return z3.BoolVal(False)

    def cmp(sbs, cbs):
        for sb, cb in zip(sbs, cbs):
            for a, c in zip(sb.args, cb.args):
                cs.append(as_z3_bool(a.type == c.type))
                cs.append(z3.BoolVal(c is not a and c.block is cb))
            for so, co in zip(sb.ops, cb.ops):
                cs.append(z3.BoolVal(so is not co and type(so) is type(co) and so.name == co.name and co.parent is cb))
                cs.append(as_z3_bool(so.attributes == co.attributes))
                cs.append(as_z3_bool(so.properties == co.properties))
                if len(so.operands) != len(co.operands) or len(so.successors) != len(co.successors):
                    cs.append(z3.BoolVal(False))
                    continue
                for x, y in zip(so.operands, co.operands):
                    cs.append(z3.BoolVal(y is vmap.get(id(x), x)))
                for x, y in zip(so.successors, co.successors):
                    cs.append(z3.BoolVal(y is bmap.get(id(x), x)))
                for r_, c in zip(so.results, co.results):
                    cs.append(as_z3_bool(r_.type == c.type))
                    cs.append(z3.BoolVal(c.op is co))
                for sr, cr in zip(so.regions, co.regions):
                    cmp(list(sr.blocks), list(cr.blocks))

    cmp(src_blocks, copy_blocks)
    return z3.And(*cs)


def uses_consistent(roots, extra_values=()):
    """concrete C01-style walk: every value's use list == the operand slots that target it; op lists doubly linked"""
    ops = []
    for r in roots:
        ops += list(r.walk())
    slots = {}
    for op in ops:
        for i, v in enumerate(op.operands):
            slots.setdefault(id(v), set()).add((id(op), i))
    values = {}
    for op in ops:
        for r_ in op.results:
            values[id(r_)] = r_
        for reg in op.regions:
            for b in reg.blocks:
                for a in b.args:
                    values[id(a)] = a
    for r in roots:
        for b in r.blocks:
            for a in b.args:
                values[id(a)] = a
    for v in extra_values:
        values[id(v)] = v
    live = {id(o) for o in ops}
    for vid, v in values.items():
        seen = set()
        prev = None
        u = v.first_use
        n = 0
        while u is not None:
            n += 1
            if n > 10000 or u._prev_use is not prev:
                return False
            if id(u.operation) in live:
                if u.operation.operands[u.index] is not v:
                    return False
                seen.add((id(u.operation), u.index))
            prev = u
            u = u._next_use
        if not slots.get(vid, set()) <= seen and vid in {id(x) for x in extra_values} | set(values):
            if slots.get(vid, set()) - seen:
                return False
        if seen - slots.get(vid, set()):
            return False
    # op lists
    for r in roots:
        for b in r.blocks:
            if b.parent is not r:
                return False
            prev = None
            op = b.first_op
            while op is not None:
                if op.parent is not b or op.prev_op is not prev:
                    return False
                prev = op
                op = op.next_op
            if b.last_op is not prev:
                return False
    return True


def harness(ob):
    entry, sk = ob["entry"], ob["sk"]

    def h(ex):
        outside = test.TestOp(result_types=[i32]).results[0]
        outside_block = Block()
        if entry == "apply_to_clone":
            return h_apply_to_clone(ex)
        src = build_source(ex, sk, outside, outside_block)
        holder = test.TestOp(regions=[src])
        before = snapshot(src)
        props = []
        if entry == "op.clone":
            c = holder.clone()
            props.append(iso(src, list(c.regions[0].blocks)))
            props.append(z3.BoolVal(uses_consistent([src, c.regions[0]], [outside])))
            copy_root = c.regions[0]
        elif entry == "op.clone_without_regions":
            o1 = list(src.blocks.first.ops)[1]
            c = o1.clone_without_regions()
            props.append(z3.BoolVal(c is not o1 and type(c) is type(o1) and len(c.regions) == len(o1.regions) and all(not r.blocks for r in c.regions)))
            props.append(z3.BoolVal(all(x is y for x, y in zip(c.operands, o1.operands)) and len(c.operands) == len(o1.operands)))
            props.append(as_z3_bool(c.properties == o1.properties))
            props.append(z3.BoolVal(uses_consistent([src], [outside] + list(c.results))))
            props.append(z3.BoolVal(c.parent is None))
            copy_root = None
        elif entry == "region.clone":
            c = src.clone()
            props.append(iso(src, list(c.blocks)))
            props.append(z3.BoolVal(c.parent is None and uses_consistent([src, c], [outside])))
            copy_root = c
        elif entry.startswith("clone_into"):
            parts = entry.split(".")
            nd = 0 if parts[1] == "empty" else int(parts[1][4:])
            idx = None if len(parts) < 3 or parts[2] == "None" else int(parts[2])
            dest = build_dest(nd, outside)
            dest_holder = test.TestOp(regions=[dest])
            dest_before = snapshot(dest)
            old_blocks = list(dest.blocks)
            src.clone_into(dest, idx)
            new_blocks = [b for b in dest.blocks if not any(b is o for o in old_blocks)]
            props.append(iso(src, new_blocks))
            # pre-existing destination content untouched, new blocks at the requested position
            kept = [b for b in dest.blocks if any(b is o for o in old_blocks)]
            props.append(z3.BoolVal(len(kept) == len(old_blocks) and all(a is b for a, b in zip(kept, old_blocks))))
            pos = len(old_blocks) if idx is None else idx
            props.append(z3.BoolVal(list(dest.blocks)[pos:pos + len(new_blocks)] == new_blocks if new_blocks else True))
            # snapshot of the old destination blocks
            after_old = tuple(x for x in snapshot(dest) if any(x[0] == id(o) for o in old_blocks))
            props.append(snap_equal(dest_before, after_old))
            props.append(z3.BoolVal(uses_consistent([src, dest], [outside])))
            copy_root = None
        elif entry == "shared_mapper":
            vm, bm = {}, {}
            d1, d2 = Region(), Region()
            src.clone_into(d1, 0, vm, bm)
            src.clone_into(d2, 0, vm, bm)
            props.append(iso(src, list(d1.blocks)))
            props.append(iso(src, list(d2.blocks)))
            props.append(z3.BoolVal(uses_consistent([src, d1, d2], [outside])))
            # op-by-op with one mapper
            vm2 = {}
            o0 = src.blocks.first.first_op
            c1, c2 = o0.clone(vm2), o0.clone(vm2)
            props.append(z3.BoolVal(c1 is not c2 and vm2[o0.results[0]] is c2.results[0]))
            copy_root = d2
        props.append(snap_equal(before, snapshot(src)))
        # independence: edits to the copy are invisible in the source
        if copy_root is not None and copy_root.blocks:
            cb = copy_root.blocks.first
            victim = cb.first_op
            victim.results[0].replace_all_uses_with(outside)
            cb.erase_op(victim)
            cb.insert_arg(i64, 0)
            props.append(snap_equal(before, snapshot(src)))
            props.append(z3.BoolVal(uses_consistent([src, copy_root], [outside])))
        return z3.And(*props)

    return h


def run(ob, tier, stats, exclude):
    return decide(harness(ob), timeout_ms=20000, budget_s=200 if tier == "quick" else 900, stats=stats, exclude=exclude, ob=ob, max_paths=6000)


_CTX = None


def h_apply_to_clone(ex):
    from xdsl.transforms.canonicalize import CanonicalizePass

    global _CTX
    if _CTX is None:
        _CTX = Context()
        for d in (builtin.Builtin, arith.Arith, func.Func):
            _CTX.load_dialect(d)
    c = V(ex, "c", -128, 127)
    blk = Block(arg_types=[IntegerType(8)])
    k = arith.ConstantOp(IntegerAttr(c, 8))
    k2 = arith.ConstantOp(IntegerAttr(V(ex, "c2", -128, 127), 8))
    a = arith.AddiOp(k, k2)
    m_ = arith.MuliOp(a, blk.args[0])
    dead = arith.SubiOp(blk.args[0], blk.args[0])
    blk.add_ops([k, k2, a, m_, dead, func.ReturnOp(m_)])
    f = func.FuncOp("f", ((IntegerType(8),), (IntegerType(8),)), Region(blk))
    m = ModuleOp([f])
    before = snapshot(m.body)
    ctx2, m2 = CanonicalizePass().apply_to_clone(_CTX, m)
    props = [snap_equal(before, snapshot(m.body)), z3.BoolVal(m2 is not m and ctx2 is not _CTX), z3.BoolVal(uses_consistent([m.body, m2.body]))]
    # the clone was really transformed (otherwise the check is vacuous)
    props.append(z3.BoolVal(len(list(m2.walk())) < len(list(m.walk()))))
    return z3.And(*props)


def replay(ob, inputs):
    """concrete rerun on plain ints and the recorded wiring choices (no proxies, no import hook)"""
    try:
        val = z3.simplify(as_z3_bool(harness(ob)(ReplayEx(inputs))))
        return {"violates": z3.is_false(val), "value": str(val)[:200]}
    except Exception as e:
        return {"violates": True, "observed": f"exception {type(e).__name__}: {e}"}
