"""C11 - the greedy rewrite driver reaches a fixpoint and observes every IR change."""
from __future__ import annotations

import itertools

import z3

from vx.framework import decide
from vx.symx import SymInt, as_z3_bool

from xdsl.dialects import test
from xdsl.dialects.builtin import IntAttr, ModuleOp, i32
from xdsl.ir import Block, Operation, Region
from xdsl.pattern_rewriter import (
    GreedyRewritePatternApplier,
    PatternRewriter,
    PatternRewriterListener,
    PatternRewriteWalker,
    RewritePattern,
)
from xdsl.rewriter import InsertPoint
from xdsl.transforms.dead_code_elimination import region_dce

LEVEL = "other"
EXPLANATION = (
    "The real PatternRewriteWalker/GreedyRewritePatternApplier/PatternRewriter run on IR skeletons whose per-op attribute "
    "payloads are SYMBOLIC; a terminating pattern set (erase the matched op incl. nested regions, erase the next/previous sibling incl. nested regions, replace, modify in place, insert) "
    "matches on those payloads, so which ops are rewritten - and hence the whole rewrite schedule and worklist history - is "
    "determined by symbolic data and every combination is covered by the exploration. For each of the 8 walk configurations "
    "(x optional post-walk function) z3 decides: no exception escapes; every pattern invocation is on an op still attached to "
    "the region; after a recursive walk no pattern would fire any more (fixpoint formula over the final payloads); the "
    "returned flag equals 'the IR changed'; every erased/inserted/replaced/modified op was reported to the listener; and "
    "PatternRewriter.has_done_action is set whenever a method changed the IR."
)
FUNCTIONS = ["PatternRewriteWalker.rewrite_region/_process_worklist/_populate_worklist/_handle_operation_*", "GreedyRewritePatternApplier.match_and_rewrite",
             "PatternRewriter.erase_op/replace_op/insert_op/notify_op_modified/replace_all_uses_with/insert_block_argument/erase_block_argument/inline_block/replace_value_with_new_type",
             "xdsl.utils.worklist.Worklist (as used by the driver)", "xdsl.transforms.dead_code_elimination.region_dce (as post_walk_func)"]
ASSUMPTIONS = ["the pattern set in vx/checks/c11.py terminates (every rewrite lowers a payload to 0)", "structure snapshots compare op identity, order, operands and payload terms"]
OUTSIDE = ["patterns other than the family", "IR larger than the skeletons (5-6 ops, nesting depth 2)", "worklist orders other than those the walk configurations produce"]
STUBS = []

CONFIGS = list(itertools.product((False, True), repeat=3))  # regions_first, recursively, reverse


def bounds(tier):
    return {"skeletons": ["deep", "flat", "sib (patterns that erase a not-yet-visited region-holding sibling; payloads 0-6)"], "ops": 6, "symbolic_payloads": 4 if tier == "quick" else 6, "nesting_depth": 2, "payload_range": [0, 4], "walk_configurations": 8, "post_walk_func": ["none", "region_dce"]}


def obligations(tier):
    obs = []
    for sk in ("deep", "flat"):
        for rf, rec, rev in CONFIGS:
            for pw in ("none", "dce", "dce_only"):
                # dce_only: the applier's own trivially-dead removal is off, so only the post-walk function can remove the dead pure op
                obs.append({"id": f"C11/driver/{sk}/regions_first={int(rf)},recursive={int(rec)},reverse={int(rev)},post={pw}", "kind": "driver", "sk": sk,
                            "cfg": [rf, rec, rev], "post": pw, "weight": 4})
    for rf, rec, rev in CONFIGS:
        obs.append({"id": f"C11/driver/sib/regions_first={int(rf)},recursive={int(rec)},reverse={int(rev)},post=none", "kind": "driver", "sk": "sib", "cfg": [rf, rec, rev], "post": "none", "weight": 6})
    for m in REWRITER_CALLS:
        obs.append({"id": f"C11/rewriter/{m}", "kind": "rewriter", "call": m, "weight": 1})
    for a in ("insert_op", "notify_op_modified", "insert_block_argument"):
        for b_ in ("insert_op", "erase_op", "replace_op.values", "replace_all_uses_with", "replace_all_uses_with.no_uses", "replace_all_uses_with.erase_unused", "notify_op_modified", "insert_block_argument",
                   "erase_block_argument", "inline_block"):
            obs.append({"id": f"C11/rewriter-seq/{a}>{b_}", "kind": "seq", "first": a, "second": b_, "weight": 1})
    return obs


class ReplayEx:
    def __init__(self, inputs):
        self.inputs = inputs
        self.notes = {}


def V(ex, name, lo, hi):
    if isinstance(ex, ReplayEx):
        return ex.inputs.get(name, lo)
    return SymInt.var(name, lo, hi)


def K(op):
    a = op.attributes.get("k")
    return a.data if a is not None else None


def mk(k, operands=(), regions=(), nres=1):
    return test.TestOp(operands=list(operands), result_types=[i32] * nres, attributes={"k": IntAttr(k)}, regions=list(regions))


QUICK_SYMBOLIC = {"deep": (1, 2, 4, 5), "flat": (0, 1, 3, 5), "sib": ()}
TIER = ["quick"]


def build(ex, sk):
    ks = [V(ex, f"k{i}", 0, 4) if (TIER[0] == "thorough" or i in QUICK_SYMBOLIC[sk]) else 0 for i in range(6)]
    if sk == "deep":
        leaf_a = mk(ks[0])
        leaf_b = mk(ks[1], [leaf_a.results[0]])
        mid = mk(ks[2], [], [Region([Block([leaf_a, leaf_b])])])
        sib = mk(ks[3])
        outer = mk(ks[4], [], [Region([Block([mid, sib])])])
        tail = mk(ks[5], [outer.results[0]])
        dead = test.TestPureOp(result_types=[i32])
        m = ModuleOp([outer, tail, dead])
    elif sk == "sib":
        # a region-holding op between two ops that may erase their NEXT (k=5) / PREVIOUS (k=6) sibling: the erased op and the ops nested in it
        # are then still pending in the worklist (not the matched op, not yet visited), whatever the walk order
        hi = 4 if TIER[0] == "thorough" else 3
        ks = [V(ex, "k0", 0, 6), V(ex, "k1", 0, 4), V(ex, "k2", 0, hi), V(ex, "k3", 0, hi), V(ex, "k4", 0, 6)]
        inner_b = mk(ks[3])
        nested = mk(0, [], [Region([Block([inner_b])])])
        inner_a = mk(ks[2])
        victim = mk(ks[1], [], [Region([Block([inner_a, nested])])])
        m = ModuleOp([mk(ks[0]), victim, mk(ks[4])])
    else:
        a = mk(ks[0])
        b = mk(ks[1], [a.results[0]])
        c = mk(ks[2], [a.results[0], b.results[0]])
        d = mk(ks[3])
        e = mk(ks[4], [d.results[0]])
        f = mk(ks[5])
        dead = test.TestPureOp(operands=[f.results[0]], result_types=[i32])
        m = ModuleOp([a, b, c, d, e, f, dead])
    return m


class Pat(RewritePattern):
    def __init__(self, log, root):
        self.log = log
        self.root = root

    def match_and_rewrite(self, op: Operation, rewriter: PatternRewriter):
        attached = op.parent is not None and self.root.is_ancestor(op)
        self.log.append(("visit", op, attached))
        if not isinstance(op, test.TestOp):
            return
        k = K(op)
        if k is None:
            return
        if k == 1:
            if all(not r.uses for r in op.results):
                rewriter.erase_op(op)
        elif k == 2:
            rewriter.replace_op(op, mk(0, op.operands, (), len(op.results)))
        elif k == 3:
            op.attributes["k"] = IntAttr(0)
            rewriter.notify_op_modified(op)
        elif k == 4:
            rewriter.insert_op(mk(0), InsertPoint.before(op))
            op.attributes["k"] = IntAttr(0)
            rewriter.notify_op_modified(op)
        elif k == 5 or k == 6:
            other = sibling_to_erase(op, k)
            if other is not None:
                rewriter.erase_op(other)
                op.attributes["k"] = IntAttr(0)
                rewriter.notify_op_modified(op)


def sibling_to_erase(op, k):
    """k=5: the next sibling, k=6: the previous one - if it is a payload op none of whose results is used"""
    other = op.next_op if bool(k == 5) else op.prev_op
    if isinstance(other, test.TestOp) and K(other) is not None and all(not r.uses for r in other.results):
        return other
    return None


def snap(m):
    out = []
    for op in m.walk():
        out.append((id(op), op.name, tuple(id(x) for x in op.operands), id(op.parent), K(op)))
    return out


def snap_changed(s1, s2):
    if len(s1) != len(s2):
        return z3.BoolVal(True)
    diffs = []
    for a, b in zip(s1, s2):
        if a[:4] != b[:4]:
            return z3.BoolVal(True)
        if a[4] is None or b[4] is None:
            if a[4] is not b[4]:
                return z3.BoolVal(True)
            continue
        diffs.append(z3.Not(as_z3_bool(SymInt.lift(a[4]) == b[4]) if not (isinstance(a[4], int) and isinstance(b[4], int)) else z3.BoolVal(a[4] == b[4])))
    return z3.Or(*diffs) if diffs else z3.BoolVal(False)


def driver_harness(ob):
    sk, (rf, rec, rev), post = ob["sk"], ob["cfg"], ob["post"]

    def h(ex):
        m = build(ex, sk)
        before = snap(m)
        before_ops = {id(o): o for o in m.walk()}
        anc = {}
        for o in m.walk():
            a, cur = set(), o.parent_op()
            while cur is not None:
                a.add(id(cur))
                cur = cur.parent_op()
            anc[id(o)] = a
        log = []
        events = {"ins": [], "rem": [], "mod": [], "rep": []}
        listener = PatternRewriterListener(
            operation_insertion_handler=[lambda op: events["ins"].append(op)],
            operation_removal_handler=[lambda op: events["rem"].append((op, op.parent is not None))],
            operation_modification_handler=[lambda op: events["mod"].append(op)],
            operation_replacement_handler=[lambda op, res: events["rep"].append(op)],
        )
        walker = PatternRewriteWalker(GreedyRewritePatternApplier([Pat(log, m)], dce_enabled=post != "dce_only"), walk_regions_first=rf, apply_recursively=rec,
                                      walk_reverse=rev, post_walk_func=region_dce if post != "none" else None, listener=listener)
        ret = walker.rewrite_module(m)
        after = snap(m)
        props = []
        # (ii) patterns are only invoked on ops that are attached inside the module
        props.append(z3.BoolVal(all(att for _, _, att in log)))
        # (iii) fixpoint
        if rec:
            for op in m.walk():
                if isinstance(op, test.TestOp) and K(op) is not None:
                    k = SymInt.lift(K(op))
                    removable = all(not r.uses for r in op.results)
                    cond = z3.And(as_z3_bool(k != 2), as_z3_bool(k != 3), as_z3_bool(k != 4))
                    if removable:
                        cond = z3.And(cond, as_z3_bool(k != 1))
                    if sibling_to_erase(op, 5) is not None:
                        cond = z3.And(cond, as_z3_bool(k != 5))
                    if sibling_to_erase(op, 6) is not None:
                        cond = z3.And(cond, as_z3_bool(k != 6))
                    props.append(cond)
            if post != "none":
                props.append(z3.BoolVal(not any(isinstance(o, test.TestPureOp) and all(not r.uses for r in o.results) for o in m.walk())))
        # (iv) the returned flag reports whether the IR changed
        props.append(z3.BoolVal(bool(ret)) == snap_changed(before, after))
        # (v) listener saw every removal (while still attached) and every insertion
        after_ids = {id(o) for o in m.walk()}
        removed = [o for i, o in before_ops.items() if i not in after_ids]
        rem_ids = {id(o) for o, _ in events["rem"]}
        for o in removed:
            # ops nested in an erased op are reported through their ancestor
            anc_reported = bool(anc.get(id(o), set()) & rem_ids)
            props.append(z3.BoolVal(id(o) in rem_ids or anc_reported))
        props.append(z3.BoolVal(all(att for _, att in events["rem"])))
        ins_ids = {id(o) for o in events["ins"]}
        for i in after_ids:
            if i not in before_ops:
                props.append(z3.BoolVal(i in ins_ids))
        return z3.And(*props)

    return h


# ---- rewriter level: has_done_action and notifications for each mutation method -----------------
def _ctx(ex):
    a = mk(V(ex, "ka", 0, 4))
    b = mk(0, [a.results[0]])
    c = mk(0, [a.results[0], b.results[0]])
    blk = Block([a, b, c], arg_types=[i32])
    other = Block([mk(0)], arg_types=[i32])
    m = ModuleOp(Region([blk]))
    holder = test.TestOp(regions=[Region([other])])
    ev = {"ins": [], "rem": [], "mod": [], "rep": [], "blk": []}
    rw = PatternRewriter(b)
    rw.extend_from_listener(PatternRewriterListener(
        operation_insertion_handler=[lambda op: ev["ins"].append(op)], operation_removal_handler=[lambda op: ev["rem"].append(op)],
        operation_modification_handler=[lambda op: ev["mod"].append(op)], operation_replacement_handler=[lambda op, r: ev["rep"].append(op)],
        block_creation_handler=[lambda bl: ev["blk"].append(bl)]))
    return m, blk, other, a, b, c, rw, ev


def r_insert(ex):
    m, blk, other, a, b, c, rw, ev = _ctx(ex)
    n = mk(0)
    rw.insert_op(n, InsertPoint.before(b))
    return rw.has_done_action and n in ev["ins"] and n.parent is blk


def r_insert_end(ex):
    m, blk, other, a, b, c, rw, ev = _ctx(ex)
    n = mk(0)
    rw.insert_op(n, InsertPoint.at_end(blk))
    return rw.has_done_action and n in ev["ins"] and blk.last_op is n


def r_erase(ex):
    m, blk, other, a, b, c, rw, ev = _ctx(ex)
    rw.erase_op(c)
    return rw.has_done_action and c in ev["rem"] and c.parent is None


def r_replace(ex):
    m, blk, other, a, b, c, rw, ev = _ctx(ex)
    n = mk(0, [a.results[0]])
    rw.replace_op(b, n)
    return rw.has_done_action and b in ev["rep"] and b in ev["rem"] and n in ev["ins"] and c in ev["mod"] and c.operands[1] is n.results[0]


def r_replace_values(ex):
    m, blk, other, a, b, c, rw, ev = _ctx(ex)
    rw.replace_op(b, [], [a.results[0]])
    return rw.has_done_action and b in ev["rep"] and b in ev["rem"] and c in ev["mod"] and c.operands[1] is a.results[0]


def r_rauw(ex):
    m, blk, other, a, b, c, rw, ev = _ctx(ex)
    rw.replace_all_uses_with(a.results[0], blk.args[0])
    return rw.has_done_action and b in ev["mod"] and c in ev["mod"] and b.operands[0] is blk.args[0]


def r_rauw_noop(ex):
    m, blk, other, a, b, c, rw, ev = _ctx(ex)
    rw.replace_all_uses_with(c.results[0], blk.args[0])  # no uses: nothing changes
    return (not ev["mod"]) and c.results[0].first_use is None


def r_notify(ex):
    m, blk, other, a, b, c, rw, ev = _ctx(ex)
    rw.notify_op_modified(b)
    return rw.has_done_action and b in ev["mod"]


def r_insert_block_arg(ex):
    m, blk, other, a, b, c, rw, ev = _ctx(ex)
    n0 = len(blk.args)
    arg = rw.insert_block_argument(blk, 0, i32)
    return rw.has_done_action and len(blk.args) == n0 + 1 and blk.args[0] is arg and blk.args[1].index == 1


def r_erase_block_arg(ex):
    m, blk, other, a, b, c, rw, ev = _ctx(ex)
    rw.erase_block_argument(blk.args[0])
    return rw.has_done_action and len(blk.args) == 0


def r_inline_block(ex):
    m, blk, other, a, b, c, rw, ev = _ctx(ex)
    moved = list(other.ops)
    rw.inline_block(other, InsertPoint.before(b), [a.results[0]])
    return rw.has_done_action and all(o.parent is blk for o in moved)


def r_new_type(ex):
    m, blk, other, a, b, c, rw, ev = _ctx(ex)
    from xdsl.dialects.builtin import i64

    v = rw.replace_value_with_new_type(a.results[0], i64)
    return rw.has_done_action and v.type == i64 and b.operands[0] is v and (b in ev["mod"])


REWRITER_CALLS = {"insert_op.before": r_insert, "insert_op.at_end": r_insert_end, "erase_op": r_erase, "replace_op.new_op": r_replace, "replace_op.values": r_replace_values,
                  "replace_all_uses_with": r_rauw, "replace_all_uses_with.no_uses": r_rauw_noop, "notify_op_modified": r_notify, "insert_block_argument": r_insert_block_arg,
                  "erase_block_argument": r_erase_block_arg, "inline_block": r_inline_block, "replace_value_with_new_type": r_new_type}


# has_done_action is monotone: once a method has changed the IR, no later method call may clear the flag
FIRST = {
    "insert_op": lambda c: c[6].insert_op(mk(0), InsertPoint.at_end(c[1])),
    "notify_op_modified": lambda c: c[6].notify_op_modified(c[4]),
    "insert_block_argument": lambda c: c[6].insert_block_argument(c[1], 0, i32),
}
SECOND = {
    "insert_op": lambda c: c[6].insert_op(mk(0), InsertPoint.before(c[4])),
    "erase_op": lambda c: c[6].erase_op(c[5]),
    "replace_op.values": lambda c: c[6].replace_op(c[4], [], [c[3].results[0]]),
    "replace_all_uses_with": lambda c: c[6].replace_all_uses_with(c[3].results[0], c[1].args[0]),
    "replace_all_uses_with.no_uses": lambda c: c[6].replace_all_uses_with(c[5].results[0], c[1].args[0]),
    "replace_all_uses_with.erase_unused": lambda c: c[6].replace_all_uses_with(c[5].results[0], None),
    "notify_op_modified": lambda c: c[6].notify_op_modified(c[4]),
    "insert_block_argument": lambda c: c[6].insert_block_argument(c[1], 1, i32),
    "erase_block_argument": lambda c: c[6].erase_block_argument(c[2].args[0]),
    "inline_block": lambda c: c[6].inline_block(c[2], InsertPoint.before(c[4]), [c[3].results[0]]),
}


def seq_harness(ob):
    def h(ex):
        c = _ctx(ex)
        FIRST[ob["first"]](c)
        if not c[6].has_done_action:
            return z3.BoolVal(False)
        SECOND[ob["second"]](c)
        return z3.BoolVal(bool(c[6].has_done_action))

    return h


def harness(ob):
    if ob["kind"] == "driver":
        return driver_harness(ob)
    if ob["kind"] == "seq":
        return seq_harness(ob)
    f = REWRITER_CALLS[ob["call"]]
    return lambda ex: z3.BoolVal(bool(f(ex)))


def run(ob, tier, stats, exclude):
    TIER[0] = tier
    return decide(harness(ob), timeout_ms=20000, budget_s=240 if tier == "quick" else 1200, stats=stats, exclude=exclude, ob=ob, max_paths=20000, fuel=3000)


def replay(ob, inputs):
    TIER[0] = "thorough"  # missing inputs default to 0 anyway
    try:
        val = z3.simplify(as_z3_bool(harness(ob)(ReplayEx(inputs))))
        return {"violates": z3.is_false(val), "value": str(val)[:200]}
    except Exception as e:
        return {"violates": True, "observed": f"exception {type(e).__name__}: {str(e)[:300]}"}
