"""Registry: property id -> check module and import-hook profile (must be known before xdsl is imported)."""

_NUM = {
    "xdsl.interpreters.arith": {},
    "xdsl.utils.comparisons": {},
    "xdsl.interpreter": {},
}

_ARITH_FULL = {m: {"shims": ("math", "struct")} for m in (
    "xdsl.dialects.builtin", "xdsl.dialects.arith", "xdsl.irdl.attributes", "xdsl.irdl.constraints", "xdsl.utils.hints",
    "xdsl.transforms.canonicalization_patterns.utils", "xdsl.transforms.canonicalization_patterns.arith", "xdsl.interpreters.arith",
    "xdsl.transforms.constant_fold_interp", "xdsl.transforms.test_constant_folding", "xdsl.utils.comparisons", "xdsl.folder",
    "xdsl.transforms.canonicalize", "xdsl.interpreter")}

_LOOP_FULL = dict(_ARITH_FULL)
_LOOP_FULL.update({m: {"shims": ()} for m in ("xdsl.transforms.scf_for_loop_unroll", "xdsl.transforms.scf_for_loop_flatten", "xdsl.transforms.scf_for_loop_range_folding",
                                              "xdsl.transforms.convert_scf_to_cf", "xdsl.transforms.loop_invariant_code_motion", "xdsl.transforms.control_flow_hoist")})

_RV_FULL = dict(_ARITH_FULL)
_RV_FULL.update({m: {"shims": ("struct",)} for m in ("xdsl.transforms.canonicalization_patterns.riscv", "xdsl.dialects.riscv.ops", "xdsl.dialects.riscv.abstract_ops",
                                                     "xdsl.dialects.rv32", "xdsl.dialects.rv64", "xdsl.dialects.riscv.attrs", "xdsl.backend.riscv.lowering.convert_arith_to_riscv",
                                                     "xdsl.backend.riscv.lowering.utils", "xdsl.dialects.riscv.assembly")})

_X86_FULL = dict(_ARITH_FULL)
_X86_FULL.update({m: {"shims": ("struct",)} for m in ("xdsl.dialects.x86.ops", "xdsl.backend.x86.lowering.convert_arith_to_x86", "xdsl.backend.x86.lowering.convert_func_to_x86_func",
                                                      "xdsl.dialects.x86.attributes", "xdsl.dialects.x86.assembly")})

_STR_METHODS = ("join", "startswith", "endswith", "find", "rfind", "count", "replace", "split", "index", "removeprefix", "removesuffix")
_TEXT_FULL = {"xdsl.utils.arg_spec": {"shims": ("re",), "methods": _STR_METHODS, "calls": ("dict",)}, "xdsl.utils.mlir_lexer": {"shims": ("re",), "methods": _STR_METHODS},
              "xdsl.utils.lexer": {"shims": ("re", "io"), "methods": _STR_METHODS}, "xdsl.utils.hints": {"shims": ()}}

_PARSE_OPTS = {"shims": ("re", "io", "math", "struct"), "methods": _STR_METHODS, "calls": ("dict",)}
_PARSE_FULL = {m: dict(_PARSE_OPTS) for m in ("xdsl.utils.mlir_lexer", "xdsl.utils.lexer", "xdsl.parser.core", "xdsl.parser.base_parser", "xdsl.parser.generic_parser", "xdsl.parser.attribute_parser",
                                               "xdsl.parser.affine_parser", "xdsl.printer", "xdsl.utils.base_printer", "xdsl.dialects.builtin", "xdsl.utils.hints")}

_IR_TEXT_FULL = dict(_PARSE_FULL)
_IR_TEXT_FULL["xdsl.parser.core"] = dict(_PARSE_OPTS, calls=("dict", "defaultdict"))
_IR_TEXT_FULL["xdsl.ir.core"] = {"shims": ("re", "io"), "methods": _STR_METHODS}

_C07_FULL = {m: dict(o, methods=tuple(o.get("methods", ())) + ("get",), calls=tuple(o.get("calls", ())) + ("set",)) for m, o in _IR_TEXT_FULL.items()}
_C07_FULL["xdsl.context"] = {"shims": (), "methods": ("get",)}

_C05_FULL = dict(_IR_TEXT_FULL)
_C05_FULL.update({m: dict(_PARSE_OPTS) for m in ("xdsl.irdl.declarative_assembly_format", "xdsl.dialects.arith", "xdsl.dialects.cf", "xdsl.dialects.func", "xdsl.dialects.memref", "xdsl.dialects.scf",
                                                  "xdsl.dialects.utils.format", "xdsl.dialects.utils.fast_math", "xdsl.utils.bitwise_casts", "xdsl.dialects.utils.dynamic_index_list", "xdsl.dialects.utils.bit_enum_attribute", "xdsl.dialects.llvm", "xdsl.dialects.vector", "xdsl.dialects.tensor", "xdsl.dialects.affine")})

_C05_FULL["xdsl.traits"] = {"shims": (), "calls": ("set", "dict"), "methods": ("get",)}

CHECKS = {
    "C05": {"module": "vx.checks.c05", "instrument": {"full": _C05_FULL}, "maxtasksperchild": 10},
    "C29": {"module": "vx.checks.c29", "instrument": {"full": {"xdsl.utils.symbol_table": {"shims": (), "methods": ("get", "pop"), "calls": ("dict",), "dictdisplay": True}}}, "maxtasksperchild": 20},
    "C07": {"module": "vx.checks.c07", "instrument": {"full": _C07_FULL}, "maxtasksperchild": 40},
    "C04": {"module": "vx.checks.c04", "instrument": {"full": _IR_TEXT_FULL}, "maxtasksperchild": 10},
    "C06": {"module": "vx.checks.c06", "instrument": {"full": _PARSE_FULL}, "maxtasksperchild": 20},
    "C18": {"module": "vx.checks.c18", "instrument": {"full": _TEXT_FULL}, "maxtasksperchild": 20},
    "C09": {"module": "vx.checks.c09", "instrument": {}, "maxtasksperchild": 60},
    "C10": {"module": "vx.checks.c10", "instrument": {"full": {"xdsl.ir.core": {"shims": ()}, "xdsl.irdl.operations": {"shims": ()}}}, "maxtasksperchild": 40},
    "C23": {"module": "vx.checks.c23", "instrument": {}, "maxtasksperchild": 60},
    "C21": {"module": "vx.checks.c21", "instrument": {"full": _X86_FULL}, "maxtasksperchild": 6},
    "C19": {"module": "vx.checks.c19", "instrument": {"full": _RV_FULL}, "maxtasksperchild": 10},
    "C22": {"module": "vx.checks.c22", "instrument": {"full": _RV_FULL}, "maxtasksperchild": 6},
    "C28": {"module": "vx.checks.c28", "instrument": {}, "maxtasksperchild": 10},
    "C16": {"module": "vx.checks.c16", "instrument": {"full": _LOOP_FULL}, "maxtasksperchild": 4},
    "C13": {"module": "vx.checks.c13", "instrument": {}},
    "C11": {"module": "vx.checks.c11", "instrument": {"full": {"xdsl.dialects.builtin": {"shims": ("math", "struct")}}}, "maxtasksperchild": 4},
    "C02": {"module": "vx.checks.c02", "instrument": {"full": _ARITH_FULL}, "maxtasksperchild": 8},
    "C03": {"module": "vx.checks.c03", "instrument": {"identity": "all", "full": {"xdsl.ir.core": {"shims": ()}, "xdsl.transforms.common_subexpression_elimination": {}, "xdsl.dialects.builtin": {"shims": ("math", "struct")}}}, "maxtasksperchild": 8},
    "C01": {"module": "vx.checks.c01", "instrument": {"identity": "all", "full": {"xdsl.ir.core": {"shims": ()}, "xdsl.rewriter": {"shims": ()}}}, "maxtasksperchild": 4},
    "C08": {"module": "vx.checks.c08", "instrument": {"full": {"xdsl.dialects.builtin": {"shims": ("math", "struct")},
            "xdsl.transforms.common_subexpression_elimination": {}, "xdsl.irdl.attributes": {}, "xdsl.dialects.arith": {}}}},
    "C20": {"module": "vx.checks.c20", "instrument": {"identity": ["xdsl.transforms.riscv_lower_parallel_mov"]}},
    "C14": {"module": "vx.checks.c14", "instrument": {"full": _ARITH_FULL}, "maxtasksperchild": 10},
    "C26": {"module": "vx.checks.c26", "instrument": {"full": {"xdsl.ir.affine.affine_expr": {}, "xdsl.ir.affine.affine_map": {}}}},
    "C12": {"module": "vx.checks.c12", "instrument": {"identity": ["xdsl.utils.worklist", "xdsl.utils.disjoint_set", "xdsl.utils.scoped_dict"]}},
    "C15": {"module": "vx.checks.c15", "instrument": {"full": {
        "xdsl.interpreters.arith": {}, "xdsl.utils.comparisons": {}, "xdsl.interpreters.func": {}, "xdsl.dialects.builtin": {},
        "xdsl.interpreters.cf": {}, "xdsl.interpreters.scf": {}, "xdsl.interpreter": {}}}},
}
