"""Registry: property id -> check module and import-hook profile (must be known before xdsl is imported)."""

_NUM = {
    "xdsl.interpreters.arith": {},
    "xdsl.utils.comparisons": {},
    "xdsl.interpreter": {},
}

CHECKS = {
    "C26": {"module": "vx.checks.c26", "instrument": {"full": {"xdsl.ir.affine.affine_expr": {}, "xdsl.ir.affine.affine_map": {}}}},
    "C12": {"module": "vx.checks.c12", "instrument": {"identity": ["xdsl.utils.worklist", "xdsl.utils.disjoint_set", "xdsl.utils.scoped_dict"]}},
    "C15": {"module": "vx.checks.c15", "instrument": {"full": {
        "xdsl.interpreters.arith": {}, "xdsl.utils.comparisons": {}, "xdsl.interpreters.func": {}, "xdsl.dialects.builtin": {},
        "xdsl.interpreters.cf": {}, "xdsl.interpreters.scf": {}, "xdsl.interpreter": {}}}},
}
