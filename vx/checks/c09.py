"""C09 - IRDL attribute constraints accept exactly what they describe (unions, intersections, parameters, variables, hints, inference)."""
from __future__ import annotations

import itertools
from typing import Generic

from typing_extensions import TypeVar

from vx.framework import decide
from vx.symx import SymBool, SymInt, sym_not
import vx.symx as _symx

from xdsl.dialects.builtin import ArrayAttr, IntAttr, IntegerType, Signedness, SignednessAttr, StringAttr, UnitAttr
from xdsl.ir import Attribute, ParametrizedAttribute
from xdsl.irdl import (AllOf, AnyAttr, AnyOf, AttrSetConstraint, BaseAttr, ConstraintContext, EqAttrConstraint, ParamAttrConstraint, VarConstraint, irdl_attr_definition,
                       irdl_to_attr_constraint)
from xdsl.utils.exceptions import PyRDLError, VerifyException
from xdsl.utils.hints import isa

LEVEL = "other"
EXPLANATION = (
    "Constraint trees are generated from a grammar (Any, Base, Eq, AttrSet, ParamAttrConstraint over a generic two-parameter "
    "attribute and over IntegerType, VarConstraint with shared names at several positions, AnyOf.get / `|` unions of two and "
    "three alternatives incl. every pair of parameter-constraint alternatives over a five-letter alphabet, AllOf / `&` "
    "intersections) and built with the real constructors (a PyRDLError refusal is accepted and skipped). Each is run with the "
    "real verify on a SYMBOLIC attribute: its shape (IntAttr, StringAttr, IntegerType, UnitAttr, ArrayAttr of 0-2 leaves, pair of "
    "leaves / of pairs) is forked, its integer payloads and type widths are solver variables. z3 decides for all payloads that "
    "acceptance equals a declarative reference: union = some alternative, intersection = all, parameters/base/equality/set by "
    "structure, variables = there is one assignment under which every occurrence equals it. On every accepted path, if the "
    "constraint reports can_infer for the bound variables, the inferred attribute must verify. Type hints (classes, unions, "
    "generic attribute classes, nested and unions of generics) are converted with irdl_to_attr_constraint and compared, on the "
    "same symbolic attributes, with the runtime isa and with a structural reference of the hint."
)
FUNCTIONS = ["AnyOf.get / AnyOf.__init__ / AnyOf.verify", "AttrConstraint.__or__ / __and__", "relax_constraint of EqAttrConstraint, AttrSetConstraint, BaseAttr, ParamAttrConstraint", "ParamAttrConstraint.get/verify/infer/can_infer",
             "VarConstraint.verify/infer/can_infer", "EqAttrConstraint / AttrSetConstraint / BaseAttr / AllOf verify", "irdl_to_attr_constraint", "xdsl.utils.hints.isa"]
ASSUMPTIONS = ["reference semantics of a constraint: the property's wording, evaluated structurally with an existential variable assignment over the sub-attributes of the verified attribute",
               "occurrences of one variable name carry the same inner constraint"]
OUTSIDE = ["attributes outside the generated family (depth <= 2, arrays <= 2 elements, integer payloads in [-2,12], widths in [1,64], two string values)", "range constraints and integer constraints (C10 covers range variables)",
           "constraint trees outside the generated grammar; MessageConstraint; custom constraints of dialects"]
STUBS = []

_symx.FORMAT_LIMIT[0] = 1

_A = TypeVar("_A", bound=Attribute, covariant=True, default=Attribute)
_B = TypeVar("_B", bound=Attribute, covariant=True, default=Attribute)


@irdl_attr_definition
class GPair(ParametrizedAttribute, Generic[_A, _B]):
    name = "vx.gpair"
    first: _A
    second: _B


# ---- symbolic attribute family -------------------------------------------------------------------------------
class Src:
    """source of shape choices and payloads: symbolic (explorer) or concrete (replay inputs)"""

    def __init__(self, ex, concrete, narrow=False):
        self.ex, self.c, self.narrow = ex, concrete, narrow

    def choose(self, name, n):
        if self.c is not None:
            return int(self.c.get(name, 0))
        v = self.ex.choose(n, name)
        self.ex.named[name] = v
        return v

    def int(self, name, lo, hi):
        if self.c is not None:
            return int(self.c.get(name, lo))
        return SymInt.var(name, lo, hi)


LEAF_SHAPES = 5


def mk_leaf(src, p, k=None):
    k = src.choose(p + ".shape", LEAF_SHAPES) if k is None else k
    if k == 0:
        return IntAttr(src.int(p + ".int", *((-1, 3) if src.narrow else (-2, 12))))
    if k == 1:
        return StringAttr("a" if src.choose(p + ".str", 2) == 0 else "b")
    if k == 2:
        return IntegerType(IntAttr(src.int(p + ".width", *((7, 17) if src.narrow else (1, 64)))))
    if k == 3:
        return UnitAttr()
    return ArrayAttr([])


def mk_attr(src, depth):
    """top-level shapes: 0-4 leaves, 5 array len1, 6 array len2, 7 pair of leaves, 8 pair(pair, leaf) (depth 2)"""
    k = src.choose("a.shape", 9 if depth >= 2 else 8)
    if k < 5:
        return mk_leaf(src, "a", k)
    if k == 5:
        return ArrayAttr([mk_leaf(src, "a.0")])
    if k == 6:
        return ArrayAttr([mk_leaf(src, "a.0"), mk_leaf(src, "a.1")])
    if k == 7:
        return GPair(mk_leaf(src, "a.0"), mk_leaf(src, "a.1"))
    return GPair(GPair(mk_leaf(src, "a.0.0"), mk_leaf(src, "a.0.1")), mk_leaf(src, "a.1"))


def subattrs(a):
    out = [a]
    if isinstance(a, GPair):
        out += subattrs(a.first) + subattrs(a.second)
    elif isinstance(a, ArrayAttr):
        for e in a.data:
            out += subattrs(e)
    elif isinstance(a, IntegerType):
        out += [a.width, a.signedness]
    return out


def aeq(a, b):
    """structural equality of two attributes of the family (independent of Attribute.__eq__)"""
    if type(a) is not type(b):
        return False
    if isinstance(a, IntAttr):
        return a.data == b.data
    if isinstance(a, (StringAttr, SignednessAttr)):
        return a.data == b.data
    if isinstance(a, UnitAttr):
        return True
    if isinstance(a, IntegerType):
        return band(a.width.data == b.width.data, a.signedness.data == b.signedness.data)
    if isinstance(a, ArrayAttr):
        if len(a.data) != len(b.data):
            return False
        return band(*[aeq(x, y) for x, y in zip(a.data, b.data)])
    if isinstance(a, GPair):
        return band(aeq(a.first, b.first), aeq(a.second, b.second))
    raise AssertionError(f"aeq: {a!r}")


def band(*cs):
    r = True
    for c in cs:
        if c is True:
            continue
        if c is False or r is False:
            r = False
            continue
        r = c if r is True else r & c
    return r


def bor(*cs):
    r = False
    for c in cs:
        if c is False:
            continue
        if c is True or r is True:
            r = True
            continue
        r = c if r is False else r | c
    return r


def bnot(c):
    return (not c) if isinstance(c, bool) else sym_not(c)


# ---- constraint specs ------------------------------------------------------------------------------------------
from xdsl.dialects.builtin import FixedBitwidthType  # noqa: E402
from xdsl.ir import BuiltinAttribute, TypeAttribute  # noqa: E402

ABSTRACT = {"TypeAttribute": TypeAttribute, "FixedBitwidthType": FixedBitwidthType, "BuiltinAttribute": BuiltinAttribute}
CLASSES = {"IntAttr": IntAttr, "StringAttr": StringAttr, "IntegerType": IntegerType, "UnitAttr": UnitAttr, "ArrayAttr": ArrayAttr, "GPair": GPair}


def cattr(s):
    k = s[0]
    if k == "int":
        return IntAttr(s[1])
    if k == "str":
        return StringAttr(s[1])
    if k == "ity":
        return IntegerType(s[1])
    if k == "unit":
        return UnitAttr()
    if k == "arr":
        return ArrayAttr([cattr(x) for x in s[1]])
    if k == "pair":
        return GPair(cattr(s[1]), cattr(s[2]))
    raise AssertionError(s)


def build(s):
    """the real constraint for a spec (may raise PyRDLError)"""
    k = s[0]
    if k == "any":
        return AnyAttr()
    if k == "base":
        return BaseAttr(CLASSES[s[1]])
    if k == "abase":
        return BaseAttr(ABSTRACT[s[1]])
    if k == "eq":
        return EqAttrConstraint(cattr(s[1]))
    if k == "set":
        return AttrSetConstraint(frozenset(cattr(x) for x in s[1]))
    if k == "param":
        return ParamAttrConstraint(CLASSES[s[1]], tuple(build(x) for x in s[2]))
    if k == "paramget":
        return ParamAttrConstraint.get(CLASSES[s[1]], *[build(x) for x in s[2]])
    if k == "var":
        return VarConstraint(s[1], build(s[2]))
    if k == "anyof":
        return AnyOf.get(*[build(x) for x in s[1]])
    if k == "or":
        return build(s[1]) | build(s[2])
    if k == "allof":
        return AllOf(tuple(build(x) for x in s[1]))
    if k == "and":
        return build(s[1]) & build(s[2])
    raise AssertionError(s)


def names(s, out=None):
    out = set() if out is None else out
    if s[0] == "var":
        out.add(s[1])
        names(s[2], out)
    elif s[0] in ("param", "paramget", "set"):
        if s[0] != "set":
            for x in s[2]:
                names(x, out)
    elif s[0] in ("anyof", "allof"):
        for x in s[1]:
            names(x, out)
    elif s[0] in ("or", "and"):
        names(s[1], out)
        names(s[2], out)
    return out


def sat(s, a, sigma):
    """declarative meaning of a constraint spec on attribute a under the variable assignment sigma"""
    k = s[0]
    if k == "any":
        return True
    if k == "base":
        return isinstance(a, CLASSES[s[1]])
    if k == "abase":
        return isinstance(a, ABSTRACT[s[1]])
    if k == "eq":
        return aeq(a, cattr(s[1]))
    if k == "set":
        return bor(*[aeq(a, cattr(x)) for x in s[1]])
    if k in ("param", "paramget"):
        if not isinstance(a, CLASSES[s[1]]):
            return False
        ps = a.parameters
        if len(ps) != len(s[2]):
            return False
        return band(*[sat(x, p, sigma) for x, p in zip(s[2], ps)])
    if k == "var":
        return band(aeq(sigma[s[1]], a), sat(s[2], a, sigma))
    if k == "anyof":
        return bor(*[sat(x, a, sigma) for x in s[1]])
    if k == "or":
        return bor(sat(s[1], a, sigma), sat(s[2], a, sigma))
    if k == "allof":
        return band(*[sat(x, a, sigma) for x in s[1]])
    if k == "and":
        return band(sat(s[1], a, sigma), sat(s[2], a, sigma))
    raise AssertionError(s)


def accepts(s, a):
    ns = sorted(names(s))
    if not ns:
        return sat(s, a, {})
    cands = subattrs(a)
    return bor(*[sat(s, a, dict(zip(ns, combo))) for combo in itertools.product(cands, repeat=len(ns))])


def has_set(c):
    if isinstance(c, AnyOf) and any(isinstance(k, type) for k in c._based_constrs):
        pass
    """does verification hash the attribute (set membership)? then payload ranges are narrowed: hashing concretises by forking"""
    if isinstance(c, AttrSetConstraint):
        return True
    for f in ("attr_constrs", "param_constrs"):
        if any(has_set(x) for x in getattr(c, f, ())):
            return True
    inner = getattr(c, "constraint", None)
    return inner is not None and has_set(inner)


# ---- generation ----------------------------------------------------------------------------------------------------
I0, I1, I2 = ("int", 0), ("int", 1), ("int", 2)
LEAVES = [("any",), ("base", "IntAttr"), ("base", "StringAttr"), ("base", "IntegerType"), ("base", "GPair"), ("base", "ArrayAttr"), ("eq", I0), ("eq", I1), ("eq", ("str", "a")), ("eq", ("ity", 32)),
          ("eq", ("arr", [])), ("eq", ("unit",)), ("set", [I0, I2]), ("set", [I1, ("str", "a")]), ("set", [("ity", 8), ("ity", 16), ("arr", [])])]
ALPHA = {"I": ("base", "IntAttr"), "S": ("base", "StringAttr"), "IS": ("or", ("base", "IntAttr"), ("base", "StringAttr")), "A": ("any",), "Z": ("eq", I0), "T": ("var", "T", ("any",))}
T_ANY = ("var", "T", ("any",))
T_INT = ("var", "T", ("base", "IntAttr"))
U_ANY = ("var", "U", ("any",))


def sid(s):
    k = s[0]
    if k == "any":
        return "Any"
    if k == "base":
        return s[1]
    if k == "abase":
        return "Abs" + s[1]
    if k == "eq":
        return "Eq" + aid(s[1])
    if k == "set":
        return "Set" + "".join(aid(x) for x in s[1])
    if k in ("param", "paramget"):
        return ("P" if k == "param" else "Pg") + s[1][:2] + "(" + ",".join(sid(x) for x in s[2]) + ")"
    if k == "var":
        return s[1] + ":" + sid(s[2])
    if k in ("anyof", "allof"):
        return ("U" if k == "anyof" else "N") + "[" + ",".join(sid(x) for x in s[1]) + "]"
    return "(" + sid(s[1]) + ("|" if k == "or" else "&") + sid(s[2]) + ")"


def aid(a):
    return {"int": lambda: f"i{a[1]}", "str": lambda: f"'{a[1]}'", "ity": lambda: f"ty{a[1]}", "unit": lambda: "u", "arr": lambda: "[" + "".join(aid(x) for x in a[1]) + "]",
            "pair": lambda: "<" + aid(a[1]) + aid(a[2]) + ">"}[a[0]]()


def gen_specs(tier):
    S = []
    S += LEAVES
    # variables
    S += [("param", "GPair", [T_ANY, T_ANY]), ("param", "GPair", [T_INT, T_INT]), ("param", "GPair", [T_ANY, ("param", "GPair", [T_ANY, U_ANY])]),
          ("param", "GPair", [("param", "GPair", [T_ANY, U_ANY]), T_ANY]), ("param", "GPair", [("param", "GPair", [T_ANY, U_ANY]), U_ANY]),
          ("param", "GPair", [("param", "GPair", [T_ANY, T_ANY]), T_ANY]), ("allof", [T_ANY, ("base", "IntAttr")]), ("allof", [("param", "GPair", [T_ANY, ("any",)]), ("param", "GPair", [("any",), T_ANY])]),
          ("and", ("param", "GPair", [T_ANY, U_ANY]), ("param", "GPair", [U_ANY, T_ANY])), ("param", "IntegerType", [("eq", ("int", 32)), ("any",)]),
          ("param", "IntegerType", [("set", [("int", 8), ("int", 16)]), ("any",)]), ("param", "GPair", [("param", "IntegerType", [T_ANY, ("any",)]), T_ANY]),
          ("paramget", "GPair", [("eq", I0), ("eq", I1)]), ("paramget", "GPair", [("any",), ("any",)]), ("paramget", "GPair", [("eq", I0), ("any",)]),
          ("anyof", [("param", "GPair", [T_ANY, T_ANY]), ("base", "IntAttr")]), ("anyof", [("param", "GPair", [T_ANY, T_ANY]), T_INT]) if False else ("anyof", [("param", "GPair", [T_INT, T_INT]), ("eq", I0)])]
    # unions whose alternatives are occurrences of the SAME variable with different inner constraints (and of different variables with the
    # same inner constraint): merging alternatives must compare the whole variable constraint, not its name or its body alone
    T_STR, T_ITY, U_INT = ("var", "T", ("base", "StringAttr")), ("var", "T", ("base", "IntegerType")), ("var", "U", ("base", "IntAttr"))
    for a, b in ((T_INT, T_STR), (T_STR, T_INT), (T_INT, T_ITY), (T_INT, T_ANY), (T_ANY, T_INT), (T_INT, U_INT), (T_ANY, U_ANY), (T_INT, ("var", "T", ("eq", I0)))):
        S.append(("anyof", [a, b]))
        S.append(("or", a, b))
        S.append(("anyof", [("param", "GPair", [a, ("any",)]), ("param", "GPair", [b, ("any",)])]))
        S.append(("anyof", [("param", "GPair", [("any",), a]), ("param", "GPair", [("any",), b])]))
        S.append(("or", ("param", "GPair", [a, ("base", "IntAttr")]), ("param", "GPair", [b, ("base", "IntAttr")])))
    S.append(("anyof", [T_INT, ("base", "UnitAttr"), T_STR]))
    S.append(("param", "GPair", [("anyof", [T_INT, T_STR]), ("any",)]))
    # unions / intersections of leaves
    pairs = list(itertools.combinations(LEAVES, 2))
    if tier == "quick":
        pairs = pairs[::3]
    for a, b in pairs:
        S.append(("anyof", [a, b]))
        S.append(("or", b, a))
    for a, b in (list(itertools.combinations(LEAVES, 2))[::2 if tier != "quick" else 7]):
        S.append(("and", a, b))
        S.append(("allof", [b, a]))
    trip = list(itertools.combinations(LEAVES[1:], 3))
    for t in trip[:: (5 if tier != "quick" else 29)]:
        S.append(("anyof", list(t)))
        S.append(("or", ("or", t[2], t[0]), t[1]))
    # every pair of GPair parameter-constraint alternatives over the alphabet (union merging)
    letters = ["I", "S", "IS", "A", "Z"]
    combos = list(itertools.product(letters, repeat=4))
    if tier == "quick":
        combos = combos[::2]
    for a, b, c, d in combos:
        S.append(("anyof", [("param", "GPair", [ALPHA[a], ALPHA[b]]), ("param", "GPair", [ALPHA[c], ALPHA[d]])]))
    for a, b, c, d in list(itertools.product(["I", "S", "IS", "A"], repeat=4))[:: (1 if tier != "quick" else 5)]:
        S.append(("anyof", [("param", "GPair", [ALPHA[a], ALPHA[b]]), ("base", "UnitAttr"), ("param", "GPair", [ALPHA[c], ALPHA[d]])]))
        S.append(("or", ("param", "GPair", [ALPHA[a], ALPHA[b]]), ("or", ("base", "IntAttr"), ("param", "GPair", [ALPHA[c], ALPHA[d]]))))
    # unions mixing base / param / eq on the same class
    S += [("anyof", [("base", "GPair"), ("param", "GPair", [ALPHA["I"], ALPHA["S"]])]), ("anyof", [("param", "GPair", [ALPHA["I"], ALPHA["S"]]), ("base", "GPair")]),
          ("anyof", [("eq", ("pair", I0, I1)), ("param", "GPair", [ALPHA["S"], ALPHA["S"]])]), ("anyof", [("eq", I0), ("set", [I1, I2]), ("eq", ("str", "a"))]),
          ("anyof", [("set", [I0, ("str", "a")]), ("eq", ("str", "b"))]), ("anyof", [("anyof", [("eq", I0), ("base", "StringAttr")]), ("eq", I1)]), ("anyof", [("any",), ("eq", I1)]),
          ("anyof", [("param", "IntegerType", [("eq", ("int", 32)), ("any",)]), ("param", "IntegerType", [("eq", ("int", 64)), ("any",)])]),
          ("anyof", [("param", "IntegerType", [("eq", ("int", 32)), ("any",)]), ("eq", ("ity", 16))])]
    # unions with an abstract (non-final) base class alternative, in both orders; overlapping ones must be refused
    concrete = [("eq", ("ity", 32)), ("eq", I0), ("base", "IntegerType"), ("base", "StringAttr"), ("param", "IntegerType", [("eq", ("int", 32)), ("any",)]), ("set", [("ity", 8), ("ity", 16)]), ("base", "GPair"),
                ("param", "GPair", [ALPHA["I"], ALPHA["S"]]), ("set", [I0, ("ity", 8)])]
    for ab in ABSTRACT:
        S.append(("abase", ab))
        for c in concrete:
            S.append(("anyof", [c, ("abase", ab)]))
            S.append(("anyof", [("abase", ab), c]))
            S.append(("or", c, ("abase", ab)))
        S.append(("anyof", [("eq", I0), ("abase", ab), ("base", "StringAttr")]))
        S.append(("anyof", [("base", "StringAttr"), ("eq", ("ity", 32)), ("abase", ab)]))
        S.append(("allof", [("abase", ab), ("base", "IntegerType")]))
    out, seen = [], set()
    for s in S:
        i = sid(s)
        if i not in seen:
            seen.add(i)
            out.append(s)
    return out


# ---- hints -----------------------------------------------------------------------------------------------------------
def hints():
    H = {}
    H["IntAttr"] = (IntAttr, lambda a: isinstance(a, IntAttr))
    H["Int|Str"] = (IntAttr | StringAttr, lambda a: isinstance(a, (IntAttr, StringAttr)))
    H["Arr[Int]"] = (ArrayAttr[IntAttr], lambda a: isinstance(a, ArrayAttr) and all(isinstance(e, IntAttr) for e in a.data))
    H["Arr[Int|Str]"] = (ArrayAttr[IntAttr | StringAttr], lambda a: isinstance(a, ArrayAttr) and all(isinstance(e, (IntAttr, StringAttr)) for e in a.data))
    H["Arr[Arr[Int]]"] = (ArrayAttr[ArrayAttr[IntAttr]], lambda a: isinstance(a, ArrayAttr) and all(isinstance(e, ArrayAttr) and all(isinstance(x, IntAttr) for x in e.data) for e in a.data))
    H["Arr[Int]|Str"] = (ArrayAttr[IntAttr] | StringAttr, lambda a: isinstance(a, StringAttr) or (isinstance(a, ArrayAttr) and all(isinstance(e, IntAttr) for e in a.data)))
    P = lambda f, g: (lambda a: isinstance(a, GPair) and f(a.first) and g(a.second))
    I = lambda a: isinstance(a, IntAttr)
    S = lambda a: isinstance(a, StringAttr)
    IS = lambda a: isinstance(a, (IntAttr, StringAttr))
    ANY = lambda a: True
    H["P[I,S]"] = (GPair[IntAttr, StringAttr], P(I, S))
    H["P[I]"] = (GPair[IntAttr], P(I, ANY))
    H["P[IS,I]|P[I,S]"] = (GPair[IntAttr | StringAttr, IntAttr] | GPair[IntAttr, StringAttr], lambda a: P(IS, I)(a) or P(I, S)(a))
    H["P[A,I]|P[S,S]"] = (GPair[Attribute, IntAttr] | GPair[StringAttr, StringAttr], lambda a: P(ANY, I)(a) or P(S, S)(a))
    H["P[I,IS]|Unit|P[S,S]"] = (GPair[IntAttr, IntAttr | StringAttr] | UnitAttr | GPair[StringAttr, StringAttr], lambda a: P(I, IS)(a) or isinstance(a, UnitAttr) or P(S, S)(a))
    H["P[I,I]|P[S,I]"] = (GPair[IntAttr, IntAttr] | GPair[StringAttr, IntAttr], lambda a: P(IS, I)(a))
    H["P[P[I,I],S]"] = (GPair[GPair[IntAttr, IntAttr], StringAttr], P(P(I, I), S))
    H["P[I,S]|Int"] = (GPair[IntAttr, StringAttr] | IntAttr, lambda a: P(I, S)(a) or I(a))
    H["IntegerType|Unit"] = (IntegerType | UnitAttr, lambda a: isinstance(a, (IntegerType, UnitAttr)))
    return H


# ---- obligations --------------------------------------------------------------------------------------------------------
_SPECS = {}


def specs(tier):
    if tier not in _SPECS:
        _SPECS[tier] = {sid(s): s for s in gen_specs(tier)}
    return _SPECS[tier]


def bounds(tier):
    return {"constraint_trees": len(specs(tier)), "hints": sorted(hints()), "attribute_shapes": "IntAttr|StringAttr|IntegerType|UnitAttr|[]|[leaf]|[leaf,leaf]|pair(leaf,leaf)|pair(pair(leaf,leaf),leaf)",
            "int_payload": "[-2,12] ([-1,3] when verification hashes the attribute: set membership)", "width": "[1,64] ([7,17] when hashed)"}


def obligations(tier):
    obs = [{"id": f"C09/accept/{k}", "kind": "accept", "spec": k, "tier": tier, "weight": 2} for k in specs(tier)]
    obs += [{"id": f"C09/hint/{k}", "kind": "hint", "hint": k, "tier": tier, "weight": 2} for k in hints()]
    return obs


def h_accept(ob, concrete=None):
    def h(ex):
        s = specs(ob.get("tier", "quick")).get(ob["spec"]) or specs("thorough")[ob["spec"]]
        try:
            c = build(s)
        except PyRDLError:
            if ex is not None:
                ex.note("refused", 1)
            ob["_refused"] = True
            return True
        hashy = has_set(c)
        a = mk_attr(Src(ex, concrete, narrow=hashy), 1 if hashy else 2)
        want = accepts(s, a)
        ctx = ConstraintContext()
        try:
            c.verify(a, ctx)
            got = True
        except VerifyException:
            got = False
        if not got:
            return bnot(want)
        if want is False:
            return {"prop": False, "detail": f"{c!r} accepts an attribute that no reading of the definition accepts"}
        if want is not True and not bool(want):
            return {"prop": False, "detail": f"{c!r} accepts an attribute that the definition rejects"}
        # inference: if the constraint claims it can infer from the variables bound so far, the result must satisfy it
        if c.can_infer(ctx.attr_variables):
            try:
                inf = c.infer(ctx)
            except Exception as e:
                return {"prop": False, "detail": f"can_infer is true but infer raised {type(e).__name__}"}
            try:
                c.verify(inf, ctx)
            except VerifyException:
                return {"prop": False, "detail": f"inferred attribute does not satisfy {c!r}"}
        return True

    return h


def h_hint(ob, concrete=None):
    def h(ex):
        hint, ref = hints()[ob["hint"]]
        try:
            c = irdl_to_attr_constraint(hint)
        except PyRDLError:
            ob["_refused"] = True
            return True
        a = mk_attr(Src(ex, concrete), 2)
        want = bool(ref(a))
        got_c = c.verifies(a)
        got_isa = isa(a, hint)
        if got_c != got_isa:
            return {"prop": False, "detail": f"constraint derived from hint {ob['hint']} says {got_c}, isa says {got_isa}"}
        if got_c != want:
            return {"prop": False, "detail": f"hint {ob['hint']}: constraint and isa say {got_c}, the hint's structure says {want}"}
        return True

    return h


HARNESS = {"accept": h_accept, "hint": h_hint}


def run(ob, tier, stats, exclude):
    r = decide(HARNESS[ob["kind"]](ob), timeout_ms=30000, budget_s=240, stats=stats, exclude=exclude, ob=ob, max_paths=8000)
    if ob.get("_refused") and r["status"] in ("held", "inconclusive"):
        r["status"] = "held"
        r["reasons"] = ["constructor refuses this combination (PyRDLError): nothing to check"]
    return r


def evidence_extra(tier, results):
    return {"refused_by_constructor": sum(1 for r in results if any("constructor refuses" in x for x in r.get("reasons", [])))}


def replay(ob, inputs):
    try:
        v = HARNESS[ob["kind"]](ob, concrete=inputs)(None)
    except Exception as e:
        return {"violates": True, "observed": f"exception {type(e).__name__}: {str(e)[:300]}"}
    if isinstance(v, dict):
        return {"violates": not v["prop"], "observed": v["detail"]}
    return {"violates": not bool(v), "observed": "acceptance differs from the definition" if not v else "agrees"}
