"""C08 - attribute equality and hashing form a consistent value semantics (M1)."""
from __future__ import annotations

import itertools
import struct

import z3

from vx import tv, util
from vx.framework import decide
from vx.symfloat import F32, F64, SymFloat
from vx.symx import SymBool, SymInt, as_z3_bool

from xdsl.dialects import arith, builtin, test
from xdsl.dialects.builtin import ArrayAttr, FloatAttr, FloatData, IntAttr, IntegerAttr, IntegerType, f32, f64
from xdsl.transforms.common_subexpression_elimination import OperationInfo
from xdsl.utils.test_value import create_ssa_value

LEVEL = "other"
EXPLANATION = (
    "The real __eq__/__hash__ code of FloatData (source-level), the dataclass-generated equality of IntAttr/IntegerAttr/"
    "IntegerType/FloatAttr/ArrayAttr and OperationInfo.__eq__/__hash__ run on symbolic payloads (doubles given by their 64-bit "
    "pattern so that signed zeros and every NaN payload are distinct inputs; ints as bit-vectors). z3 decides reflexivity, "
    "symmetry, transitivity, 'equal <=> same bit pattern', and 'equal => equal hash' for all payloads."
)
FUNCTIONS = ["xdsl.dialects.builtin.FloatData.__eq__/__hash__", "dataclass __eq__ of IntAttr/IntegerAttr/IntegerType/FloatAttr/ArrayAttr (xdsl.ir.core.Data/ParametrizedAttribute)",
             "xdsl.transforms.common_subexpression_elimination.OperationInfo.__eq__/__hash__"]
ASSUMPTIONS = ["CPython hash(float) contract: numerically equal non-NaN floats hash equal, a NaN hashes by object identity (modelled as an arbitrary value per call)",
               "hash(bytes) is a function of the bytes (uninterpreted function)", "struct.pack('<d') is the IEEE-754 bit pattern (vx/shim_struct.py)",
               "hashes of composite (dataclass) attributes are tuple hashes of component hashes: component consistency suffices (argument, not a query)"]
OUTSIDE = ["FloatAttr construction (rounding to the type) beyond the 8 enumerated exactly-representable values x 12 float types of the FloatAttr.ctor family; FNUZ / E8M0 formats", "dialect attributes with hand-written __eq__/__hash__ other than FloatData", "attributes parsed from text in different contexts (UnregisteredAttr)", "string payloads (see C06)"]
STUBS = ["hash(float)/hash(bytes) contract stubs", "struct.pack"]


def bounds(tier):
    return {"float_payloads": "all 2^64 binary64 patterns", "int_payload_range": [-8, 8] if tier == "quick" else [-31, 32], "int_widths": [1, 8, 64]}


def obligations(tier):
    obs = []
    for p in ("refl", "sym", "trans", "eq_iff_bits", "eq_implies_hash"):
        obs.append({"id": f"C08/FloatData/{p}", "kind": "fdata", "prop": p})
    for t in ("f32", "f64"):
        for p in ("refl", "sym", "eq_iff_bits", "trans"):
            obs.append({"id": f"C08/FloatAttr.{t}/{p}", "kind": "fattr", "prop": p, "t": t})
    for t in CTOR_TYPES:
        obs.append({"id": f"C08/FloatAttr.ctor/{t}", "kind": "fctor", "t": t, "prop": "ctor"})
    for cls in ("IntAttr", "IntegerAttr.i8", "IntegerAttr.i64", "IntegerAttr.index", "IntegerType", "ArrayAttr.IntAttr", "Unregistered.attr", "Unregistered.type", "Strided.offset", "DenseArray.payload"):
        for p in ("refl", "sym", "trans", "eq_iff_payload", "eq_implies_hash"):
            obs.append({"id": f"C08/{cls}/{p}", "kind": "iattr", "cls": cls, "prop": p})
    for shape in ("constant.i8", "addi.attr", "testop.props"):
        for p in ("eq_iff_payload", "eq_implies_hash", "sym"):
            obs.append({"id": f"C08/OperationInfo/{shape}/{p}", "kind": "opinfo", "shape": shape, "prop": p, "weight": 3})
    return obs


_UNREG = {}


def mk_iattr(cls, v):
    if cls == "IntAttr":
        return IntAttr(v)
    if cls.startswith("IntegerAttr"):
        t = cls.split(".")[1]
        return IntegerAttr(v, builtin.IndexType() if t == "index" else IntegerType(int(t[1:])))
    if cls == "IntegerType":
        return IntegerType(v)
    if cls == "ArrayAttr.IntAttr":
        return ArrayAttr([IntAttr(v), IntAttr(1)])
    if cls.startswith("Unregistered"):
        # the per-name class xdsl creates for attributes/types of unloaded dialects; the payload field normally holds the
        # raw text, here an IntAttr so that it can be symbolic (fields are compared generically)
        is_type = cls.endswith("type")
        U = _UNREG.setdefault(is_type, builtin.UnregisteredAttr.with_name_and_type("foo.bar", is_type))  # one class per name, as a Context keeps it
        u = U.__new__(U)
        for f_, val in (("attr_name", builtin.StringAttr("foo.bar")), ("is_type", IntAttr(int(is_type))), ("is_opaque", IntAttr(0)), ("value", IntAttr(v))):
            object.__setattr__(u, f_, val)
        return u
    if cls == "Strided.offset":
        return builtin.StridedLayoutAttr(ArrayAttr([IntAttr(1), builtin.NoneAttr()]), IntAttr(v))
    if cls == "DenseArray.payload":
        d = builtin.DenseArrayBase.__new__(builtin.DenseArrayBase)
        object.__setattr__(d, "elt_type", builtin.i32)
        object.__setattr__(d, "data", IntAttr(v))
        return d




def b(x):
    return as_z3_bool(x)


CTOR_TYPES = ["Float16Type", "BFloat16Type", "Float32Type", "Float64Type", "FloatTF32Type", "Float8E5M2Type", "Float8E4M3Type", "Float8E4M3FNType", "Float8E3M4Type", "Float6E2M3FNType",
              "Float6E3M2FNType", "Float4E2M1FNType"]
CTOR_VALS = [0.0, -0.0, 1.0, -1.0, 2.0, 0.5, -0.5, 4.0]  # exactly representable and pairwise different (as value or sign) in every listed format


def ctor_check(tname, i, j):
    """FloatAttr built by the REAL constructor: two attributes are equal exactly when they were built from the same value, equal ones hash alike,
    and building the first value again after the second gives an attribute equal to the first (no dependence on construction history)"""
    T = getattr(builtin, tname)()
    vi, vj = CTOR_VALS[i], CTOR_VALS[j]
    A = FloatAttr(vi, T)
    B = FloatAttr(vj, T)
    A2 = FloatAttr(vi, T)
    if not (A == A2 and hash(A) == hash(A2)):
        return {"prop": False, "detail": f"FloatAttr({vi!r}, {tname}) built twice gives different attributes"}
    if (A == B) != (i == j) or (B == A) != (i == j):
        return {"prop": False, "detail": f"FloatAttr({vi!r}) == FloatAttr({vj!r}) of {tname} is {A == B}"}
    if A == B and hash(A) != hash(B):
        return {"prop": False, "detail": "equal attributes hash differently"}
    import math

    if math.copysign(1.0, A.value.data) != math.copysign(1.0, vi) or A.value.data != vi:
        return {"prop": False, "detail": f"FloatAttr({vi!r}, {tname}) holds {A.value.data!r}"}
    return True


def run(ob, tier, stats, exclude):
    k = ob["kind"]
    if k == "fctor":
        def h(ex):
            i, j = SymInt.var("i", 0, len(CTOR_VALS) - 1), SymInt.var("j", 0, len(CTOR_VALS) - 1)
            return ctor_check(ob["t"], i.concretize(), j.concretize())
        return decide(h, timeout_ms=20000, budget_s=120, stats=stats, exclude=exclude, ob=ob, max_paths=6000)
    lo, hi = (-8, 8) if tier == "quick" else (-31, 32)

    if k == "fdata":
        def h(ex):
            x, y, z = (SymFloat.var_raw(n) for n in ("a", "b", "c"))
            A, B, Cc = FloatData(x), FloatData(y), FloatData(z)
            p = ob["prop"]
            if p == "refl":
                return b(A == FloatData(x))
            if p == "sym":
                return b(A == B) == b(B == A)
            if p == "trans":
                return z3.Implies(z3.And(b(A == B), b(B == Cc)), b(A == Cc))
            if p == "eq_iff_bits":
                return b(A == B) == (x.bits == y.bits)
            if p == "eq_implies_hash":
                ha, hb = FloatData.__hash__(A), FloatData.__hash__(B)
                return z3.Implies(b(A == B), b(SymInt.lift(ha) == hb))
        return decide(h, timeout_ms=20000, budget_s=120, stats=stats, exclude=exclude, ob=ob)

    if k == "fattr":
        T = f32 if ob["t"] == "f32" else f64

        def mk(x):
            a = FloatAttr.__new__(FloatAttr)
            object.__setattr__(a, "value", FloatData(x))
            object.__setattr__(a, "type", T)
            return a

        def h(ex):
            x, y, z = (SymFloat.var_raw(n) for n in ("a", "b", "c"))
            A, B, Cc = mk(x), mk(y), mk(z)
            p = ob["prop"]
            if p == "refl":
                return b(A == mk(x))
            if p == "sym":
                return b(A == B) == b(B == A)
            if p == "trans":
                return z3.Implies(z3.And(b(A == B), b(B == Cc)), b(A == Cc))
            if p == "eq_iff_bits":
                return b(A == B) == (x.bits == y.bits)
        return decide(h, timeout_ms=20000, budget_s=120, stats=stats, exclude=exclude, ob=ob)

    if k == "iattr":
        cls = ob["cls"]

        def mk(v):
            return mk_iattr(cls, v)

        l, hgh = (1, 16) if cls == "IntegerType" else (lo, hi)

        def h(ex):
            x, y, z = (SymInt.var(n, l, hgh) for n in ("a", "b", "c"))
            A, B, Cc = mk(x), mk(y), mk(z)
            p = ob["prop"]
            if p == "refl":
                return b(A == mk(x))
            if p == "sym":
                return b(A == B) == b(B == A)
            if p == "trans":
                return z3.Implies(z3.And(b(A == B), b(B == Cc)), b(A == Cc))
            if p == "eq_iff_payload":
                return b(A == B) == b(x == y)
            if p == "eq_implies_hash":
                e = A == B
                if bool(e):
                    return z3.BoolVal(hash(A) == hash(B))
                return True
        return decide(h, timeout_ms=20000, budget_s=120, stats=stats, exclude=exclude, ob=ob, max_paths=6000)

    if k == "opinfo":
        shape = ob["shape"]

        def mk(v):
            if shape == "constant.i8":
                return arith.ConstantOp(IntegerAttr(v, 8))
            if shape == "constant.f64":
                return arith.ConstantOp(tv.const_attr(v, "f64"), f64)
            if shape == "addi.attr":
                o = arith.AddiOp(X, Y)
                o.attributes["tag"] = IntAttr(v)
                return o
            if shape == "testop.props":
                return test.TestOp(operands=[X], result_types=[builtin.i32], properties={"p": IntegerAttr(v, 64), "q": IntAttr(3)})

        def h(ex):
            if shape == "constant.f64":
                x, y = SymFloat.var_raw("a"), SymFloat.var_raw("b")
                same = x.bits == y.bits
            else:
                x, y = SymInt.var("a", lo, hi), SymInt.var("b", lo, hi)
                same = b(x == y)
            IA, IB = OperationInfo(mk(x)), OperationInfo(mk(y))
            p = ob["prop"]
            if p == "eq_iff_payload":
                return b(IA == IB) == same
            if p == "sym":
                return b(IA == IB) == b(IB == IA)
            if p == "eq_implies_hash":
                if bool(IA == IB):
                    return z3.BoolVal(hash(IA) == hash(IB))
                return True
        return decide(h, timeout_ms=20000, budget_s=120, stats=stats, exclude=exclude, ob=ob, max_paths=6000)
    raise KeyError(k)


X = create_ssa_value(builtin.i32)
Y = create_ssa_value(builtin.i32)


# ------------------------------------------------------------------------------------------------
def fl(v):
    return struct.unpack("<d", struct.pack("<Q", v & ((1 << 64) - 1)))[0]


def bits(x):
    return struct.unpack("<Q", struct.pack("<d", x))[0]


def replay(ob, inputs):
    k, p = ob["kind"], ob["prop"]
    if k == "fctor":
        v = ctor_check(ob["t"], int(inputs.get("i", 0)), int(inputs.get("j", 0)))
        return {"violates": v is not True, "observed": v["detail"] if v is not True else "agrees"}
    try:
        if k in ("fdata", "fattr"):
            T = f64 if k == "fdata" or ob.get("t") == "f64" else f32
            xs = [fl(inputs.get(n, 0)) for n in ("a", "b", "c")]

            def mk(x):
                if k == "fdata":
                    return FloatData(x)
                a = FloatAttr.__new__(FloatAttr)
                object.__setattr__(a, "value", FloatData(x))
                object.__setattr__(a, "type", T)
                return a
            A, B, Cc = (mk(x) for x in xs)
            same = bits(xs[0]) == bits(xs[1])
            bad = {"refl": lambda: not (A == mk(xs[0])), "sym": lambda: (A == B) != (B == A),
                   "trans": lambda: (A == B) and (B == Cc) and not (A == Cc), "eq_iff_bits": lambda: (A == B) != same,
                   "eq_implies_hash": lambda: (A == B) and hash(A) != hash(B)}[p]()
            return {"violates": bool(bad), "values": [repr(x) for x in xs], "bits": [hex(bits(x)) for x in xs]}
        if k == "iattr":
            cls = ob["cls"]

            def mk(v):
                return mk_iattr(cls, v)
            xs = [inputs.get(n, 1) for n in ("a", "b", "c")]
            A, B, Cc = (mk(x) for x in xs)
            bad = {"refl": lambda: not (A == mk(xs[0])), "sym": lambda: (A == B) != (B == A),
                   "trans": lambda: (A == B) and (B == Cc) and not (A == Cc), "eq_iff_payload": lambda: (A == B) != (xs[0] == xs[1]),
                   "eq_implies_hash": lambda: (A == B) and hash(A) != hash(B)}[p]()
            return {"violates": bool(bad), "values": xs}
        if k == "opinfo":
            shape = ob["shape"]

            def mk(v):
                if shape == "constant.i8":
                    return arith.ConstantOp(IntegerAttr(v, 8))
                if shape == "constant.f64":
                    return arith.ConstantOp(FloatAttr(v, f64), f64)
                if shape == "addi.attr":
                    o = arith.AddiOp(X, Y)
                    o.attributes["tag"] = IntAttr(v)
                    return o
                return test.TestOp(operands=[X], result_types=[builtin.i32], properties={"p": IntegerAttr(v, 64), "q": IntAttr(3)})
            if shape == "constant.f64":
                xs = [fl(inputs.get(n, 0)) for n in ("a", "b")]
                same = bits(xs[0]) == bits(xs[1])
            else:
                xs = [inputs.get(n, 0) for n in ("a", "b")]
                same = xs[0] == xs[1]
            IA, IB = OperationInfo(mk(xs[0])), OperationInfo(mk(xs[1]))
            bad = {"eq_iff_payload": lambda: (IA == IB) != same, "sym": lambda: (IA == IB) != (IB == IA),
                   "eq_implies_hash": lambda: (IA == IB) and hash(IA) != hash(IB)}[p]()
            return {"violates": bool(bad), "values": [repr(x) for x in xs]}
    except Exception as e:
        return {"violates": True, "observed": f"exception {type(e).__name__}: {e}"}
    return {"violates": False}
