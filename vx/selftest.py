"""Concrete-vs-symbolic agreement of the proxy semantics: every SymInt operator is evaluated on symbolic
operands over small ranges and the resulting term is compared, value by value, with what CPython computes."""
import itertools
import operator
import sys

import z3

from .symx import Explorer, SymBool, SymInt, Unsupported

OPS = {
    "add": operator.add, "sub": operator.sub, "mul": operator.mul, "and": operator.and_, "or": operator.or_,
    "xor": operator.xor, "floordiv": operator.floordiv, "mod": operator.mod, "lshift": operator.lshift,
    "rshift": operator.rshift, "lt": operator.lt, "le": operator.le, "eq": operator.eq, "ne": operator.ne,
    "gt": operator.gt, "ge": operator.ge,
}
UN = {"neg": operator.neg, "abs": abs, "invert": operator.invert, "bit_length": lambda x: x.bit_length()}
RANGES = [(-9, 9), (0, 17), (-3, 40), (-130, -120), (5, 5), (250, 260)]
CONSTS = [1, 2, 4, 8, 255, 256, 7, -1, -8, 3, 0, 16, 15]


def run():
    bad = 0
    n = 0
    for (alo, ahi), (blo, bhi) in itertools.product(RANGES, RANGES[:4]):
        for name, f in OPS.items():
            def h(ex):
                a = SymInt.var("a", alo, ahi)
                b = SymInt.var("b", blo, bhi)
                return f(a, b)
            ex = Explorer()
            for p in ex.explore(h):
                if p.kind == "infeasible":
                    continue
                for av in range(alo, ahi + 1):
                    for bv in range(blo, bhi + 1):
                        s = z3.Solver()
                        A, B = p.named["a"].e, p.named["b"].e
                        sub = [(A, z3.BitVecVal(av, A.size())), (B, z3.BitVecVal(bv, B.size()))]
                        on_path = all(z3.is_true(z3.simplify(z3.substitute(c, *sub))) for c in p.pc)
                        if not on_path:
                            continue
                        n += 1
                        try:
                            exp = f(av, bv)
                            exp_kind = "ok"
                        except Exception as e:
                            exp, exp_kind = type(e).__name__, "raise"
                        if p.kind == "unsupported":
                            continue
                        if p.kind == "raise":
                            if exp_kind != "raise" or type(p.value).__name__ != exp:
                                bad += 1
                                print("MISMATCH", name, av, bv, "sym raised", p.value, "py", exp)
                            continue
                        if exp_kind == "raise":
                            bad += 1
                            print("MISMATCH", name, av, bv, "py raised", exp)
                            continue
                        r = p.value
                        if isinstance(r, SymBool):
                            got = z3.is_true(z3.simplify(z3.substitute(r.e, *sub)))
                        elif isinstance(r, SymInt):
                            got = z3.simplify(z3.substitute(r.e, *sub)).as_signed_long()
                            if not (r.lo <= got <= r.hi):
                                bad += 1
                                print("RANGE", name, av, bv, got, r.lo, r.hi)
                        else:
                            got = r
                        if got != exp:
                            bad += 1
                            print("MISMATCH", name, av, bv, "sym", got, "py", exp)
    # constants on the right (fast paths) and unary
    for (alo, ahi) in RANGES:
        for c in CONSTS:
            for name, f in OPS.items():
                if name in ("lshift", "rshift") and c < 0:
                    continue
                def h(ex):
                    a = SymInt.var("a", alo, ahi)
                    return f(a, c), f(c, a) if name not in ("lshift", "rshift") or alo >= 0 else None
                ex = Explorer()
                for p in ex.explore(h):
                    if p.kind != "ok":
                        if p.kind == "raise" and not isinstance(p.value, ZeroDivisionError):
                            print("unexpected", name, c, p.kind, p.value); bad += 1
                        continue
                    A = p.named["a"].e
                    for av in range(alo, ahi + 1):
                        sub = [(A, z3.BitVecVal(av, A.size()))]
                        if not all(z3.is_true(z3.simplify(z3.substitute(cc, *sub))) for cc in p.pc):
                            continue
                        for r, exp in zip(p.value, (lambda: f(av, c), lambda: f(c, av))):
                            if r is None:
                                continue
                            n += 1
                            try:
                                e = exp()
                            except ZeroDivisionError:
                                continue
                            got = z3.is_true(z3.simplify(z3.substitute(r.e, *sub))) if isinstance(r, SymBool) else (z3.simplify(z3.substitute(r.e, *sub)).as_signed_long() if isinstance(r, SymInt) else r)
                            if got != e:
                                bad += 1
                                print("MISMATCH const", name, av, c, got, e)
        for name, f in UN.items():
            def h(ex):
                return f(SymInt.var("a", alo, ahi))
            ex = Explorer()
            for p in ex.explore(h):
                A = p.named["a"].e
                for av in range(alo, ahi + 1):
                    sub = [(A, z3.BitVecVal(av, A.size()))]
                    r = p.value
                    n += 1
                    got = z3.simplify(z3.substitute(r.e, *sub)).as_signed_long()
                    if got != f(av):
                        bad += 1
                        print("MISMATCH unary", name, av, got, f(av))
    print(f"selftest: {n} concrete-vs-symbolic comparisons, {bad} mismatches")
    return bad


if __name__ == "__main__":
    sys.exit(1 if run() else 0)
