"""Reference semantics of the MLIR arith subset over z3 terms, written against the MLIR LangRef /
LLVM LangRef (not against xDSL). Values are z3 bit-vectors (ints/index/i1) or z3 FP terms of the
op's own precision. Each op returns (result, defined) where `defined` is False on UB/poison inputs.
"""
from __future__ import annotations

import z3

from .symfloat import F16, F32, F64, RNE, fp_same

T = z3.BoolVal(True)
INDEX_W = 64


def smin(W):
    return z3.BitVecVal(1 << (W - 1), W)


def _sdiv_ok(a, b, W):
    return z3.And(b != 0, z3.Not(z3.And(a == smin(W), b == z3.BitVecVal(-1, W))))


def _floordivsi(a, b, W):
    q = a / b
    r = z3.SRem(a, b)
    adj = z3.And(r != 0, (r < 0) != (b < 0))
    return z3.If(adj, q - 1, q)


def _ceildivsi(a, b, W):
    q = a / b
    r = z3.SRem(a, b)
    adj = z3.And(r != 0, (r < 0) == (b < 0))
    return z3.If(adj, q + 1, q)


def _ceildivui(a, b, W):
    q = z3.UDiv(a, b)
    r = z3.URem(a, b)
    return z3.If(r != 0, q + 1, q)


INT_BIN = {
    "arith.addi": lambda a, b, W: (a + b, T),
    "arith.subi": lambda a, b, W: (a - b, T),
    "arith.muli": lambda a, b, W: (a * b, T),
    "arith.andi": lambda a, b, W: (a & b, T),
    "arith.ori": lambda a, b, W: (a | b, T),
    "arith.xori": lambda a, b, W: (a ^ b, T),
    "arith.shli": lambda a, b, W: (a << b, z3.ULT(b, W)),
    "arith.shrsi": lambda a, b, W: (a >> b, z3.ULT(b, W)),
    "arith.shrui": lambda a, b, W: (z3.LShR(a, b), z3.ULT(b, W)),
    "arith.divui": lambda a, b, W: (z3.UDiv(a, b), b != 0),
    "arith.remui": lambda a, b, W: (z3.URem(a, b), b != 0),
    "arith.divsi": lambda a, b, W: (a / b, _sdiv_ok(a, b, W)),
    "arith.remsi": lambda a, b, W: (z3.SRem(a, b), _sdiv_ok(a, b, W)),
    "arith.floordivsi": lambda a, b, W: (_floordivsi(a, b, W), _sdiv_ok(a, b, W)),
    "arith.ceildivsi": lambda a, b, W: (_ceildivsi(a, b, W), _sdiv_ok(a, b, W)),
    "arith.ceildivui": lambda a, b, W: (_ceildivui(a, b, W), b != 0),
    "arith.minsi": lambda a, b, W: (z3.If(a < b, a, b), T),
    "arith.maxsi": lambda a, b, W: (z3.If(a > b, a, b), T),
    "arith.minui": lambda a, b, W: (z3.If(z3.ULT(a, b), a, b), T),
    "arith.maxui": lambda a, b, W: (z3.If(z3.UGT(a, b), a, b), T),
}

CMPI = [
    lambda a, b: a == b,
    lambda a, b: a != b,
    lambda a, b: a < b,
    lambda a, b: a <= b,
    lambda a, b: a > b,
    lambda a, b: a >= b,
    z3.ULT,
    z3.ULE,
    z3.UGT,
    z3.UGE,
]
CMPI_NAMES = ["eq", "ne", "slt", "sle", "sgt", "sge", "ult", "ule", "ugt", "uge"]


def _ord(x, y):
    return z3.And(z3.Not(z3.fpIsNaN(x)), z3.Not(z3.fpIsNaN(y)))


def _uno(x, y):
    return z3.Or(z3.fpIsNaN(x), z3.fpIsNaN(y))


CMPF = [
    lambda x, y: z3.BoolVal(False),
    lambda x, y: z3.And(_ord(x, y), z3.fpEQ(x, y)),
    lambda x, y: z3.And(_ord(x, y), z3.fpGT(x, y)),
    lambda x, y: z3.And(_ord(x, y), z3.fpGEQ(x, y)),
    lambda x, y: z3.And(_ord(x, y), z3.fpLT(x, y)),
    lambda x, y: z3.And(_ord(x, y), z3.fpLEQ(x, y)),
    lambda x, y: z3.And(_ord(x, y), z3.Not(z3.fpEQ(x, y))),
    lambda x, y: _ord(x, y),
    lambda x, y: z3.Or(_uno(x, y), z3.fpEQ(x, y)),
    lambda x, y: z3.Or(_uno(x, y), z3.fpGT(x, y)),
    lambda x, y: z3.Or(_uno(x, y), z3.fpGEQ(x, y)),
    lambda x, y: z3.Or(_uno(x, y), z3.fpLT(x, y)),
    lambda x, y: z3.Or(_uno(x, y), z3.fpLEQ(x, y)),
    lambda x, y: z3.Or(_uno(x, y), z3.Not(z3.fpEQ(x, y))),
    lambda x, y: _uno(x, y),
    lambda x, y: z3.BoolVal(True),
]
CMPF_NAMES = ["false", "oeq", "ogt", "oge", "olt", "ole", "one", "ord", "ueq", "ugt", "uge", "ult", "ule", "une", "uno", "true"]


def _nan(x):
    return z3.fpNaN(x.sort())


def _minimumf(x, y):
    # IEEE-754 2019 minimum: NaN if either NaN; -0 < +0
    both_zero = z3.And(z3.fpIsZero(x), z3.fpIsZero(y))
    return z3.If(_uno(x, y), _nan(x), z3.If(both_zero, z3.If(z3.Or(z3.fpIsNegative(x), z3.fpIsNegative(y)), z3.fpMinusZero(x.sort()), z3.fpPlusZero(x.sort())), z3.If(z3.fpLT(x, y), x, y)))


def _maximumf(x, y):
    both_zero = z3.And(z3.fpIsZero(x), z3.fpIsZero(y))
    return z3.If(_uno(x, y), _nan(x), z3.If(both_zero, z3.If(z3.Or(z3.fpIsPositive(x), z3.fpIsPositive(y)), z3.fpPlusZero(x.sort()), z3.fpMinusZero(x.sort())), z3.If(z3.fpGT(x, y), x, y)))


def _minnumf(x, y):
    # if one is NaN returns the other; zeros: either sign allowed by LLVM minnum -> handled by `same_upto_zero_sign`
    return z3.If(z3.fpIsNaN(x), y, z3.If(z3.fpIsNaN(y), x, z3.If(z3.fpLT(x, y), x, y)))


def _maxnumf(x, y):
    return z3.If(z3.fpIsNaN(x), y, z3.If(z3.fpIsNaN(y), x, z3.If(z3.fpGT(x, y), x, y)))


FLOAT_BIN = {
    "arith.addf": lambda x, y: z3.fpAdd(RNE, x, y),
    "arith.subf": lambda x, y: z3.fpSub(RNE, x, y),
    "arith.mulf": lambda x, y: z3.fpMul(RNE, x, y),
    "arith.divf": lambda x, y: z3.fpDiv(RNE, x, y),
    "arith.minimumf": _minimumf,
    "arith.maximumf": _maximumf,
    "arith.minnumf": _minnumf,
    "arith.maxnumf": _maxnumf,
}
# ops whose result for (+0,-0) operands may be either zero
ZERO_SIGN_FREE = {"arith.minnumf", "arith.maxnumf"}


def same(x, y):
    """bit-identical results (all NaNs identified: payload propagation is hardware-defined)"""
    if z3.is_fp(x):
        return fp_same(x, y)
    return x == y


def b2bv(c):
    return z3.If(c, z3.BitVecVal(1, 1), z3.BitVecVal(0, 1))
