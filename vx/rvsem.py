"""RISC-V reference machine over z3 terms (written against the RISC-V unprivileged ISA spec, RV32/RV64 IM + the
float move/arith subset the xDSL backend emits). Executes xDSL riscv-dialect ops as instructions on a register file:
each op reads the registers named by its operand types and writes the registers named by its result types.
"""
from __future__ import annotations

import z3

from .symfloat import F32, F64, RNE


from .symx import Unsupported


class RVUnsupported(Unsupported):
    pass


def reg_name(t):
    """register name of an allocated register type"""
    n = getattr(t, "register_name", None)
    if n is None:
        raise RVUnsupported(f"not a register type: {t}")
    name = n.data if hasattr(n, "data") else str(n)
    if name == "":
        raise RVUnsupported("unallocated register")
    return name


ABI_INT = ["zero", "ra", "sp", "gp", "tp", "t0", "t1", "t2", "s0", "s1", "a0", "a1", "a2", "a3", "a4", "a5", "a6", "a7",
           "s2", "s3", "s4", "s5", "s6", "s7", "s8", "s9", "s10", "s11", "t3", "t4", "t5", "t6"]
ALIASES = {"fp": "s0"}
for i, n in enumerate(ABI_INT):
    ALIASES[f"x{i}"] = n
ABI_FLOAT = ["ft0", "ft1", "ft2", "ft3", "ft4", "ft5", "ft6", "ft7", "fs0", "fs1", "fa0", "fa1", "fa2", "fa3", "fa4", "fa5", "fa6", "fa7",
             "fs2", "fs3", "fs4", "fs5", "fs6", "fs7", "fs8", "fs9", "fs10", "fs11", "ft8", "ft9", "ft10", "ft11"]
for i, n in enumerate(ABI_FLOAT):
    ALIASES[f"f{i}"] = n
CALLEE_SAVED = ["sp", "s0", "s1"] + [f"s{i}" for i in range(2, 12)]
CALLEE_SAVED_F = ["fs0", "fs1"] + [f"fs{i}" for i in range(2, 12)]


def canon(name):
    return ALIASES.get(name, name)


class Machine:
    def __init__(self, xlen=64, prefix="r"):
        self.xlen = xlen
        self.x = {}  # int registers: name -> BV(xlen)
        self.f = {}  # float registers: name -> BV64 (raw bits, NaN-boxed singles)
        self.prefix = prefix
        self.init_x = {}
        self.init_f = {}
        self.mem = z3.Array(f"{prefix}_mem", z3.BitVecSort(xlen), z3.BitVecSort(8))
        self.defined = z3.BoolVal(True)
        self.touched_x = set()
        self.touched_f = set()
        self.env = {}  # SSA values living in unallocated registers: id(value) -> term

    def rx(self, name):
        name = canon(name)
        if name == "zero":
            return z3.BitVecVal(0, self.xlen)
        if name not in self.x:
            v = z3.BitVec(f"{self.prefix}_{name}", self.xlen)
            self.x[name] = v
            self.init_x[name] = v
        return self.x[name]

    def wx(self, name, v):
        name = canon(name)
        self.rx(name)
        if name == "zero":
            return
        self.touched_x.add(name)
        self.x[name] = v

    def rf(self, name):
        name = canon(name)
        if name not in self.f:
            v = z3.BitVec(f"{self.prefix}_{name}", 64)
            self.f[name] = v
            self.init_f[name] = v
        return self.f[name]

    def wf(self, name, v):
        name = canon(name)
        self.rf(name)
        self.touched_f.add(name)
        self.f[name] = v

    def is_float_reg(self, t):
        return type(t).__name__ == "FloatRegisterType"

    def _name(self, t):
        n = getattr(t, "register_name", None)
        name = n.data if hasattr(n, "data") else (str(n) if n is not None else "")
        return name

    def read(self, v):
        t = v.type
        name = self._name(t)
        if name == "" or name.startswith("j_") or name.startswith("fj_"):
            # unallocated (or infinite-pool) register: the SSA value itself carries the data
            if id(v) not in self.env:
                w = 64 if self.is_float_reg(t) else self.xlen
                self.env[id(v)] = z3.BitVec(f"{self.prefix}_ssa{len(self.env)}", w)
            return self.env[id(v)]
        return self.rf(name) if self.is_float_reg(t) else self.rx(name)

    def write(self, v, val):
        t = v.type
        name = self._name(t)
        if name == "" or name.startswith("j_") or name.startswith("fj_"):
            self.env[id(v)] = val
            return
        if self.is_float_reg(t):
            self.wf(name, val)
        else:
            self.wx(name, val)

    # memory (little endian)
    def load(self, addr, nbytes):
        bs = [z3.Select(self.mem, addr + i) for i in range(nbytes)]
        return z3.Concat(*reversed(bs)) if nbytes > 1 else bs[0]

    def store(self, addr, val, nbytes):
        for i in range(nbytes):
            self.mem = z3.Store(self.mem, addr + i, z3.Extract(8 * i + 7, 8 * i, val))


def imm_of(op, name="immediate"):
    a = getattr(op, name)
    v = a.value.data if hasattr(a, "value") else a.data
    return v


def sx(v, to):
    return z3.SignExt(to - v.size(), v) if to > v.size() else v


def nanbox(s32):
    return z3.Concat(z3.BitVecVal(0xFFFFFFFF, 32), s32)


def unbox(d64):
    """single value held in a 64-bit float register: canonical NaN if not properly boxed"""
    lo = z3.Extract(31, 0, d64)
    hi = z3.Extract(63, 32, d64)
    return z3.If(hi == 0xFFFFFFFF, lo, z3.BitVecVal(0x7FC00000, 32))


def _imm_term(m, v):
    from .symx import SymInt

    s = SymInt.lift(v)
    w = m.xlen
    e = s.ext(max(w, s.e.size()))
    return z3.Extract(w - 1, 0, e) if e.size() > w else e


def _shamt(m, v, w=None):
    w = w or m.xlen
    k = (w - 1).bit_length()
    return z3.ZeroExt(m.xlen - k, z3.Extract(k - 1, 0, v))


def _div(a, b, xlen):
    minv = z3.BitVecVal(1 << (xlen - 1), xlen)
    return z3.If(b == 0, z3.BitVecVal(-1, xlen), z3.If(z3.And(a == minv, b == -1), minv, a / b))


def _rem(a, b, xlen):
    minv = z3.BitVecVal(1 << (xlen - 1), xlen)
    return z3.If(b == 0, a, z3.If(z3.And(a == minv, b == -1), z3.BitVecVal(0, xlen), z3.SRem(a, b)))


RRR = {
    "add": lambda m, a, b: a + b, "sub": lambda m, a, b: a - b, "and": lambda m, a, b: a & b, "or": lambda m, a, b: a | b,
    "xor": lambda m, a, b: a ^ b, "sll": lambda m, a, b: a << _shamt(m, b), "srl": lambda m, a, b: z3.LShR(a, _shamt(m, b)),
    "sra": lambda m, a, b: a >> _shamt(m, b),
    "slt": lambda m, a, b: z3.If(a < b, z3.BitVecVal(1, m.xlen), z3.BitVecVal(0, m.xlen)),
    "sltu": lambda m, a, b: z3.If(z3.ULT(a, b), z3.BitVecVal(1, m.xlen), z3.BitVecVal(0, m.xlen)),
    "mul": lambda m, a, b: a * b,
    "mulh": lambda m, a, b: z3.Extract(2 * m.xlen - 1, m.xlen, z3.SignExt(m.xlen, a) * z3.SignExt(m.xlen, b)),
    "mulhu": lambda m, a, b: z3.Extract(2 * m.xlen - 1, m.xlen, z3.ZeroExt(m.xlen, a) * z3.ZeroExt(m.xlen, b)),
    "mulhsu": lambda m, a, b: z3.Extract(2 * m.xlen - 1, m.xlen, z3.SignExt(m.xlen, a) * z3.ZeroExt(m.xlen, b)),
    "div": lambda m, a, b: _div(a, b, m.xlen), "rem": lambda m, a, b: _rem(a, b, m.xlen),
    "divu": lambda m, a, b: z3.If(b == 0, z3.BitVecVal(-1, m.xlen), z3.UDiv(a, b)),
    "remu": lambda m, a, b: z3.If(b == 0, a, z3.URem(a, b)),
    "andn": lambda m, a, b: a & ~b, "orn": lambda m, a, b: a | ~b, "xnor": lambda m, a, b: ~(a ^ b),
    "max": lambda m, a, b: z3.If(a > b, a, b), "min": lambda m, a, b: z3.If(a < b, a, b),
    "maxu": lambda m, a, b: z3.If(z3.UGT(a, b), a, b), "minu": lambda m, a, b: z3.If(z3.ULT(a, b), a, b),
    "sh1add": lambda m, a, b: (a << 1) + b, "sh2add": lambda m, a, b: (a << 2) + b, "sh3add": lambda m, a, b: (a << 3) + b,
    "czero.eqz": lambda m, a, b: z3.If(b == 0, z3.BitVecVal(0, m.xlen), a),
    "czero.nez": lambda m, a, b: z3.If(b != 0, z3.BitVecVal(0, m.xlen), a),
    "rol": lambda m, a, b: z3.RotateLeft(a, _shamt(m, b)), "ror": lambda m, a, b: z3.RotateRight(a, _shamt(m, b)),
}
RRI = {
    "addi": lambda m, a, i: a + i, "andi": lambda m, a, i: a & i, "ori": lambda m, a, i: a | i, "xori": lambda m, a, i: a ^ i,
    "slti": lambda m, a, i: z3.If(a < i, z3.BitVecVal(1, m.xlen), z3.BitVecVal(0, m.xlen)),
    "sltiu": lambda m, a, i: z3.If(z3.ULT(a, i), z3.BitVecVal(1, m.xlen), z3.BitVecVal(0, m.xlen)),
    "slli": lambda m, a, i: a << _shamt(m, i), "srli": lambda m, a, i: z3.LShR(a, _shamt(m, i)), "srai": lambda m, a, i: a >> _shamt(m, i),
}
RR = {
    "mv": lambda m, a: a, "seqz": lambda m, a: z3.If(a == 0, z3.BitVecVal(1, m.xlen), z3.BitVecVal(0, m.xlen)),
    "snez": lambda m, a: z3.If(a != 0, z3.BitVecVal(1, m.xlen), z3.BitVecVal(0, m.xlen)),
    "zext.b": lambda m, a: a & 0xFF, "zext.h": lambda m, a: a & 0xFFFF,
    "sext.b": lambda m, a: sx(z3.Extract(7, 0, a), m.xlen), "sext.h": lambda m, a: sx(z3.Extract(15, 0, a), m.xlen),
    "neg": lambda m, a: -a, "not": lambda m, a: ~a,
}
FBIN = {"fadd": z3.fpAdd, "fsub": z3.fpSub, "fmul": z3.fpMul, "fdiv": z3.fpDiv}


def mnemonic(op):
    n = op.name
    for p in ("riscv.", "rv32.", "rv64."):
        if n.startswith(p):
            return n[len(p):]
    return n


def f32_of(bits64):
    return z3.fpBVToFP(unbox(bits64), F32)


def f64_of(bits64):
    return z3.fpBVToFP(bits64, F64)


def fbits32(x):
    """f32 FP term -> NaN-boxed raw bits; NaN results are the canonical quiet NaN (RISC-V)"""
    return nanbox(z3.If(z3.fpIsNaN(x), z3.BitVecVal(0x7FC00000, 32), z3.fpToIEEEBV(x)))


def fbits64(x):
    return z3.If(z3.fpIsNaN(x), z3.BitVecVal(0x7FF8000000000000, 64), z3.fpToIEEEBV(x))


def exec_op(m: Machine, op):
    """execute one straight-line instruction op; returns None, or ('ret',) / raises RVUnsupported"""
    mn = mnemonic(op)
    ops = op.operands
    res = op.results
    if mn in ("get_register", "get_float_register", "comment", "label", "directive", "nop", "assembly_section"):
        return None
    if mn in RRR and len(ops) == 2 and len(res) == 1:
        m.write(res[0], RRR[mn](m, m.read(ops[0]), m.read(ops[1])))
        return None
    if mn in RRI and len(ops) == 1 and len(res) == 1:
        m.write(res[0], RRI[mn](m, m.read(ops[0]), _imm_term(m, imm_of(op))))
        return None
    if mn in RR and len(ops) == 1 and len(res) == 1:
        m.write(res[0], RR[mn](m, m.read(ops[0])))
        return None
    if mn == "li":
        m.write(res[0], _imm_term(m, imm_of(op)))
        return None
    if mn == "lui":
        m.write(res[0], sx(z3.Extract(31, 0, _imm_term(m, imm_of(op)) << 12), m.xlen) if m.xlen > 32 else (_imm_term(m, imm_of(op)) << 12))
        return None
    if mn == "fmv.s":
        m.write(res[0], nanbox(unbox(m.read(ops[0]))))
        return None
    if mn == "fmv.d":
        m.write(res[0], m.read(ops[0]))
        return None
    if mn in ("fadd.s", "fsub.s", "fmul.s", "fdiv.s"):
        f = FBIN[mn[:-2]]
        m.write(res[0], fbits32(f(RNE, f32_of(m.read(ops[0])), f32_of(m.read(ops[1])))))
        return None
    if mn in ("fadd.d", "fsub.d", "fmul.d", "fdiv.d"):
        f = FBIN[mn[:-2]]
        m.write(res[0], fbits64(f(RNE, f64_of(m.read(ops[0])), f64_of(m.read(ops[1])))))
        return None
    if mn in ("sw", "sd", "sb", "sh") and len(ops) == 2:
        n = {"sb": 1, "sh": 2, "sw": 4, "sd": 8}[mn]
        addr = m.read(ops[0]) + _imm_term(m, imm_of(op))
        m.store(addr, m.read(ops[1]), n)
        return None
    if mn in ("lw", "ld", "lb", "lbu", "lh", "lhu", "lwu") and len(ops) == 1:
        n = {"lb": 1, "lbu": 1, "lh": 2, "lhu": 2, "lw": 4, "lwu": 4, "ld": 8}[mn]
        addr = m.read(ops[0]) + _imm_term(m, imm_of(op))
        v = m.load(addr, n)
        v = z3.ZeroExt(m.xlen - v.size(), v) if mn.endswith("u") else sx(v, m.xlen)
        m.write(res[0], v)
        return None
    if mn in ("fsw", "fsd") and len(ops) == 2:
        n = 4 if mn == "fsw" else 8
        addr = m.read(ops[0]) + _imm_term(m, imm_of(op))
        m.store(addr, m.read(ops[1]), n)
        return None
    if mn in ("flw", "fld") and len(ops) == 1:
        n = 4 if mn == "flw" else 8
        addr = m.read(ops[0]) + _imm_term(m, imm_of(op))
        v = m.load(addr, n)
        m.write(res[0], nanbox(v) if n == 4 else v)
        return None
    if mn == "parallel_mov":
        vals = [m.read(o) for o in ops]
        for r_, v in zip(res, vals):
            m.write(r_, v)
        return None
    if op.name == "builtin.unrealized_conversion_cast" and len(ops) == 1 and len(res) == 1:
        # value-preserving view change between a register and its builtin type
        v = m.read(ops[0]) if hasattr(ops[0].type, "register_name") else m.env.get(id(ops[0]))
        if v is None:
            raise RVUnsupported("cast of an unknown value")
        if hasattr(res[0].type, "register_name"):
            m.write(res[0], v)
        else:
            m.env[id(res[0])] = v
        return None
    if mn == "ret":
        return ("ret",)
    raise RVUnsupported(f"no RISC-V reference semantics for {op.name}")
