"""LLVM IR reference semantics (integer/float scalar subset, LangRef) over z3 terms with poison and UB, applied to
(a) functions of the xDSL llvm dialect and (b) the textual LLVM IR that llvmlite prints for the translated module.
Both are first normalised to the same instruction records, then interpreted by one evaluator (forks on branches)."""
from __future__ import annotations

import re
import struct

import z3

from .symfloat import F32, F64, RNE, fp_same, fpval
from .symx import SymBool, Unsupported, z3_of_int


class LLUnsupported(Unsupported):
    pass


class Inst:
    __slots__ = ("res", "opcode", "flags", "ty", "args", "extra")

    def __init__(self, res, opcode, flags, ty, args, extra=None):
        self.res, self.opcode, self.flags, self.ty, self.args, self.extra = res, opcode, set(flags), ty, args, extra

    def __repr__(self):
        return f"{self.res} = {self.opcode} {sorted(self.flags)} {self.ty} {self.args} {self.extra or ''}"


class Func:
    def __init__(self, name, params, blocks, entry):
        self.name, self.params, self.blocks, self.entry = name, params, blocks, entry  # blocks: label -> [Inst]; params: [(name, ty)]


def sort_of(ty):
    if ty.startswith("i"):
        return z3.BitVecSort(int(ty[1:]))
    return {"float": F32, "f32": F32, "double": F64, "f64": F64}[ty]


def tyname(ty):
    return {"f32": "float", "f64": "double"}.get(ty, ty)


ICMP_BY_INT = ["eq", "ne", "slt", "sle", "sgt", "sge", "ult", "ule", "ugt", "uge"]  # MLIR LLVM::ICmpPredicate
FCMP_BY_INT = ["false", "oeq", "ogt", "oge", "olt", "ole", "one", "ord", "ueq", "ugt", "uge", "ult", "ule", "une", "uno", "true"]  # MLIR LLVM::FCmpPredicate


def _ovf(i):
    return [f for bit, f in ((1, "nsw"), (2, "nuw")) if i & bit]  # MLIR IntegerOverflowFlags


# ---- (a) from the xdsl llvm dialect -------------------------------------------------------------------
def from_dialect(fop):
    from xdsl.dialects import llvm
    from xdsl.dialects.builtin import FloatAttr, IntegerAttr

    names = {}

    def nm(v):
        if id(v) not in names:
            names[id(v)] = f"v{len(names)}"
        return names[id(v)]

    def ty(t):
        s = str(t)
        return tyname(s)

    params = [(nm(a), ty(a.type)) for a in fop.body.blocks.first.args]
    blocks = {}
    labels = {id(b): f"bb{i}" for i, b in enumerate(fop.body.blocks)}
    phis = {id(b): [(nm(a), ty(a.type)) for a in b.args] for b in fop.body.blocks}
    binmap = {"llvm.add": "add", "llvm.sub": "sub", "llvm.mul": "mul", "llvm.udiv": "udiv", "llvm.sdiv": "sdiv", "llvm.urem": "urem", "llvm.srem": "srem", "llvm.shl": "shl",
              "llvm.lshr": "lshr", "llvm.ashr": "ashr", "llvm.and": "and", "llvm.or": "or", "llvm.xor": "xor", "llvm.fadd": "fadd", "llvm.fsub": "fsub", "llvm.fmul": "fmul", "llvm.fdiv": "fdiv"}
    for b in fop.body.blocks:
        insts = []
        for op in b.ops:
            n = op.name
            if n in binmap:
                flags = []
                of = getattr(op, "overflowFlags", None)
                if of is not None:
                    flags += _ovf(of.value.data)
                if getattr(op, "is_exact", None):
                    flags.append("exact")
                if getattr(op, "is_disjoint", None):
                    flags.append("disjoint")
                fm = getattr(op, "fastmathFlags", None)
                if fm is not None:
                    flags += [f.value for f in fm.data]
                insts.append(Inst(nm(op.results[0]), binmap[n], flags, ty(op.results[0].type), [nm(op.operands[0]), nm(op.operands[1])]))
            elif n == "llvm.icmp":
                pred = ICMP_BY_INT[op.predicate.value.data]
                insts.append(Inst(nm(op.results[0]), "icmp", [], ty(op.lhs.type), [nm(op.lhs), nm(op.rhs)], pred))
            elif n == "llvm.fcmp":
                pred = FCMP_BY_INT[op.predicate.value.data]
                insts.append(Inst(nm(op.results[0]), "fcmp", [], ty(op.lhs.type), [nm(op.lhs), nm(op.rhs)], pred))
            elif n == "llvm.select":
                insts.append(Inst(nm(op.res), "select", [], ty(op.res.type), [nm(op.cond), nm(op.lhs), nm(op.rhs)]))
            elif n in ("llvm.sext", "llvm.zext", "llvm.trunc"):
                flags = []
                of = getattr(op, "overflowFlags", None)
                if of:
                    flags += [f.value for f in of.data]
                if getattr(op, "non_neg", None):
                    flags.append("nneg")
                insts.append(Inst(nm(op.results[0]), n[5:], flags, ty(op.results[0].type), [nm(op.operands[0])], ty(op.operands[0].type)))
            elif n == "llvm.fneg":
                insts.append(Inst(nm(op.res), "fneg", [], ty(op.res.type), [nm(op.arg)]))
            elif n == "llvm.mlir.constant":
                v = op.value
                if isinstance(v, IntegerAttr):
                    insts.append(Inst(nm(op.results[0]), "const", [], ty(op.results[0].type), [], ("int", v.value.data)))
                elif isinstance(v, FloatAttr):
                    insts.append(Inst(nm(op.results[0]), "const", [], ty(op.results[0].type), [], ("float", v.value.data)))
                else:
                    raise LLUnsupported(f"constant {v}")
            elif n == "llvm.alloca":
                insts.append(Inst(nm(op.results[0]), "alloca", [], ty(op.elem_type), [nm(op.size)]))
            elif n == "llvm.store":
                insts.append(Inst(None, "store", [], ty(op.value.type), [nm(op.value), nm(op.ptr)]))
            elif n == "llvm.load":
                insts.append(Inst(nm(op.results[0]), "load", [], ty(op.results[0].type), [nm(op.ptr)]))
            elif n == "llvm.call":
                if op.callee is None:
                    raise LLUnsupported("indirect call")
                insts.append(Inst(nm(op.returned) if op.returned is not None else None, "call", [], ty(op.returned.type) if op.returned is not None else None,
                                  [nm(a) for a in op.args], op.callee.string_value()))
            elif n == "llvm.return":
                insts.append(Inst(None, "ret", [], None, [nm(v) for v in op.operands]))
            elif n == "llvm.br":
                insts.append(Inst(None, "br", [], None, [], [(labels[id(op.successor)], [nm(v) for v in op.arguments])]))
            elif n == "llvm.cond_br":
                insts.append(Inst(None, "condbr", [], None, [nm(op.cond)], [(labels[id(op.then_block)], [nm(v) for v in op.then_arguments]), (labels[id(op.else_block)], [nm(v) for v in op.else_arguments])]))
            else:
                raise LLUnsupported(f"no reference semantics for {n}")
        blocks[labels[id(b)]] = (phis[id(b)], insts)
    return Func(fop.sym_name.data, params, blocks, labels[id(fop.body.blocks.first)])


# ---- (b) from llvmlite's textual IR ---------------------------------------------------------------------
_FLAGS = {"nsw", "nuw", "exact", "disjoint", "nnan", "ninf", "nsz", "arcp", "contract", "afn", "reassoc", "fast", "nneg"}
_ID = r'%"?[\w.$-]+"?'


def _val(tok):
    tok = tok.strip()
    return tok


def from_text(text, name):
    text = text.replace('"', "")
    m = re.search(r'define\s+(\S+)\s+@"?' + re.escape(name) + r'"?\((.*?)\)[^{]*\{(.*?)\n\}', text, re.S)
    if not m:
        raise LLUnsupported(f"function {name} not found in LLVM IR")
    params = []
    if m.group(2).strip():
        for p in m.group(2).split(","):
            toks = p.split()
            params.append((toks[-1], toks[0]))
    blocks = {}
    cur = None
    entry = None
    for line in m.group(3).split("\n"):
        line = line.split(";")[0].rstrip()
        if not line.strip():
            continue
        lm = re.match(r'^([\w.$-]+):\s*$', line.strip())
        if lm:
            cur = "%" + lm.group(1)
            blocks[cur] = ([], [])
            if entry is None:
                entry = cur
            continue
        blocks[cur][1].append(_parse_inst(line.strip(), blocks[cur][0]))
    # phi nodes were collected per block as (name, ty, [(val, pred)])
    return Func(name, params, blocks, entry)


def _parse_inst(s, phis):
    res = None
    m = re.match(r'^(' + _ID + r')\s*=\s*(.*)$', s)
    if m:
        res, s = m.group(1), m.group(2)
    toks = s.split()
    opc = toks[0]
    rest = toks[1:]
    flags = []
    while rest and rest[0] in _FLAGS:
        flags.append(rest.pop(0))
    body = " ".join(rest)
    if opc in ("add", "sub", "mul", "udiv", "sdiv", "urem", "srem", "shl", "lshr", "ashr", "and", "or", "xor", "fadd", "fsub", "fmul", "fdiv"):
        ty, ops = body.split(" ", 1)
        a, b = [x.strip() for x in ops.split(",")]
        return Inst(res, opc, flags, ty, [a, b])
    if opc in ("icmp", "fcmp"):
        pred = rest[0]
        ty = rest[1]
        a, b = [x.strip() for x in " ".join(rest[2:]).split(",")]
        return Inst(res, opc, flags, ty, [a, b], pred)
    if opc == "select":
        parts = [x.strip() for x in body.split(",")]
        c = parts[0].split()[-1]
        ty = parts[1].split()[0]
        return Inst(res, "select", flags, ty, [c, parts[1].split(" ", 1)[1], parts[2].split(" ", 1)[1]])
    if opc in ("sext", "zext", "trunc"):
        mm = re.match(r'^(\S+)\s+(.+?)\s+to\s+(\S+)$', body)
        return Inst(res, opc, flags, mm.group(3), [mm.group(2)], mm.group(1))
    if opc == "fneg":
        ty, a = body.split(" ", 1)
        return Inst(res, "fneg", flags, ty, [a.strip()])
    if opc == "ret":
        if body.strip() == "void":
            return Inst(None, "ret", [], None, [])
        ty, a = body.split(" ", 1)
        return Inst(None, "ret", [], ty, [(ty, a.strip())])
    if opc == "br":
        if rest[0] == "label":
            return Inst(None, "br", [], None, [], [(rest[1].rstrip(","), [])])
        parts = [x.strip() for x in body.split(",")]
        c = parts[0].split()[-1]
        return Inst(None, "condbr", [], None, [c], [(parts[1].split()[-1], []), (parts[2].split()[-1], [])])
    if opc == "alloca":
        parts = [x.strip() for x in body.split(",")]
        return Inst(res, "alloca", [], parts[0], [tuple(parts[1].split(" ", 1))] if len(parts) > 1 and not parts[1].startswith("align") else [("i32", "1")])
    if opc == "store":
        parts = [x.strip() for x in body.split(",")]
        ty, v = parts[0].split(" ", 1)
        return Inst(None, "store", [], ty, [(ty, v.strip()), parts[1].split()[-1]])
    if opc == "load":
        parts = [x.strip() for x in body.split(",")]
        return Inst(res, "load", [], parts[0], [parts[1].split()[-1]])
    if opc == "call" or (opc in ("tail", "musttail", "notail") and rest and rest[0] == "call"):
        mm = re.search(r'call\s+(?:\w+cc\s+)?(?:(?:nnan|ninf|nsz|arcp|contract|afn|reassoc|fast)\s+)*(\S+)\s+@([\w.$-]+)\((.*)\)', s)
        args = [tuple(a.strip().split(" ", 1)) for a in mm.group(3).split(",")] if mm.group(3).strip() else []
        return Inst(res, "call", [], None if mm.group(1) == "void" else mm.group(1), args, mm.group(2))
    if opc == "phi":
        ty = rest[0]
        pairs = re.findall(r'\[\s*([^,\]]+)\s*,\s*([^\]]+?)\s*\]', " ".join(rest[1:]))
        return Inst(res, "phi", [], ty, [], [(v.strip(), p.strip()) for v, p in pairs])
    raise LLUnsupported(f"cannot parse LLVM instruction: {s}")


# ---- evaluator -------------------------------------------------------------------------------------------
def _fp_const(text, ty):
    sort = sort_of(ty)
    if text.startswith("0x"):
        bits = int(text, 16)
        d = struct.unpack("<d", struct.pack("<Q", bits))[0]
        return fpval(d, sort)
    return fpval(float(text), sort)


SYMTAB = {}  # marker token -> SymInt (symbolic integer constants extracted from the llvmlite module)


def operand(env, tok, ty):
    if isinstance(tok, tuple):
        ty, tok = tok
    tok = tok.strip()
    if tok in env:
        return env[tok]
    if tok in SYMTAB:
        return (z3_of_int(SYMTAB[tok], int(ty[1:])), z3.BoolVal(False))
    if tok.startswith("%") or re.match(r'^v\d+$', tok):
        raise LLUnsupported(f"unknown value {tok}")
    if ty is None:
        raise LLUnsupported(f"constant {tok} without type")
    if ty.startswith("i"):
        w = int(ty[1:])
        v = {"true": 1, "false": 0}.get(tok)
        return (z3.BitVecVal(int(tok) if v is None else v, w), z3.BoolVal(False))
    return (_fp_const(tok, ty), z3.BoolVal(False))


ICMP = {"eq": lambda a, b: a == b, "ne": lambda a, b: a != b, "slt": lambda a, b: a < b, "sle": lambda a, b: a <= b, "sgt": lambda a, b: a > b, "sge": lambda a, b: a >= b,
        "ult": z3.ULT, "ule": z3.ULE, "ugt": z3.UGT, "uge": z3.UGE}


def _ord(x, y):
    return z3.And(z3.Not(z3.fpIsNaN(x)), z3.Not(z3.fpIsNaN(y)))


FCMP = {"oeq": lambda x, y: z3.And(_ord(x, y), z3.fpEQ(x, y)), "ogt": lambda x, y: z3.And(_ord(x, y), z3.fpGT(x, y)), "oge": lambda x, y: z3.And(_ord(x, y), z3.fpGEQ(x, y)),
        "olt": lambda x, y: z3.And(_ord(x, y), z3.fpLT(x, y)), "ole": lambda x, y: z3.And(_ord(x, y), z3.fpLEQ(x, y)), "one": lambda x, y: z3.And(_ord(x, y), z3.Not(z3.fpEQ(x, y))),
        "ord": _ord, "uno": lambda x, y: z3.Not(_ord(x, y)), "ueq": lambda x, y: z3.Or(z3.Not(_ord(x, y)), z3.fpEQ(x, y)), "ugt": lambda x, y: z3.Or(z3.Not(_ord(x, y)), z3.fpGT(x, y)),
        "uge": lambda x, y: z3.Or(z3.Not(_ord(x, y)), z3.fpGEQ(x, y)), "ult": lambda x, y: z3.Or(z3.Not(_ord(x, y)), z3.fpLT(x, y)), "ule": lambda x, y: z3.Or(z3.Not(_ord(x, y)), z3.fpLEQ(x, y)),
        "une": lambda x, y: z3.Or(z3.Not(_ord(x, y)), z3.Not(z3.fpEQ(x, y))), "true": lambda x, y: z3.BoolVal(True), "false": lambda x, y: z3.BoolVal(False)}


def run(fn: Func, args, fuel=60, funcs=None, mem=None):
    """returns (value term | None, poison Bool, ub Bool). Forks the current exploration on branches.
    funcs: name -> Func for direct calls; memory: one cell per executed alloca (no address arithmetic)."""
    env = {}
    mem = {} if mem is None else mem
    pa = getattr(fn, "poison_args", None)
    for k, ((n, ty), a) in enumerate(zip(fn.params, args)):
        env[n] = (a, pa[k] if pa else z3.BoolVal(False))
    ub = z3.BoolVal(False)
    label, prev = fn.entry, None
    incoming = []
    while True:
        fuel -= 1
        if fuel < 0:
            raise LLUnsupported("fuel")
        phis, insts = fn.blocks[label]
        for (n, ty), v in zip(phis, incoming):
            env[n] = v
        # textual phi nodes
        newvals = {}
        for i in insts:
            if i.opcode == "phi":
                for v, pred in i.extra:
                    if pred == prev:
                        newvals[i.res] = operand(env, v, i.ty)
        env.update(newvals)
        for i in insts:
            oc = i.opcode
            if oc == "phi":
                continue
            if oc == "const":
                kind, v = i.extra
                env[i.res] = (z3_of_int(v, int(i.ty[1:])), z3.BoolVal(False)) if kind == "int" else (fpval(float(v), sort_of(i.ty)), z3.BoolVal(False))
                continue
            if oc in ("ret",):
                if not i.args:
                    return None, z3.BoolVal(False), ub
                v, p = operand(env, i.args[0], i.ty)
                return v, p, ub
            if oc == "br":
                tgt, vals = i.extra[0]
                incoming = [operand(env, v, None) for v in vals]
                prev, label = label, tgt
                break
            if oc == "condbr":
                c, cp = operand(env, i.args[0], "i1")
                ub = z3.Or(ub, cp)  # branching on poison is UB
                take = bool(SymBool(z3.simplify(c == 1)))
                tgt, vals = i.extra[0] if take else i.extra[1]
                incoming = [operand(env, v, None) for v in vals]
                prev, label = label, tgt
                break
            if oc == "alloca":
                n, pn = operand(env, i.args[0], "i32")
                ub = z3.Or(ub, pn)
                cell = ("cell", len(mem))
                mem[cell] = None
                env[i.res] = (cell, z3.BoolVal(False))
                continue
            if oc == "store":
                v = operand(env, i.args[0], i.ty)
                cell, _ = operand(env, i.args[1], "ptr")
                if not (isinstance(cell, tuple) and cell in mem):
                    raise LLUnsupported("store through non-alloca pointer")
                mem[cell] = (i.ty, v)
                continue
            if oc == "load":
                cell, _ = operand(env, i.args[0], "ptr")
                if not (isinstance(cell, tuple) and cell in mem) or mem[cell] is None or tyname(mem[cell][0]) != tyname(i.ty):
                    raise LLUnsupported("load of uninitialised / differently typed cell")
                env[i.res] = mem[cell][1]
                continue
            if oc == "call":
                callee = (funcs or {}).get(i.extra)
                if callee is None:
                    raise LLUnsupported(f"call to unknown {i.extra}")
                cargs = [operand(env, a, pty) for a, (_, pty) in zip(i.args, callee.params)]
                # passing poison is fine; it propagates as a value
                v, p, u = _run_with_poison_args(callee, cargs, fuel, funcs, mem)
                ub = z3.Or(ub, u)
                if i.res is not None:
                    env[i.res] = (v, p)
                continue
            env[i.res], ub = _step(i, env, ub)
        else:
            raise LLUnsupported("block without terminator")


def _run_with_poison_args(fn, cargs, fuel, funcs, mem):
    f2 = Func(fn.name, fn.params, fn.blocks, fn.entry)
    f2.poison_args = [p for _, p in cargs]
    return run(f2, [v for v, _ in cargs], fuel, funcs, mem)


def _step(i, env, ub):
    oc, fl = i.opcode, i.flags
    P = z3.BoolVal(False)
    if oc in ("add", "sub", "mul", "udiv", "sdiv", "urem", "srem", "shl", "lshr", "ashr", "and", "or", "xor"):
        (a, pa), (b, pb) = operand(env, i.args[0], i.ty), operand(env, i.args[1], i.ty)
        W = a.size()
        p = z3.Or(pa, pb)
        if oc == "add":
            r = a + b
            if "nsw" in fl:
                p = z3.Or(p, z3.Not(z3.And(z3.BVAddNoOverflow(a, b, True), z3.BVAddNoUnderflow(a, b))))
            if "nuw" in fl:
                p = z3.Or(p, z3.Not(z3.BVAddNoOverflow(a, b, False)))
        elif oc == "sub":
            r = a - b
            if "nsw" in fl:
                p = z3.Or(p, z3.Not(z3.And(z3.BVSubNoOverflow(a, b), z3.BVSubNoUnderflow(a, b, True))))
            if "nuw" in fl:
                p = z3.Or(p, z3.ULT(a, b))
        elif oc == "mul":
            r = a * b
            if "nsw" in fl:
                p = z3.Or(p, z3.Not(z3.And(z3.BVMulNoOverflow(a, b, True), z3.BVMulNoUnderflow(a, b))))
            if "nuw" in fl:
                p = z3.Or(p, z3.Not(z3.BVMulNoOverflow(a, b, False)))
        elif oc in ("udiv", "urem"):
            ub = z3.Or(ub, b == 0, pb)
            r = z3.UDiv(a, b) if oc == "udiv" else z3.URem(a, b)
            if "exact" in fl:
                p = z3.Or(p, z3.URem(a, b) != 0)
        elif oc in ("sdiv", "srem"):
            minv = z3.BitVecVal(1 << (W - 1), W)
            ub = z3.Or(ub, b == 0, z3.And(a == minv, b == z3.BitVecVal(-1, W)), pb)
            r = a / b if oc == "sdiv" else z3.SRem(a, b)
            if "exact" in fl:
                p = z3.Or(p, z3.SRem(a, b) != 0)
        elif oc == "shl":
            r = a << b
            p = z3.Or(p, z3.UGE(b, W))
            if "nsw" in fl:
                p = z3.Or(p, ((a << b) >> b) != a)
            if "nuw" in fl:
                p = z3.Or(p, z3.LShR(a << b, b) != a)
        elif oc == "lshr":
            r = z3.LShR(a, b)
            p = z3.Or(p, z3.UGE(b, W))
            if "exact" in fl:
                p = z3.Or(p, (z3.LShR(a, b) << b) != a)
        elif oc == "ashr":
            r = a >> b
            p = z3.Or(p, z3.UGE(b, W))
            if "exact" in fl:
                p = z3.Or(p, ((a >> b) << b) != a)
        elif oc == "and":
            r = a & b
        elif oc == "or":
            r = a | b
            if "disjoint" in fl:
                p = z3.Or(p, (a & b) != 0)
        else:
            r = a ^ b
        return (r, p), ub
    if oc in ("fadd", "fsub", "fmul", "fdiv"):
        (a, pa), (b, pb) = operand(env, i.args[0], i.ty), operand(env, i.args[1], i.ty)
        r = {"fadd": z3.fpAdd, "fsub": z3.fpSub, "fmul": z3.fpMul, "fdiv": z3.fpDiv}[oc](RNE, a, b)
        p = z3.Or(pa, pb)
        fm = set(fl)
        if "fast" in fm:
            fm |= {"nnan", "ninf", "nsz", "arcp", "contract", "afn", "reassoc"}
        if "nnan" in fm:
            p = z3.Or(p, z3.fpIsNaN(a), z3.fpIsNaN(b), z3.fpIsNaN(r))
        if "ninf" in fm:
            p = z3.Or(p, z3.fpIsInf(a), z3.fpIsInf(b), z3.fpIsInf(r))
        return (r, p), ub
    if oc == "fneg":
        a, pa = operand(env, i.args[0], i.ty)
        return (z3.fpNeg(a), pa), ub
    if oc == "icmp":
        (a, pa), (b, pb) = operand(env, i.args[0], i.ty), operand(env, i.args[1], i.ty)
        return (z3.If(ICMP[i.extra](a, b), z3.BitVecVal(1, 1), z3.BitVecVal(0, 1)), z3.Or(pa, pb)), ub
    if oc == "fcmp":
        (a, pa), (b, pb) = operand(env, i.args[0], i.ty), operand(env, i.args[1], i.ty)
        return (z3.If(FCMP[i.extra](a, b), z3.BitVecVal(1, 1), z3.BitVecVal(0, 1)), z3.Or(pa, pb)), ub
    if oc == "select":
        (c, pc), (a, pa), (b, pb) = operand(env, i.args[0], "i1"), operand(env, i.args[1], i.ty), operand(env, i.args[2], i.ty)
        return (z3.If(c == 1, a, b), z3.Or(pc, z3.If(c == 1, pa, pb))), ub
    if oc in ("sext", "zext", "trunc"):
        a, pa = operand(env, i.args[0], i.extra)
        W = int(i.ty[1:])
        p = pa
        if oc == "sext":
            r = z3.SignExt(W - a.size(), a)
        elif oc == "zext":
            r = z3.ZeroExt(W - a.size(), a)
            if "nneg" in fl:
                p = z3.Or(p, a < 0)
        else:
            r = z3.Extract(W - 1, 0, a)
            if "nsw" in fl:
                p = z3.Or(p, z3.SignExt(a.size() - W, r) != a)
            if "nuw" in fl:
                p = z3.Or(p, z3.ZeroExt(a.size() - W, r) != a)
        return (r, p), ub
    raise LLUnsupported(f"no semantics for {oc}")


def same(a, b):
    return fp_same(a, b) if z3.is_fp(a) else a == b
