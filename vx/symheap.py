"""Symbolic references: a SymRef is a z3 Int selecting one object of a bounded inventory of real Python objects
(or None). Attribute reads merge the candidates' field values into an if-then-else; attribute writes update every
candidate under its guard. Anything that cannot be merged concretises the reference by forking (exhaustive)."""
from __future__ import annotations

import types

import z3

from . import hook, symx
from .symx import Explorer, SymBool, SymInt, Unsupported, cur, ite_int


class Universe:
    def __init__(self):
        self.objs = [None]  # id 0 is None
        self.ids = {}

    def reset(self):
        self.objs = [None]
        self.ids = {}

    def add(self, o):
        if id(o) in self.ids:
            return o
        self.ids[id(o)] = len(self.objs)
        self.objs.append(o)
        return o

    def id_of(self, o):
        if o is None:
            return 0
        if id(o) not in self.ids:
            self.add(o)  # objects created by the code under test join the inventory when first referenced
        return self.ids[id(o)]

    def has(self, o):
        return o is None or id(o) in self.ids


U = Universe()


IDW = 8  # object ids are small bit-vectors (finite-domain reasoning is much faster than Int + ite chains)


def idval(k):
    return z3.BitVecVal(k, IDW)


def as_id(v):
    """z3 term (BitVec IDW) for a ref-valued thing"""
    if isinstance(v, SymRef):
        return v.sel
    return idval(U.id_of(v))


REF_CLASSES = []  # classes whose instances are heap objects even when created by the code under test


def is_reflike(v):
    return v is None or isinstance(v, SymRef) or id(v) in U.ids or (bool(REF_CLASSES) and hook._orig_isinstance(v, tuple(REF_CLASSES)))


class SymRef:
    __slots__ = ("sel", "dom")

    def __init__(self, sel, dom):
        object.__setattr__(self, "sel", sel)
        object.__setattr__(self, "dom", tuple(sorted(set(dom))))

    @staticmethod
    def var(name, objs, allow_none=True) -> "SymRef":
        dom = [U.id_of(o) for o in objs] + ([0] if allow_none else [])
        v = z3.BitVec(name, IDW)
        ex = cur()
        ex.named[name] = v
        ex.assume(z3.Or(*[v == d for d in dom]))
        return SymRef(v, dom)

    def _cands(self):
        """feasible (guard, object) pairs"""
        ex = cur()
        out = []
        for d in self.dom:
            g = self.sel == d
            says = ex._model_says(g)
            if says is True or ex.check(g) == z3.sat:
                out.append((g, U.objs[d]))
        return out

    def concretize(self):
        """fork until the reference denotes one object; returns that object (or None)"""
        for d in self.dom[:-1]:
            if bool(SymBool(self.sel == d)):
                return U.objs[d]
        d = self.dom[-1]
        cur().assume(self.sel == d)
        return U.objs[d]

    def __getattr__(self, name):
        if name.startswith("__") and name.endswith("__"):
            raise AttributeError(name)
        cands = self._cands()
        vals = []
        for g, o in cands:
            if o is None:
                raise AttributeError(f"'NoneType' object has no attribute '{name}' (symbolic reference may be None)")
            cls_attr = _class_attr(type(o), name)
            if isinstance(cls_attr, property):
                if _same_class_attr(cands, name):
                    return cls_attr.fget(self)
                return getattr(self.concretize(), name)
            if isinstance(cls_attr, (types.FunctionType,)):
                if _same_class_attr(cands, name):
                    return types.MethodType(cls_attr, self)
                return getattr(self.concretize(), name)
            if isinstance(cls_attr, (classmethod, staticmethod)) or (callable(cls_attr) and not isinstance(cls_attr, type) and cls_attr is not None and not hasattr(o, "__dict__")):
                return getattr(self.concretize(), name)
            vals.append((g, getattr(o, name)))
        r = merge(vals)
        if r is _UNMERGEABLE:
            return getattr(self.concretize(), name)
        return r

    def __setattr__(self, name, value):
        cands = self._cands()
        if len(cands) == 1:
            setattr(cands[0][1], name, value)
            return
        news = []
        for g, o in cands:
            if o is None:
                raise AttributeError(f"'NoneType' object has no attribute '{name}' (symbolic reference may be None)")
            old = getattr(o, name)
            m = merge([(g, value), (z3.BoolVal(True), old)])
            if m is _UNMERGEABLE:
                setattr(self.concretize(), name, value)
                return
            news.append((o, m))
        for o, m in news:
            setattr(o, name, m)

    def __eq__(self, o):
        return sym_is(self, o)

    def __ne__(self, o):
        return symx.sym_not(sym_is(self, o))

    def __hash__(self):
        return hash(id(self.concretize()))

    def __bool__(self):
        r = sym_is(self, None)
        return not bool(r)

    def __repr__(self):
        return f"SymRef{self.dom}"

    def __iter__(self):
        return iter(self.concretize())

    def __len__(self):
        return len(self.concretize())

    def __getitem__(self, i):
        return self.concretize()[i]


_UNMERGEABLE = object()


def _class_attr(cls, name):
    for c in cls.__mro__:
        if name in c.__dict__:
            return c.__dict__[name]
    return None


def _same_class_attr(cands, name):
    first = None
    for g, o in cands:
        a = _class_attr(type(o), name)
        if first is None:
            first = a
        elif a is not first:
            return False
    return True


def merge(vals):
    """vals: list of (guard, value) in priority order; the last is the default. Returns merged value or _UNMERGEABLE."""
    if len(vals) == 1:
        return vals[0][1]
    vs = [v for _, v in vals]
    if all(v is vs[0] for v in vs):
        return vs[0]
    if all(is_reflike(v) for v in vs):
        dom = set()
        for v in vs:
            dom |= set(v.dom) if isinstance(v, SymRef) else {U.id_of(v)}
        e = as_id(vs[-1])
        for g, v in reversed(vals[:-1]):
            e = z3.If(g, as_id(v), e)
        e = z3.simplify(e)
        if z3.is_bv_value(e):
            return U.objs[e.as_long()]
        return SymRef(e, dom)
    if all(isinstance(v, (bool, SymBool)) for v in vs):
        e = symx.as_z3_bool(vs[-1])
        for g, v in reversed(vals[:-1]):
            e = z3.If(g, symx.as_z3_bool(v), e)
        return SymBool(e)
    if all(isinstance(v, (int, SymInt)) and not isinstance(v, bool) for v in vs):
        r = vs[-1]
        for g, v in reversed(vals[:-1]):
            r = ite_int(g, v, r)
        return r
    if all(isinstance(v, tuple) for v in vs) and len({len(v) for v in vs}) == 1 and len({type(v) for v in vs}) == 1:
        out = []
        for i in range(len(vs[0])):
            m = merge([(g, v[i]) for g, v in vals])
            if m is _UNMERGEABLE:
                return _UNMERGEABLE
            out.append(m)
        t = type(vs[0])
        try:
            return t(out)
        except Exception:
            return tuple(out)
    return _UNMERGEABLE


def sym_is(a, b):
    if isinstance(a, SymRef) or isinstance(b, SymRef):
        if not is_reflike(a) or not is_reflike(b):
            return False
        e = z3.simplify(as_id(a) == as_id(b))
        if z3.is_true(e):
            return True
        if z3.is_false(e):
            return False
        return SymBool(e)
    return None


hook.IDENTITY_HANDLERS.append(sym_is)


def _isinstance_symref(o, c):
    answers = {}
    for g, cand in o._cands():
        answers.setdefault(hook._orig_isinstance(cand, c), []).append(g)
    if len(answers) == 1:
        return next(iter(answers))
    return bool(SymBool(z3.Or(*answers[True])))


hook.EXEMPLAR[SymRef] = lambda o: hook._FORK
hook.ISINSTANCE_FORK[SymRef] = _isinstance_symref


def ref_var(name, objs, allow_none=True):
    return SymRef.var(name, objs, allow_none)


def field_fn(objs, name):
    """z3 function (ite chain) id -> id of the field `name` over the given objects (0 for others)"""
    def f(x):
        e = idval(0)
        for o in objs:
            e = z3.If(x == U.id_of(o), as_id(getattr(o, name)), e)
        return e
    return f
