#!/bin/bash
# usage: tools/seedsweep_wt.sh [tier] - like seedsweep.sh but over every variant and in throw-away worktrees (/repo is not touched)
T=${1:-quick}
cd /verif
OUT=/verif/seeded/results_${T}_final.txt
: > $OUT
for d in seeded/C*-[A-E]; do
  id=$(basename $d); prop=${id%-*}
  p=$d/patch_rebased.diff; [ -f $p ] || p=$d/patch.diff
  if ! git -C /repo apply --check /verif/$p 2>/dev/null; then echo "$id NEEDS-REBASE" | tee -a $OUT; continue; fi
  res=$(tools/seedtest_wt.sh $prop /verif/$p $T 2>&1 | tail -3)
  rc=$(echo "$res" | grep -o "exit=[0-9]*")
  viol=$(echo "$res" | grep -o "violated=[0-9]*" | tail -1)
  echo "$id $rc $viol patch=$(basename $p)" | tee -a $OUT
done
echo SWEEPDONE >> $OUT
