#!/bin/bash
# usage: tools/confirm_seed.sh <ID> <A|B>  -- confirms a sub-agent's mutation in its scratch worktree and files it under /verif/seeded
ID=$1; X=$2; WT=${3:-/tmp/wt/$ID}; OUT=$WT/_out
cd $WT || exit 9
git checkout -q -- . ; git status --short | grep -v "_out" | grep -q . && { echo "$ID $X: worktree dirty"; exit 9; }
/venv/bin/python _out/demo_$X.py > /tmp/confirm_${ID}_$X.pre 2>&1; pre=$?
git apply $OUT/$X.diff || { echo "$ID $X: patch does not apply"; exit 8; }
suite=$(/verif/tools/pinned.sh $WT | tail -1)
/venv/bin/python _out/demo_$X.py > /tmp/confirm_${ID}_$X.post 2>&1; post=$?
git checkout -q -- .
echo "$ID $X: demo pristine exit=$pre, mutated exit=$post, suite: $suite"
if [ $pre -eq 0 ] && [ $post -ne 0 ] && echo "$suite" | grep -q "5247 passed" && ! echo "$suite" | grep -q failed; then
  D=/verif/seeded/$ID-$X; mkdir -p $D
  cp $OUT/$X.diff $D/patch.diff; cp $OUT/demo_$X.py $D/demo.py
  /venv/bin/python - "$ID" "$X" "$suite" "$D" "$OUT" <<'PY'
import json,sys,re
ID,X,suite,D,OUT=sys.argv[1:6]
import os
notes=open(OUT+"/notes.md").read() if os.path.exists(OUT+"/notes.md") else open(OUT+f"/notes_{X}.md").read()
json.dump({"property":ID,"variant":X,"breaks":ID,"source":"independent sub-agent given only the property record and a scratch worktree",
 "needs_to_manifest":"see notes","notes_from_author":notes[:6000],
 "confirmed":{"pinned_suite_with_patch":suite.strip(),"demo_exit_pristine":0,"demo_exit_mutated":"non-zero","how":"tools/confirm_seed.sh: git apply in scratch worktree, tools/pinned.sh, demo before/after"}},
 open(f"{D}/meta.json","w"),indent=1)
PY
  echo "  -> filed $D"
else
  echo "  -> NOT confirmed"
fi
