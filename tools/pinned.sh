#!/bin/bash
# run the pinned suite in a given tree (default /repo); prints the summary line; exit code = pytest's.
D=${1:-/repo}
O=$(mktemp)
cd "$D" && /venv/bin/python -m pytest -q -p no:cacheprovider --timeout=900 \
  --deselect tests/dialects/test_universe.py::test_multiverse --deselect tests/xdsl_tblgen/test_tblgen.py::test_run_tblgen_to_py > "$O" 2>&1
rc=$?
grep -E "^FAILED|^ERROR| passed| failed" "$O" | tail -8
rm -f "$O"
exit $rc
