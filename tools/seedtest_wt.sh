#!/bin/bash
# usage: tools/seedtest_wt.sh <PROP> <patch.diff> [tier] [extra check args]
# like seedtest.sh, but applies the patch in a throw-away worktree of /repo (HEAD) and points the check at it via PYTHONPATH,
# so /repo's working tree is never touched (safe while other checks are running). The worktree is removed afterwards.
P=$1; D=$2; T=${3:-quick}; shift 3 2>/dev/null
W=/tmp/wt/seedtest_$$
git -C /repo worktree add -q $W HEAD || exit 9
git -C $W apply "$D" || { echo "patch does not apply"; git -C /repo worktree remove --force $W; exit 8; }
cd /verif && PYTHONPATH=$W ./check "$P" --tier "$T" --no-evidence "$@" 2>&1 | grep -v "^   obligation\|^INCONCLUSIVE" | cut -c1-260 | tail -8
rc=${PIPESTATUS[0]}
git -C /repo worktree remove --force $W
echo "exit=$rc"
