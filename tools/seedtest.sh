#!/bin/bash
# usage: tools/seedtest.sh <PROP> <patch.diff> [tier] [extra check args]
# applies the patch to /repo, runs ./check PROP, reverts. Prints the check's tail and exit code.
P=$1; D=$2; T=${3:-quick}; shift 3 2>/dev/null
cd /repo && git diff --quiet || { echo "repo dirty"; exit 9; }
git -C /repo apply "$D" || { echo "patch does not apply"; exit 8; }
cd /verif && ./check "$P" --tier "$T" --no-evidence "$@" 2>&1 | grep -v "^   obligation\|^INCONCLUSIVE" | cut -c1-260 | tail -12
rc=${PIPESTATUS[0]}
git -C /repo checkout -- .
echo "exit=$rc"
