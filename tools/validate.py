"""validate MANIFEST.json and every evidence file against the given schemas"""
import glob, json, sys
import jsonschema
ok = True
m = json.load(open("/verif/MANIFEST.json"))
try:
    jsonschema.validate(m, json.load(open("/root/.vp/MANIFEST.schema.json"))); print("MANIFEST ok:", len(m["checks"]), "checks,", len(m.get("not_applicable", [])), "not applicable")
except jsonschema.ValidationError as e:
    ok = False; print("MANIFEST INVALID:", e.message[:300], list(e.absolute_path))
es = json.load(open("/root/.vp/EVIDENCE.schema.json"))
for f in sorted(glob.glob("/verif/evidence/*.json")):
    try:
        jsonschema.validate(json.load(open(f)), es)
    except jsonschema.ValidationError as e:
        ok = False; print("EVIDENCE INVALID", f, e.message[:200], list(e.absolute_path))
print("evidence files:", len(glob.glob("/verif/evidence/*.json")))
sys.exit(0 if ok else 1)
