#!/usr/bin/env python3
"""Regenerates /verif/MANIFEST.json from the per-property table below (claimed checks + not_applicable)."""
import json
import os
import sys

ROOT = os.path.dirname(os.path.dirname(os.path.abspath(__file__)))
sys.path.insert(0, ROOT)

TECH = "solver-based checking of the real code: symbolic execution of /repo's Python (symx proxies + import-time AST hook), obligations discharged by z3 (cvc5 fallback), counterexamples replayed on the uninstrumented code"

CLAIMED = {
    "C12": dict(cat="other", design="DESIGN.md §4 C12",
                text="Inductive step (M2): the real Worklist/IntDisjointSet/DisjointSet/ScopedDict methods run on an arbitrary symbolic state satisfying the representation invariant, with symbolic arguments; z3 shows the post-state satisfies the invariant and equals the abstract model's step for every state/argument within the size bound. Histories of any length are covered while sizes stay within the bound.",
                note="Trusted: z3, the invariants written in vx/checks/c12.py, SymList/SymDict stand-ins for the private list/dict fields. Bounds: stack <=3/5 cells, union-find <=4/6 elements, scoped dict depth <=3 with <=2 entries per scope."),
    "C15": dict(cat="other", design="DESIGN.md §4 C15",
                text="Unit-symbolic (M1): every ArithFunctions.run_* is executed through Interpreter.run_op on symbolic operands (exact ints as ranged bit-vectors, floats as z3 FP) and compared with an MLIR reference semantics for ALL operand values of widths 1..64/index, f32/f64; 2-op compositions and control-flow skeletons (cf/scf/func incl. recursion) run through the real Interpreter against a reference interpreter on symbolic data.",
                note="Trusted: z3/cvc5, vx/refsem.py + vx/refprog.py reference semantics, proxy semantics (validated by vx/selftest.py). Signed division/remainder equivalence is decided up to 16 bit (quick) and with one operand pinned to boundary constants at 32/64 bit; general 32/64-bit division queries are bug-hunt only (reported inconclusive). NaN payloads not modelled."),
}

CLAIMED.update({
    "C14": dict(cat="translation_validation", design="DESIGN.md §4 C14",
                text="Symbolic translation validation (M3): canonicalize, constant-fold-interp, the test constant-folding passes and cse run natively on ~1270 arith program skeletons whose constants are SYMBOLIC (the passes fork on them); source and result get meaning from the reference semantics on symbolic arguments and z3 decides refinement (defined => defined, bit-identical results, same effects) for all constants and arguments of i1/i8/i64 (thorough: +i16/i32/index), f32/f64, incl. fast-math flag combinations and overflow flags.",
                note="Trusted: z3/cvc5, vx/refsem.py + vx/refprog.py (incl. the stated fast-math reading), struct pack/unpack IEEE model. Skeletons have <=2 arith ops (3 for chains); CSE skeletons use concrete boundary constants; f32 constant-constant folds and 64-bit division/multiplication folds of two free constants are inconclusive (solver) and reported as such."),
    "C26": dict(cat="other", design="DESIGN.md §4 C26",
                text="Unit-symbolic (M1): for every expression-tree shape (<=2 binary nodes quick, <=3 thorough) the real AffineExpr construction/simplify/compose/replace/AffineMap.compose/print+parse code runs with SYMBOLIC constants and a symbolic evaluation point; z3 decides value preservation against an independent reference evaluation for all constants and points in the box; constant folds additionally at 64 bit with pinned divisors.",
                note="Trusted: z3, reference arithmetic in vx/checks/c26.py, symbolic math.gcd shim. Boxes: coefficients [-3,3]/[-4,4], addends [-4,4]/[-6,6], divisors [1,4]/[1,6], points [-12,12]/[-20,20]; print/parse uses boundary constants."),
})

CLAIMED.update({
    "C20": dict(cat="translation_validation", design="DESIGN.md §4 C20",
                text="Translation validation (M3): for every move graph over the register pool (all source/destination assignments with distinct destinations: chains, fan-out, cycles, several cycles, self-moves), every designated free-register choice and 32/64-bit widths, the real ParallelMovPattern lowers riscv.parallel_mov and the emitted mv/fmv.s/fmv.d/xor sequence is executed on a RISC-V register-file model with SYMBOLIC 64-bit initial contents; z3 decides for all contents that every destination holds its source's initial value and nothing else but designated free registers changed; PassFailedException is accepted.",
                note="Trusted: z3, vx/rvsem.py (mv/xor/fmv.s with NaN boxing/fmv.d). Pools: 3 int + 2 float registers mixed (<=4/5 moves), thorough adds all graphs over 4 int and over 3 float registers."),
})

CLAIMED.update({
    "C08": dict(cat="other", design="DESIGN.md §4 C08",
                text="Unit-symbolic (M1): FloatData.__eq__/__hash__ (source level), the dataclass equality of IntAttr/IntegerAttr/IntegerType/FloatAttr/ArrayAttr and OperationInfo.__eq__/__hash__ run on symbolic payloads (doubles as 64-bit patterns: both zeros, every NaN payload); z3 decides reflexivity, symmetry, transitivity, 'equal <=> identical payload bits' and 'equal => equal hash' for all payloads.",
                note="Trusted: z3; CPython hash(float)/hash(bytes) modelled by their documented contracts; composite hashes argued from component consistency. Int payload ranges [-8,8] quick / [-40,40] thorough where the C-level hash must concretise."),
})

CLAIMED.update({
    "C01": dict(cat="other", design="DESIGN.md §4 C01",
                text="Inductive step on a symbolic heap (M2): a bounded inventory of real Operation/Block/Region/SSAValue/Use objects is wired by symbolic references constrained only by the representation invariant (doubly linked acyclic op/block lists, parent pointers, intrusive use lists matching operand/successor slots, argument/result indices); each public mutation entry point (Block/Region/Operation/SSAValue/OpOperands/Rewriter, 38 calls incl. erasing an op with a two-block region) runs on a symbolic receiver and symbolic arguments and z3 decides that the invariant holds in the post-state for EVERY valid pre-state. Covers edit histories of any length within the inventory bound.",
                note="Trusted: z3, the invariant formula in vx/checks/c01.py, the SymRef heap model (vx/symheap.py). Bounds: 3 ops (2/1/0 operand slots, one successor slot, one owned region), 2 blocks, 2 regions quick; 4 ops/3 blocks thorough. Outside: state left by calls that raise, nested erasure beyond the pinned two-block shape, Operation.drop_all_references alone, PatternRewriter wrappers."),
})

CLAIMED.update({
    "C03": dict(cat="other", design="DESIGN.md §4 C03",
                text="Unit-symbolic on IR pairs (M1): A is a concrete skeleton, B the same skeleton with every comparable point symbolic (result/argument type widths 1..64, attribute/property payloads, every operand slot and successor slot as a symbolic reference over B's values/blocks); the real is_structurally_equivalent runs on (A,B) and z3 decides 'equivalent <=> all points coincide positionally', symmetry, reflexivity (attached ops, forward references, graph regions), equivalence with clones, non-equivalence under single structural changes, and OperationInfo.__eq__ agreement.",
                note="Trusted: z3, SymRef model, the positional-correspondence oracle. Skeletons: flat, nested region, 2-block CFG, forward reference, graph region, single op with region; <=3 ops, 2 blocks."),
})

CLAIMED.update({
    "C02": dict(cat="other", design="DESIGN.md §4 C02",
                text="Every clone entry point (Operation.clone, clone_without_regions, Region.clone, Region.clone_into at each index into empty/non-empty destinations, shared-mapper reuse, ModulePass.apply_to_clone) runs on source skeletons whose operand/successor wirings range over {earlier inside value, LATER inside value (forward reference), enclosing-block value, outside value/block} (all combinations, enumerated by forks of the exploration) and whose attribute/property payloads and type widths are symbolic; an independent positional-isomorphism oracle, source/destination snapshots, a use-list consistency walk and a mutate-the-copy independence test are evaluated, payload agreement decided by z3.",
                note="Wirings are an enumerated shape dimension (the clone code hashes values, which concretises references); payloads are the solver's dimension. Skeletons: 2 blocks, 4 ops, one nested region; destinations with 0-2 existing blocks."),
})

CLAIMED.update({
    "C11": dict(cat="other", design="DESIGN.md §4 C11",
                text="The real PatternRewriteWalker + GreedyRewritePatternApplier + PatternRewriter run on IR skeletons (nesting depth 2) whose per-op attribute payloads are SYMBOLIC; a terminating pattern family (erase incl. nested regions, replace, modify in place, insert) matches on the payloads, so the set of rewritten ops - and with it the worklist history - is determined by symbolic data and all combinations are explored. For all 8 walk configurations x {no post-walk function, region_dce, region_dce with applier DCE off} z3 decides: no exception escapes, patterns only see attached ops, fixpoint reached in recursive mode, returned flag == 'IR changed', every removal/insertion reported to the listener; plus has_done_action/notification obligations for each PatternRewriter mutation method.",
                note="The schedule dimension is covered only as far as the walk configurations and the payload-driven match sets generate it (no arbitrary worklist permutations). Skeletons of 6-7 ops; 4 symbolic payloads quick, 6 thorough; payload range 0..4."),
})

CLAIMED.update({
    "C13": dict(cat="translation_validation", design="DESIGN.md §4 C13",
                text="Translation validation (M3): the dce pass, the pattern-based dce() and canonicalize (region_dce as post-walk) run on a program family mixing pure, effectful (external calls, stores), unknown (test.op), unregistered and symbol ops with unused results, dead cycles through block arguments, unreachable blocks, bottom-tested loops and nested scf.if; source and result run in the reference interpreter on SYMBOLIC arguments with an effect trace and z3 decides equality of results, final memory and effect traces for all inputs. The structural post-condition (nothing removable/unreachable left) is an auxiliary concrete check.",
                note="The pass's decisions do not depend on data, so the solver's dimension is the program inputs only; shapes are an explicit family of 10 programs x 3 passes. Trusted: vx/refprog.py effect model."),
    "C16": dict(cat="translation_validation", design="DESIGN.md §4 C16",
                text="Symbolic translation validation (M3): convert-scf-to-cf, scf-for-loop-unroll/-range-folding/-flatten, licm and control-flow-hoist (and two pipelines) run on loop/branch skeletons whose bounds, steps, folded constants and initial values are SYMBOLIC (function arguments, or arith.constant payloads inside the IR on which the pass forks); source and result run in the reference interpreter forking on loop exits (trip count <= K) and z3 decides refinement of results and effect traces, zero-trip and negative ranges included.",
                note="K = 3 quick / 5 thorough; bounds in small boxes. lower-affine and desymref are not covered (no reference semantics built for affine/symref): stated gap. Trusted: vx/refprog.py."),
})

CLAIMED.update({
    "C28": dict(cat="translation_validation", design="DESIGN.md §4 C28",
                text="Translation validation (M3): pure arith functions (<=5 ops, shapes chosen to force nested merges, merges against block order, shared subterms) go through eqsat-create-eclasses, apply-eqsat-pdl-interp with rule sets compiled by the real PDL->pdl_interp->eqsat_pdl_interp conversions, eqsat-add-costs and eqsat-extract; source and extracted function get meaning on SYMBOLIC arguments and z3 decides equality for all inputs; every rule is proved sound first; exceptions, leftover e-class ops and non-verifying output are violations.",
                note="Constants are concrete (the e-graph hashes them); the solver's dimension is the function arguments. 10 programs x 5 rule sets."),
})

CLAIMED.update({
    "C22": dict(cat="translation_validation", design="DESIGN.md §4 C22",
                text="(a) RISC-V canonicalization alone: ~80 snippets of 1-4 riscv ops whose rv32.li constants (full 32 bit) and instruction immediates (full 12 bit, 5-bit shift amounts) are SYMBOLIC - the patterns fork on them - run through the real canonicalize pass; before/after execute on an RV32 reference machine and z3 decides equal results and equal final memory for all constants/immediates/inputs. (b) func/arith programs go through the documented lowering pipelines (also before allocation for i1 results), the riscv_func body executes on the register-file machine with symbolic argument registers and must leave the reference result in a0. (c) functions clobbering each callee-saved s/fs register go through riscv-prologue-epilogue-insertion and execute on a symbolic stack: sp, all s/fs registers and the caller's stack restored.",
                note="Trusted: z3, vx/rvsem.py (RV32IM + float moves/loads/stores), vx/refprog.py for the source. A canonicalization/lowering that raises a diagnostic is counted as reported failure. Outside: scf lowering, float programs, snitch extensions, assembly text."),
})

CLAIMED.update({
    "C19": dict(cat="translation_validation", design="DESIGN.md §4 C19",
                text="Translation validation (M3): riscv-level functions with unallocated registers (high register pressure, pre-assigned registers, zero register, values live across loops, nested riscv_scf.for) are allocated by the real RegisterAllocatorLivenessBlockNaive with the default and three reduced register pools; the SSA dataflow meaning and the execution of the allocated ops on a register file are both computed on SYMBOLIC argument registers and li immediates (loops fork on their exit tests) and z3 decides equal results and memory for all inputs - two live values sharing a register make them differ. The x86 allocator is exercised through C21's pipeline obligations.",
                note="Trusted: z3, vx/rvsem.py, the riscv_scf.for semantics stated in the evidence. Single-block functions only (the allocator rejects others); trip counts <= 4."),
})

CLAIMED.update({
    "C21": dict(cat="translation_validation", design="DESIGN.md §4 C21",
                text="Translation validation (M3) at instruction level: integer func/arith functions (add/mul chains, argument reuse, 1-6 arguments, families with 4-11 simultaneously live values, SYMBOLIC 64-bit constants) are compiled by the real x86 pipeline (func/arith lowering, cast reconciliation, canonicalize, dce, x86-allocate-registers, prologue/epilogue insertion); the resulting x86-dialect function executes on a 64-bit register-file + stack model with symbolic argument registers, callee-saved registers and rsp; z3 decides for all of them that rax equals the source's reference result, rbx/rbp/r12-r15 and rsp are restored and the caller's stack is untouched. Also exercises the x86 register allocator for C19.",
                note="The 'assembles and runs natively' clause cannot be decided by a solver: the claim is about the instruction semantics of the ops the backend produced, with vx/x86sem.py (mov/add/sub/imul/and/or/xor/lea/push/pop) in the trusted base. Pipelines that report failure (out of registers, imm32 overflow) are accepted outcomes."),
})

CLAIMED.update({
    "C23": dict(cat="translation_validation", design="DESIGN.md §4 C23",
                text="Translation validation (M3) of the LLVM backend on the emitted text: a generated catalogue of llvm-dialect modules (every integer binop x every overflow/exact/disjoint flag variant, flagged-then-unflagged histories in one function / a later function / a later module of the same process, all icmp/fcmp predicates, trunc/zext/sext with flags, select, fneg, float binops with fast-math flags, signed-zero/NaN/inf/denormal float constants, SYMBOLIC integer constants pushed through create_constant, acyclic CFGs with block arguments incl. swapping phis and both edges to one block, alloca/store/load, direct calls) is translated by the real convert_module; the printed LLVM IR is accepted by LLVM's parser+verifier and parsed back into instruction records; an LLVM LangRef model with poison and UB (vx/llsem.py) runs the source ops and the emitted instructions on SYMBOLIC arguments and z3 decides refinement (source defined => target defined and bit-identical) for all arguments and constant values.",
                note="LLVM's optimiser/codegen ('compiled code returns') is outside a solver's reach: it is exercised concretely only - counterexamples are replayed with MCJIT, and the model itself is validated against native runs on boundary inputs (validate-model obligations; a mismatch is a harness error, never a violation). Modules the backend refuses (fcmp _false/_true raise in llvmlite) are outside the property."),
})

CLAIMED.update({
    "C10": dict(cat="other", design="DESIGN.md §4 C10",
                text="Unit-symbolic (M1) on generated IRDL definitions: for each construct (operands, results, regions, successors) every single/optional/variadic definition sequence up to length 3 (thorough 4) x every admissible option (none, SameVariadic*Size, AttrSized*Segments as property/attribute) is turned into a real op class; an instance with n elements (n forked 0..5, thorough 0..8) carries SYMBOLIC i32 segment sizes and the real OpDef.verify decides acceptance; z3 shows acceptance <=> the property's segment rules (non-negative, per-kind, sum = n) for all sizes, and that accepted ops' accessors return exactly the reference slices. Constraint families give operand/result/property types SYMBOLIC integer widths under VarConstraint/RangeVarConstraint/Eq/AnyOf/Base constraints and decide acceptance <=> reference formula; constructor families build through the generated build() and check verify + accessors; property/attribute presence family.",
                note="Definition shapes and list lengths are enumerated (they are Python class structure); the solver dimension is segment sizes and type widths. The operations of the registered dialects are not covered (no symbolic dimension). Sizes are bounded to [-2,7] (thorough [-3,10])."),
})

CLAIMED.update({
    "C09": dict(cat="other", design="DESIGN.md §4 C09",
                text="Unit-symbolic (M1): constraint trees from a grammar (Any/Base/Eq/AttrSet leaves, ParamAttrConstraint over a generic pair attribute and IntegerType, VarConstraint shared across positions and depths, AnyOf.get and `|` unions of 2-3 alternatives incl. every pair of pair-parameter alternatives over a 5-letter constraint alphabet, AllOf and `&`) are built by the real constructors and verified on a SYMBOLIC attribute (shape forked over 9 shapes up to depth 2; integer payloads and type widths are solver variables). z3 decides acceptance <=> a declarative structural reference (union = some alternative, intersection = all, one consistent variable assignment) for all payloads; on accepted paths can_infer => infer()'s result verifies. Hints (classes, unions, generic attribute classes, unions of generics) via irdl_to_attr_constraint are compared with isa and with the hint's structure on the same symbolic attributes.",
                note="Tree shapes and attribute shapes are enumerated; payloads are symbolic. Where verification hashes the attribute (AttrSetConstraint membership) the engine concretises by forking, so payload ranges are narrowed there ([-1,3], widths [7,17]). Unions the constructor refuses (PyRDLError) are skipped, as the property allows."),
})

CLAIMED.update({
    "C18": dict(cat="other", design="DESIGN.md §4 C18",
                text="Unit-symbolic (M1) on text: option-carrying pass objects (generated dataclasses covering str/int/bool/float/optional/default/tuple/union option types and every registered pass with options) get SYMBOLIC option values - bounded symbolic text whose cells range over all of Unicode (case-split into 9 character classes), integers as solver variables rendered to symbolic decimal digits, tuples, optionals - and are printed by the real spec()/ArgSpec.__str__; the symbolic text is lexed by the real PipelineLexer (regexes executed by a backtracking matcher that walks CPython's parse tree of each pattern in sre's priority order), parsed by parse_pipeline, string literals decoded by the real StringLiteral.bytes_contents over symbolic UTF-8, and rebuilt by from_spec; z3 decides equality with the original for all values. Parsing: templates with symbolic holes must end in passes or ArgSpecParseError/ValueError.",
                note="Floats cannot be rendered symbolically (repr is C code): enumerated boundary values only. Bounds: 3 cells over Unicode (thorough 5), 6 cells over a word alphabet (thorough 8), 7-digit ints. Two known findings (Optional[tuple] () vs None; non-finite floats) are format limitations, recorded; three defects were repaired (fix: commits)."),
})

CLAIMED.update({
    "C06": dict(cat="other", design="DESIGN.md §4 C06",
                text="Unit-symbolic (M1) through the real Printer, MLIRLexer and Parser: builtin attributes/types are built with SYMBOLIC payloads (StringAttr/file names/symbol names as bounded symbolic text over all of Unicode, BytesAttr as symbolic bytes, IntegerAttr/IntAttr values over the full range of each type incl. i128, DenseArrayBase and DenseIntOrFPElementsAttr from symbolic raw element bytes - i.e. every element value - incl. splats, vectors and 2-d shapes, tensor/memref/vector dims, IntegerType widths, function and tuple types), printed, and the symbolic text is lexed and parsed back in a fresh context; z3 decides for all payload values that the whole text is consumed and the parsed attribute has the same class and identical payloads (dense data byte for byte). Float payloads: enumerated boundary values per float type (both zeros in one process, denormals, extremes, NaN payloads, infinities) in scalar, array and dense form with bit-pattern comparison.",
                note="repr/format of floats is C code, so floats are not symbolic. Dictionary keys are enumerated (the parser hashes them). Two known findings (non-ASCII strings re-read as bytes literals; all-ASCII BytesAttr re-read as StringAttr) are limitations of the shared literal syntax and are recorded; one defect repaired (hex float elements of dense/array attributes)."),
})

CLAIMED.update({
    "C04": dict(cat="other", design="DESIGN.md §4 C04",
                text="Unit-symbolic (M1) on names: 11 IR skeletons (repeated/unnamed/hinted results, multi-result ops, block arguments, several blocks with forward branches, hinted blocks next to automatically named ones, nested and sibling regions, an IsolatedFromAbove op with results followed by definitions, a terminator with a forward successor that owns a region, graph-style forward value references) are built through the IR API with SYMBOLIC value and block name hints (1-2 cells over all of Unicode; up to 4, thorough 5, cells over the identifier alphabet); hints the API refuses end the path. The real Printer prints the generic form, the real lexer and Parser read the symbolic text back in a fresh context, and z3 decides for all hints: it parses, the structure (ops, wiring, types, attributes, successors, layout) is the same, re-printing the parsed module gives the same text, and printing the original twice gives the same text.",
                note="Skeleton shapes are enumerated, names are symbolic; attribute payloads are C06; custom formats are C05 (not applicable). Printer/Parser name tables are list-backed dictionaries (stub) so symbolic names need no hashing. Three defects repaired (Unicode hints, repeated _<n> suffixes, bb<n> block hints). Branches to a region's entry block are outside the catalogue (MLIR forbids them; the entry label is not printed)."),
})

CLAIMED.update({
    "C07": dict(cat="other", design="DESIGN.md §4 C07",
                text="Unit-symbolic (M1) on input text: (lex) the real MLIRLexer on FULLY symbolic text of 1-2 (thorough 3) cells over all Unicode scalar values must end with tokens or ParseError; (parse) ten generic-format chunks covering the builtin attribute/type/region syntax are edited at EVERY position - one cell replaced by a symbolic cell, one inserted, or the text cut and a symbolic cell appended (about 2400 edit sites) - and parsed + verified by the real Parser: z3 decides for all values of the cell that every path ends with IR, ParseError or a verification diagnostic, any other exception being a violation; (cost) for 17 token-start prefixes x 12 character classes x n in {8,16} cells symbolic inside the class, the step count of the regex matcher that executes the lexer's own patterns (backtracking with sre's priority order over CPython's pattern parse tree) stays under a linear bound - super-linear backtracking is replayed by timing CPython's regex engine on growing instances.",
                note="'Promptly' is decided on matcher steps, not wall-clock time. One symbolic cell per input (two adjacent ones in thorough); edits inside identifiers that the parser hashes (operation names, dictionary keys, type keywords) are partly inconclusive and reported as such. Eight defects repaired (exponential string regex, non-ASCII numerics, and six internal-error escapes of the parser)."),
})

CLAIMED.update({
    "C05": dict(cat="other", design="DESIGN.md §11.7 C05",
                text="Unit-symbolic round trip: a catalogue of verified modules made of custom-format operations of arith, cf, func, memref, scf, builtin, llvm, vector, tensor and affine (generic text, 37 modules) and instances of 10 generated declarative-format operations (default-valued properties bare/anchored/in attr-dict, optional groups, variadic and optional operands/results, dense arrays, symbol names, strings, typed attributes) carry SYMBOLIC payloads: integer constants, dense/array elements, switch case values, static offsets, alignments, attribute values over the full range of their type, comparison predicates, symbol names and strings as symbolic text. The real printer prints the custom form to a symbolic stream, the real parser parses it back in a fresh context, and z3 decides for all payloads that it parses, gives the same module, prints the same again, and agrees with the parse of the generic form.",
                note="Partial: 10 of ~80 dialects plus generated operations; the .mlir corpus is concrete and outside. With several integer payloads one at a time is wide, the others range over [-9,9]. Names/strings: 1-2 ASCII cells (non-ASCII is the C06 finding). Floats are concrete. Diagnostic rendering is stubbed. Eleven defects repaired (DESIGN 11.4), four name-coincidence classes recorded as known findings."),
    "C29": dict(cat="other", design="DESIGN.md §11.6 C29",
                text="Unit-symbolic (M1) on names: a nested symbol-table skeleton (top module, named module, module nested in it, unnamed module; functions and plain ops inside) carries SYMBOLIC symbol names (one-cell symbolic text each, so the solver ranges over every equality pattern between the six names and the 1-3 components of the reference) and enumerated visibilities; a flat or nested reference is looked up from seven starting operations with SymbolTable.lookup_nearest_symbol_from (direct), SymbolTableCollection (cached, queried twice) and traits.SymbolTable.lookup_symbol; z3 decides for all names that each returns exactly the operation designated by a declarative reading of the nesting rules (nearest enclosing table; each further component resolved inside the previous result, which must be a table; private symbols reached through nesting refused) and that the three agree.",
                note="Originally listed as not applicable ('only equality patterns of names'); with symbolic text the solver decides exactly those patterns, so it is claimed. Name uniqueness within a table (the verified-module precondition) is an assumption because the trait's verifier hashes names. The skeleton shape (4 tables, 6 symbols) is fixed."),
})

NOT_APPLICABLE = {
    "C17": "pass x corpus-module cross product: deciding it means running each pair concretely; no symbolic dimension (DESIGN §5)",
    "C24": "dominance/post-order over CFG shapes held in real successor tuples and dict[Block,set[Block]]: symbolic references concretise at first use as dict key, i.e. plain enumeration (DESIGN §5)",
    "C25": "liveness fixpoint under schedules: quantifier is over shapes and worklist permutations, no data dimension (DESIGN §5)",
    "C27": "PDL interpreted vs compiled: two tree-walking interpreters over concrete pattern IR with id-keyed maps; out of reach for symbolic references, patterns must be concrete (DESIGN §5)",
}

PENDING_REASON = "designed (DESIGN §4) but its check is not yet built to a sound state in this round"
ALL = [f"C{i:02d}" for i in range(1, 30)]


def main():
    from vx.checks import CHECKS

    checks = []
    for pid in ALL:
        if pid in CLAIMED and pid in CHECKS:
            c = CLAIMED[pid]
            checks.append({
                "property_id": pid,
                "quick_cmd": f"./check {pid} --tier quick",
                "thorough_cmd": f"./check {pid} --tier thorough",
                "evidence_file": f"/verif/evidence/{pid}.json",
                "replay_cmd_template": f"./check {pid} --replay {{path}}",
                "engine": "symx",
                "level_claimed": {"category": c["cat"], "text": c["text"], "design_ref": c["design"]},
                "level_note": c["note"],
                "technique": TECH,
            })
    na = []
    for pid in ALL:
        if pid in CLAIMED and pid in CHECKS:
            continue
        na.append({"property_id": pid, "reason": NOT_APPLICABLE.get(pid, PENDING_REASON)})
    man = {
        "version": 1,
        "setup_cmd": "./setup.sh",
        "hooks": {
            "guard": "XDSL_VERIF_SYMX",
            "enable": "no source hooks in /repo: checks set XDSL_VERIF_SYMX=1 in their own process and install an import-time AST rewrite (vx/hook.py) that compiles xdsl modules from /repo's current working tree",
            "baseline_off_cmd": "cd /repo && /venv/bin/python -m pytest -ra -q -p no:cacheprovider --timeout=900 --continue-on-collection-errors",
            "source_commits": [],
            "add_only": True,
        },
        "engines": [{"name": "symx", "path": "/verif/vx", "serves_properties": sorted(p for p in CLAIMED if p in CHECKS),
                     "kind_free_text": "purpose-built symbolic executor for Python (proxy values over z3 bit-vectors/FP/refs, replay-based path exploration), z3 5.1 + cvc5 1.4 back ends"}],
        "checks": checks,
        "not_applicable": na,
        "notes": "Genuine defects repaired in /repo are 'fix:' commits; recorded ones are in /verif/known_findings.json (KNOWN-FINDING lines). Exit 0 = held/known/inconclusive, 1 = replayed violation, 3 = harness error.",
    }
    with open(os.path.join(ROOT, "MANIFEST.json"), "w") as f:
        json.dump(man, f, indent=1)
    print("claimed:", [c["property_id"] for c in checks])


if __name__ == "__main__":
    main()

# validate what was written
try:
    import jsonschema

    jsonschema.validate(json.load(open(os.path.join(ROOT, "MANIFEST.json"))), json.load(open("/root/.vp/MANIFEST.schema.json")))
except ImportError:
    pass
