import io, sys, glob, os, re, collections
from xdsl.context import Context
from xdsl.dialects import get_all_dialects
from xdsl.parser import Parser
from xdsl.printer import Printer
def ctx():
    c=Context()
    for n,f in get_all_dialects().items():
        c.register_dialect(n,f)
    return c
files=sorted(glob.glob("/repo/tests/filecheck/**/*.mlir", recursive=True))
stats=collections.Counter(); fails=collections.defaultdict(set)
for f in files:
    txt=open(f).read()
    rel=os.path.relpath(f,"/repo/tests/filecheck")
    if "invalid" in os.path.basename(f) or "expected-error" in txt or "split-input-file" in txt: stats["skipped"]+=1; continue
    try:
        m=Parser(ctx(),txt).parse_module(); m.verify()
    except Exception as e:
        stats["noparse"]+=1; continue
    try:
        s=io.StringIO(); Printer(stream=s).print_op(m)
    except Exception as e:
        fails["print "+type(e).__name__+": "+str(e)[:60]].add(rel); continue
    try:
        m2=Parser(ctx(),s.getvalue()).parse_module()
    except Exception as e:
        fails["reparse "+type(e).__name__+": "+" ".join(str(e).split())[-90:]].add(rel); continue
    try: m2.verify()
    except Exception as e: fails["reverify "+str(e)[:60]].add(rel); continue
    if not m.is_structurally_equivalent(m2):
        # find first differing op
        d="?"
        for a,b in zip(m.walk(), m2.walk()):
            if a.name!=b.name or a.properties!=b.properties or a.attributes!=b.attributes or [r.type for r in a.results]!=[r.type for r in b.results]:
                d=f"{a.name} vs {b.name}"; break
        fails["differs at "+d].add(rel)
    else: stats["ok"]+=1
    g=io.StringIO(); Printer(stream=g, print_generic_format=True).print_op(m)
    try:
        m3=Parser(ctx(),g.getvalue()).parse_module()
        if not m3.is_structurally_equivalent(m2): fails["generic vs custom differ"].add(rel)
    except Exception as e: fails["generic reparse "+str(e)[:50]].add(rel)
print(dict(stats))
for k,v in sorted(fails.items()): print("FAIL",k,"::",sorted(v)[:5], len(v))
