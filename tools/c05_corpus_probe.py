import io, sys, glob, os, re, collections
from xdsl.context import Context
from xdsl.dialects import get_all_dialects
from xdsl.dialects.builtin import IntegerAttr, i32, ModuleOp
from xdsl.parser import Parser
from xdsl.printer import Printer
def ctx():
    c=Context()
    for n,f in get_all_dialects().items():
        c.register_dialect(n,f)
    return c
files=sorted(glob.glob("/repo/tests/filecheck/dialects/**/*.mlir", recursive=True))
stats=collections.Counter(); bad=collections.defaultdict(set); fails=collections.defaultdict(set)
for f in files:
    txt=open(f).read()
    if "invalid" in os.path.basename(f) or "expected-error" in txt or "split-input-file" in txt: stats["skipped"]+=1; continue
    try:
        m=Parser(ctx(),txt).parse_module(); m.verify()
    except Exception as e:
        stats["noparse"]+=1; continue
    for op in m.walk():
        if op is m: continue
        op.attributes["vx.extra"]=IntegerAttr(1,i32)
    try: m.verify()
    except Exception: stats["noverify_attr"]+=1; continue
    try:
        s=io.StringIO(); Printer(stream=s).print_op(m)
    except Exception as e:
        fails[type(e).__name__+": "+str(e)[:60]].add(os.path.relpath(f,"/repo/tests/filecheck/dialects")); continue
    try:
        m2=Parser(ctx(),s.getvalue()).parse_module()
    except Exception as e:
        fails["reparse "+type(e).__name__+": "+str(e).strip().splitlines()[-1][:70]].add(os.path.relpath(f,"/repo/tests/filecheck/dialects")); continue
    stats["ok_files"]+=1
    o1=list(m.walk()); o2=list(m2.walk())
    if len(o1)!=len(o2): fails["opcount"].add(os.path.relpath(f,"/repo/tests/filecheck/dialects")); continue
    for a,b in zip(o1,o2):
        if a.name!=b.name: fails["desync"].add(os.path.relpath(f,"/repo/tests/filecheck/dialects")); break
        if set(a.attributes)!=set(b.attributes): bad[a.name].add(os.path.relpath(f,"/repo/tests/filecheck/dialects"))
print(dict(stats))
print(len(bad),"ops drop attrs:"); 
for k in sorted(bad): print("  ",k, sorted(bad[k])[:2])
for k,v in fails.items(): print("FAIL",k,sorted(v)[:4])
